"""Entry point of every registered check.

    /venv/bin/python harness/check.py C07 --tier quick
    /venv/bin/python harness/check.py --replay replays/C07/quick-0-1.json

Skeleton (DESIGN.md section 4): regenerate Gen/*.lean from /repo's working tree -> lake build the property's
theorems and the driver -> audit axioms -> correspondence + always-on search against the real code -> classify
-> evidence.  Exit 0 = held, 1 = VIOLATION printed, 2 = harness error / timeout (never a verdict).
"""
from __future__ import annotations

import argparse
import importlib
import json
import os
import warnings
warnings.filterwarnings("ignore")
import re
import signal
import sys
import traceback

sys.path.insert(0, os.path.dirname(os.path.abspath(__file__)))
import common  # noqa: E402
from common import Ctx, audit, finish, grep_forbidden, lake_build, theorems_of  # noqa: E402

LEVELS = {"C02": "translation_validation"}
TIME_BUDGET = {"quick": 1500, "thorough": 6 * 3600}


def _timeout(signum, frame):  # noqa: ANN001
    print("TIMEOUT: check exceeded its time budget (exit 2, not a verdict)")
    os._exit(2)


def broken_from_log(pid: str, log: str) -> list:
    """names of the theorems of Props/<pid>.lean at or after which the build log reports errors"""
    p = common.LEAN_DIR / "JumanjiModel" / "Props" / f"{pid}.lean"
    out = []
    lines = p.read_text().split("\n") if p.exists() else []
    thm_at = []
    for i, ln in enumerate(lines, 1):
        m = re.match(r"\s*theorem\s+([^\s:({\[]+)", ln)
        if m:
            thm_at.append((i, m.group(1)))
    for m in re.finditer(r"error: (\S+?\.lean):(\d+):\d+: (.*)", log):
        f, line, msg = m.group(1), int(m.group(2)), m.group(3)
        if f.endswith(f"Props/{pid}.lean"):
            name = None
            for (i, n) in thm_at:
                if i <= line:
                    name = n
            out.append(f"Props.{pid}.{name or '?'} (line {line}: {msg[:120]})")
        else:
            out.append(f"{f}:{line}: {msg[:120]}")
    if not out:
        out.append(f"lake build JumanjiModel.Props.{pid} failed: " + log[-400:].replace("\n", " | "))
    return out


def run(pid: str, tier: str, seed: int) -> int:
    ctx = Ctx(pid, tier, seed)
    level = LEVELS.get(pid, "proof")
    # 1. translators: regenerate the source-derived leaf modules
    import translators

    notes = translators.regenerate(pid)
    for n in notes:
        ctx.broken.append("translator: " + n)
    # 2. build the driver (needed by the search whatever the state of the proofs)
    ok, log = lake_build(["driver"])
    if not ok:
        print(log[-4000:])
        print("HARNESS ERROR: the Lean driver does not build (exit 2)")
        return 2
    # 3. build + audit the property theorems
    names = theorems_of(pid)
    ctx.obligations = len(names)
    ok, log = lake_build([f"JumanjiModel.Props.{pid}"])
    if ok:
        au = audit(pid)
        ctx.discharged = len(names) - len(au["bad"])
        for b in au["bad"]:
            ctx.broken.append(f"axiom audit: {b} {au['axioms'].get(b)}")
        ctx.coverage_extra["axioms"] = {k.split(".")[-1]: v for k, v in au["axioms"].items()}
    else:
        ctx.discharged = 0
        ctx.broken.extend(broken_from_log(pid, log))
    for h in grep_forbidden():
        ctx.broken.append("forbidden construct: " + h)
    if tier == "thorough" and ok:
        # independent re-check of the compiled theorems by Lean's external checker
        import subprocess
        try:
            r = subprocess.run(["lake", "env", "leanchecker", f"JumanjiModel.Props.{pid}"], cwd=common.LEAN_DIR, capture_output=True, text=True, timeout=3000)
            ctx.coverage_extra["leanchecker"] = "ok" if r.returncode == 0 else (r.stdout + r.stderr)[-400:]
            if r.returncode != 0:
                ctx.broken.append("leanchecker rejects JumanjiModel.Props." + pid + ": " + (r.stdout + r.stderr)[-300:])
        except subprocess.TimeoutExpired:
            ctx.coverage_extra["leanchecker"] = "timeout (not a verdict)"
    ctx.coverage_extra["theorems"] = [n.split(".")[-1] for n in names]
    # 4./5. correspondence and always-on search against the real code
    mod = importlib.import_module(f"props.{pid.lower()}")
    try:
        mod.run(ctx, extended=bool(ctx.broken))
    except Exception:  # noqa: BLE001
        # An exception raised INSIDE the implementation (deepest frame under /repo's tree, also when it travelled through a worker
        # process) on the in-contract inputs of a sweep is a finding about the code under test, not a harness problem: it is reported
        # as a violation with the traceback as replay.  Anything raised by the harness's own code stays a harness error (exit 2).
        tb = traceback.format_exc()
        if not _raised_in_implementation(tb):
            raise
        print(tb[-3000:])
        ctx.fail("implementation", "implementation_raised", "the implementation raised on an in-contract input of the sweep: " + tb.strip().split("\n")[-1][:300],
                 {"traceback": tb[-6000:]}, {"error": tb.strip().split("\n")[-1][:120]})
    if (ctx.disagreements or ctx.broken) and not ctx.failures and hasattr(mod, "search"):
        mod.search(ctx)
    # 6./7.
    return finish(ctx, level=level)


def _raised_in_implementation(tb: str) -> bool:
    """does the deepest frame that belongs to either the harness or the code under test belong to the code under test?"""
    import re
    repo, harness = str(common.REPO.resolve()), str(common.VERIF.resolve())
    # a chained traceback prints the original exception first (the remote traceback of a worker process, then "The above exception
    # was the direct cause of …" and the parent's own frames): only the original one says where the error was raised
    first = re.split(r"\n(?:The above exception was the direct cause|During handling of the above exception)", tb, 1)[0]
    last = None
    for m in re.finditer(r'File "([^"]+)", line \d+', first):
        f = m.group(1)
        if f.startswith(repo + os.sep) and not f.startswith(harness + os.sep):
            last = "impl"
        elif f.startswith(harness + os.sep):
            last = "harness"
    return last == "impl"


def replay(path: str) -> int:
    data = json.loads(open(path).read())
    pid = data["property"]
    mod = importlib.import_module(f"props.{pid.lower()}")
    if data.get("no_failing_input_found"):
        print(f"replay {path}: no concrete input; broken obligations: {data.get('broken_obligations')}")
        print("re-running the quick check to see whether they still fail")
        return run(pid, "quick", 0)
    if not hasattr(mod, "replay"):
        print("this property has no dedicated replayer; re-running the quick check")
        return run(pid, "quick", 0)
    ctx = Ctx(pid, "quick", 0)
    still = mod.replay(ctx, data)
    if still:
        print(f"VIOLATION property={pid} replay={path}")
        return 1
    print(f"replay {path}: the recorded input no longer fails")
    return 0


def main() -> None:
    ap = argparse.ArgumentParser()
    ap.add_argument("pid", nargs="?")
    ap.add_argument("--tier", default=os.environ.get("VERIF_TIER", "quick"), choices=["quick", "thorough"])
    ap.add_argument("--replay")
    a = ap.parse_args()
    os.chdir(common.VERIF)
    seed = int(os.environ.get("VERIF_SEED", "0"))
    signal.signal(signal.SIGALRM, _timeout)
    signal.alarm(TIME_BUDGET[a.tier])
    try:
        if a.replay:
            rc = replay(a.replay)
        else:
            rc = run(a.pid, a.tier, seed)
    except Exception:
        traceback.print_exc()
        print("HARNESS ERROR (exit 2, not a verdict)")
        rc = 2
    sys.stdout.flush()
    os._exit(rc)


if __name__ == "__main__":
    main()
