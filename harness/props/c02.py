"""C02 — reset/step are pure and commute with jit, vmap and scan (level: translation_validation, partial).
Theorems: lean/JumanjiModel/Props/C02.lean (scan = iterated step, vmap = index-wise step, rollouts compose: in the model reset/step are
functions).  Decision: one transition executed in every program variant — eager, jit, vmap over several batch sizes (case at a random
index), lax.scan, a fresh instance with the same configuration, the same call again after interleaved other calls — all must give the single
value a pure function prescribes; arguments snapshotted before/after each call; jaxprs effect-free and callback-free."""
from __future__ import annotations

import copy
from typing import Any, List

import numpy as np

import catalog
from common import Ctx
from wraplib import first_diff, sample_action, tree_close


def snapshot(tree: Any) -> List[bytes]:
    import jax

    return [np.asarray(x).tobytes() + str(np.asarray(x).dtype).encode() for x in jax.tree_util.tree_leaves(tree)]


def fields_snapshot(obj: Any) -> Any:
    """ids and contents of the attributes of a (chex) dataclass argument: detects in-place assignment to the argument"""
    d = getattr(obj, "__dict__", None)
    if d is None:
        return None
    # contents only: rebinding a field to an equal value is not a modification the caller can observe
    return {k: snapshot(v) for k, v in d.items()}


class _Timeout(Exception):
    pass


def _eager(fn, seconds: int = 40, disable_jit: bool = True):
    """run fn under jax.disable_jit with a wall-clock cap (the recursive-division maze generator needs minutes in eager mode);
    None = skipped.  The check's own SIGALRM budget is restored afterwards."""
    import signal
    import time

    import jax

    def handler(signum, frame):
        raise _Timeout()
    old = signal.signal(signal.SIGALRM, handler)
    remaining = signal.alarm(seconds)
    t0 = time.time()
    try:
        if not disable_jit:
            return fn()
        with jax.disable_jit():
            return fn()
    except _Timeout:
        return None
    finally:
        signal.alarm(0)
        signal.signal(signal.SIGALRM, old)
        if remaining:
            signal.alarm(max(1, int(remaining - (time.time() - t0))))


def tidx(tree: Any, i: int) -> Any:
    import jax

    return jax.tree_util.tree_map(lambda x: x[i], tree)


def run(ctx: Ctx, extended: bool = False) -> None:
    import jax
    import jax.numpy as jnp

    rng = np.random.default_rng(ctx.seed)
    ents = catalog.entries("thorough" if (extended or not ctx.quick) else "quick")
    full_set = {x.cid for x in (ents if (extended or not ctx.quick) else catalog.one_per_class(ctx.tier, ctx.seed))}
    programs = 0
    # ---- call-history independence across instances and processes (see histlib): one fresh worker process per class builds the class's
    # configurations in the reverse of this process's order; started now, collected at the end
    import concurrent.futures as cf
    import multiprocessing as mp
    import os

    import histlib

    hseed = 1000 + ctx.seed
    sibs = catalog.siblings()
    by_cls: dict = {}
    for x in list(ents) + sibs:
        by_cls.setdefault(x.cls, []).append(x.cid)
    pool = cf.ProcessPoolExecutor(max_workers=max(1, min(6, int(os.environ.get("VERIF_WORKERS", "8")))), mp_context=mp.get_context("spawn"))
    hfut = {c: pool.submit(histlib.digest_in_fresh_process, list(reversed(cids)), hseed) for c, cids in by_cls.items()}
    hmain: dict = {}
    for e in ents:
        full = e.cid in full_set   # quick tier: the whole battery for one configuration per class, the eager/aliasing part for every configuration
        env = e.build()
        jreset, jstep = jax.jit(env.reset), jax.jit(env.step)
        hmain[e.cid] = histlib.digest(env, hseed, jreset, jstep)
        seed = int(rng.integers(1 << 30))
        key = jax.random.PRNGKey(seed)
        info = {"env": e.cid, "cls": e.cls, "reset_seed": seed}
        # a reachable (state, action): a few jitted steps of random play
        s, ts = jreset(key)
        pre = int(rng.integers(0, 4))
        actions = []
        for _ in range(pre):
            a = jnp.asarray(sample_action(env, rng))
            s2, ts2 = jstep(s, a)
            if int(ts2.step_type) == 2:
                break
            actions.append(np.asarray(a).tolist())
            s, ts = s2, ts2
        # prefer an action the mask allows (a rejected action often leaves the state untouched and would hide in-place writes)
        from props.c11 import masked_action

        ma = masked_action(env, ts, rng) if rng.random() < 0.8 else None
        a = jnp.asarray(ma if ma is not None else sample_action(env, rng))
        info.update({"prefix_actions": actions, "action": np.asarray(a).tolist()})
        ref_reset = jreset(key)
        ref_step = jstep(s, a)
        variants = {}
        # the state is ONE pytree type: what reset returns and what step returns must have the same structure, shapes and dtypes (for every
        # input — eval_shape), otherwise lax.scan / cond / vmap-stacking over a rollout that starts at reset cannot even be traced
        def _struct(t):
            return [(jax.tree_util.keystr(p), tuple(x.shape), str(x.dtype)) for p, x in jax.tree_util.tree_flatten_with_path(t)[0]]
        st_reset = _struct(jax.eval_shape(env.reset, key)[0])
        st_step = _struct(jax.eval_shape(env.step, ref_reset[0], a)[0])
        st_step2 = _struct(jax.eval_shape(env.step, ref_step[0], a)[0])
        ctx.evaluations += 1
        if st_reset != st_step or st_step != st_step2:
            diff = [(x, y) for x, y in zip(st_reset, st_step) if x != y] or [(x, y) for x, y in zip(st_step, st_step2) if x != y] or [("structure", "")]
            ctx.fail(e.cid, "state_type_unstable", f"the state returned by step does not have the type of the state returned by reset (first difference {diff[0]}): "
                     "a lax.scan rollout from the reset state cannot be traced while per-call execution works", {**info, "difference": [list(map(str, d)) for d in diff[:4]]}, {"cls": e.cls})
            continue

        def record(name, got, ref):
            nonlocal programs
            programs += 1
            ctx.evaluations += 1
            ctx.count(f"variant_{name.split('[')[0]}")
            ctx.nontrivial.add((e.cid, seed, name))
            if not tree_close(got, ref, tol=2e-5):
                ctx.fail(e.cid, f"variant:{name.split('[')[0]}", f"program variant {name} disagrees with the jit result at {first_diff(got, ref)}",
                         {**info, "variant": name}, {"cls": e.cls})

        # --- repeat (determinism) and argument snapshots
        snap_s, snap_a, snap_k = snapshot(s), snapshot(a), snapshot(key)
        record("jit-repeat:step", jstep(s, a), ref_step)
        record("jit-repeat:reset", jreset(key), ref_reset)
        # --- eager (plain per-call Python execution), with in-place mutation detection on the argument objects
        if ctx.quick and not extended and e.cls in ("BinPack", "MMST", "PacMan", "RobotWarehouse") and ctx.seed % 2 == 1:
            ctx.count("eager_skipped_slow")
        else:
            s_arg = copy.copy(s)  # same leaves, fresh container: what the callee may assign to
            before = fields_snapshot(s_arg)
            eg = _eager(lambda: env.step(s_arg, a))
            er = _eager(lambda: env.reset(key)) if e.cls not in ("Maze", "Cleaner") else None
            if eg is not None:
                record("eager:step", eg, ref_step)
            if er is not None:
                record("eager:reset", er, ref_reset)
            if eg is None or er is None:
                ctx.count("eager_skipped_or_timed_out:" + e.cls)
            after = fields_snapshot(s_arg)
            if before is not None and before != after:
                changed = [k for k in before if before[k] != after.get(k)] + [k for k in after if k not in before]
                ctx.fail(e.cid, "argument_mutated", f"env.step modified its state argument in place (fields {changed})", {**info, "fields": changed},
                         {"cls": e.cls, "fields": ",".join(sorted(changed))})
            # in-contract but unusual input: a state whose leaves are writable host NumPy arrays (restored checkpoint, np.load, tree_map(np.array, s)):
            # NumPy implements in-place operators, so `x *= 2` inside step/observation code would write into the caller's buffer
            s_np = jax.tree_util.tree_map(lambda x: np.array(x), s)
            a_np = np.array(a)
            snap_np = snapshot(s_np)
            def _try_np():
                try:
                    return env.step(s_np, a_np)
                except _Timeout:
                    raise
                except Exception:  # noqa: BLE001
                    # most environments use `x.at[...]` or rely on JAX's clamped indexing, which host arrays do not offer:
                    # such states are simply not accepted by the environment (no verdict)
                    return None

            eg_np = _eager(_try_np)
            if eg_np is None:
                # plain op-by-op execution (no jit decorator, control flow still staged by lax) accepts host arrays in more environments
                eg_np = _eager(_try_np, disable_jit=False)
            if eg_np is None:
                ctx.count("numpy_state_not_accepted:" + e.cls)
            if eg_np is not None:
                record("eager-numpy-state:step", eg_np, ref_step)
                if snapshot(s_np) != snap_np:
                    ctx.fail(e.cid, "argument_mutated", "env.step wrote into the NumPy arrays of its state argument", {**info, "variant": "eager-numpy-state"}, {"cls": e.cls})
                eg_np2 = _eager(_try_np, disable_jit=False)
                if eg_np2 is not None:
                    record("eager-numpy-state:repeat", eg_np2, ref_step)
            # results must not change after the fact: a value returned earlier stays what it was when later calls are made on the same object
            # (eager execution can hand out the same mutable container twice, e.g. a generator that returns a stored instance)
            if e.cls not in ("Maze", "Cleaner"):
                k1, k2 = jax.random.PRNGKey(int(rng.integers(1 << 30))), jax.random.PRNGKey(int(rng.integers(1 << 30)))
                r1 = _eager(lambda: env.reset(k1))
                if r1 is not None:
                    snap_r1 = snapshot(r1)
                    r2 = _eager(lambda: env.reset(k2))
                    n1 = _eager(lambda: env.step(r1[0], a))
                    snap_n1 = snapshot(n1) if n1 is not None else None
                    _eager(lambda: env.step(r1[0], jnp.asarray(sample_action(env, rng))))
                    _eager(lambda: env.reset(k1))
                    programs += 1
                    ctx.evaluations += 1
                    if snapshot(r1) != snap_r1:
                        ctx.fail(e.cid, "result_changed_later", "the (state, timestep) returned by reset(k1) changed when reset/step were called again on the same object",
                                 {**info, "k1": np.asarray(k1).tolist(), "k2": np.asarray(k2).tolist()}, {"cls": e.cls})
                    if n1 is not None and snapshot(n1) != snap_n1:
                        ctx.fail(e.cid, "result_changed_later", "the result of step changed when reset/step were called again on the same object", info, {"cls": e.cls})
                    if r2 is not None and not tree_close(r2, jax.jit(env.reset)(k2), tol=2e-5):
                        ctx.fail(e.cid, "variant:eager", "eager reset after another eager reset disagrees with the jit result (call-history dependence)",
                                 {**info, "k2": np.asarray(k2).tolist()}, {"cls": e.cls})
        if snapshot(s) != snap_s or snapshot(a) != snap_a or snapshot(key) != snap_k:
            ctx.fail(e.cid, "argument_bytes_changed", "the arrays passed to reset/step changed", info, {"cls": e.cls})
        if not full:
            # a second instance built with the same constructor arguments must reset to the same state (the construction of the first one,
            # or of any other, must not have left anything behind): cheap enough for every configuration
            if not e.meta.get("heavy"):
                record("fresh-instance:reset", jax.jit(e.build().reset)(key), ref_reset)
            ctx.sample({"env": e.cid, "variants": ["eager", "jit-repeat", "result-aliasing", "fresh-instance:reset"]})
            continue
        # --- the LAST transition of a mask-following episode (completion, exact fit, time limit): decisions taken on float results are
        # where eager and compiled execution part first
        sT, tsT = jreset(jax.random.PRNGKey(seed + 1))
        last = None
        for _ in range(int(e.meta.get("time_limit") or 0) + 64):
            mb = masked_action(env, tsT, rng)
            aT = jnp.asarray(mb if mb is not None else sample_action(env, rng))
            s2T, ts2T = jstep(sT, aT)
            if int(ts2T.step_type) == 2:
                last = (sT, aT, (s2T, ts2T))
                break
            sT, tsT = s2T, ts2T
        if last is not None:
            egT = _eager(lambda: env.step(last[0], last[1]))
            if egT is not None:
                record("eager:last-step", egT, last[2])
            bsT = jax.tree_util.tree_map(lambda x: jnp.stack([x, x]), last[0])
            vT = jax.jit(jax.vmap(env.step))(bsT, jnp.stack([last[1], last[1]]))
            record("vmap[2]:last-step", (tidx(vT[0], 1), tidx(vT[1], 1)), last[2])
        # --- vmap over several batch sizes, the case at a random index among different elements
        for B in ([1, 2, 5] if ctx.quick else [1, 2, 5, 8, 32]):
            i = int(rng.integers(B))
            keys = jax.random.split(jax.random.PRNGKey(int(rng.integers(1 << 30))), B).at[i].set(key)
            bs, bt = jax.jit(jax.vmap(env.reset))(keys)
            record(f"vmap[{B}]:reset", (tidx(bs, i), tidx(bt, i)), ref_reset)
            # batch of states: others = reset states of other keys; element i = s
            states = jax.tree_util.tree_map(lambda x, y: x.at[i].set(y), bs, s)
            acts = jnp.stack([jnp.asarray(sample_action(env, rng)) for _ in range(B)]).at[i].set(a)
            ns, nt = jax.jit(jax.vmap(env.step))(states, acts)
            record(f"vmap[{B}]:step", (tidx(ns, i), tidx(nt, i)), ref_step)
        # --- scan of several lengths vs per-call execution
        for L in ([1, 3] if ctx.quick else [1, 3, 10]):
            acts = jnp.stack([a] + [jnp.asarray(sample_action(env, rng)) for _ in range(L - 1)])

            def body(st, ac):
                st2, t2 = env.step(st, ac)
                return st2, (st2, t2)
            fin, (sts, tss) = jax.jit(lambda s0, xs: jax.lax.scan(body, s0, xs))(s, acts)
            cur = s
            seq = []
            for k in range(L):
                cur, tk = jstep(cur, acts[k])
                seq.append((cur, tk))
            record(f"scan[{L}]:first", (tidx(sts, 0), tidx(tss, 0)), ref_step)
            record(f"scan[{L}]:last", (tidx(sts, L - 1), tidx(tss, L - 1)), seq[-1])
            record(f"scan[{L}]:carry", fin, seq[-1][0])
        # --- fresh instance with the same configuration
        env2 = e.build()
        record("fresh-instance:reset", jax.jit(env2.reset)(key), ref_reset)
        record("fresh-instance:step", jax.jit(env2.step)(s, a), ref_step)
        # --- the same call after interleaved other calls on the same object (no hidden state)
        for _ in range(3):
            k2 = jax.random.PRNGKey(int(rng.integers(1 << 30)))
            s3, _ = jreset(k2)
            jstep(s3, jnp.asarray(sample_action(env, rng)))
            _ = env.observation_spec, env.action_spec
        record("after-interleaving:step", jstep(s, a), ref_step)
        record("after-interleaving:reset", jreset(key), ref_reset)
        record("re-jit:step", jax.jit(env.step)(s, a), ref_step)
        # --- static support: effect-free, callback-free jaxprs, stable across re-tracing
        jp1 = jax.make_jaxpr(env.step)(s, a)
        jp2 = jax.make_jaxpr(env.step)(s, a)
        jr = jax.make_jaxpr(env.reset)(key)
        txt = str(jp1)
        programs += 2
        if jp1.effects or jr.effects:
            ctx.fail(e.cid, "jaxpr_effects", f"reset/step jaxpr has effects {set(jp1.effects) | set(jr.effects)}", info, {"cls": e.cls})
        if any(w in txt for w in ("callback", "debug_print", "io_callback")):
            ctx.fail(e.cid, "jaxpr_callback", "step jaxpr contains a host callback", info, {"cls": e.cls})
        if str(jp2) != txt:
            ctx.fail(e.cid, "jaxpr_unstable", "step traces to different jaxprs on two consecutive traces (trace-time hidden state)", info, {"cls": e.cls})
        ctx.sample({"env": e.cid, "prefix": len(actions), "variants": ["eager", "jit", "vmap[1,2,5]", "scan[1,3]", "fresh-instance", "after-interleaving", "re-jit"]})
    # ---- boundary transitions of the puzzles at several sizes (the solving move), eager vs jit
    import boundary

    for label, benv, bs, ba in boundary.cases(ctx.quick and not extended, rng):
        ref = jax.jit(benv.step)(bs, ba)
        eg = _eager(lambda: benv.step(bs, ba))
        programs += 1
        ctx.evaluations += 1
        ctx.nontrivial.add(("boundary", label))
        ctx.count("variant_boundary" + ("_last" if int(ref[1].step_type) == 2 else ""))
        if eg is not None and not tree_close(eg, ref, tol=2e-5):
            ctx.fail(label.split(":")[0], "variant:eager", f"eager and jit disagree on a boundary transition ({label}) at {first_diff(eg, ref)}",
                     {"env": label, "action": np.asarray(ba).tolist()}, {"cls": label.split("-")[0]})
    # ---- configurations whose constructor arguments are objects the caller keeps and shares between instances (a database array):
    # a second instance built from the same objects must behave like the first, and the objects must still be what they were
    for x in ents:
        if not x.meta.get("shared_args"):
            continue
        programs += 1
        ctx.evaluations += 1
        second, first = histlib.digest(x.build(), hseed), hmain.get(x.cid)
        if not (first is not None and len(second) == len(first) and all(
                np.shape(u) == np.shape(v) and np.asarray(u).dtype == np.asarray(v).dtype
                and np.allclose(np.asarray(u, np.float64), np.asarray(v, np.float64), rtol=2e-5, atol=2e-5) for u, v in zip(second, first))):
            ctx.fail(x.cid, "history_dependent", "a second instance built from the same constructor arguments (objects the caller holds) behaves differently "
                     "from the first: constructing or using the first instance changed them", {"env": x.cid, "cls": x.cls}, {"cls": x.cls})
        ctx.count("variant_second-instance-shared-arguments")
    for nm in catalog.shared_args_modified():
        ctx.fail("constructor-arguments", "constructor_argument_mutated", f"the constructor argument {nm!r} shared by several instances was modified in place "
                 "(building or resetting an environment changed the caller's array)", {"argument": nm}, {"argument": nm})
    # ---- collect the call-history check
    ent_of = {x.cid: x for x in list(ents) + sibs}
    for x in sibs:
        try:
            hmain[x.cid] = histlib.digest(x.build(), hseed)
        except Exception as ex:  # noqa: BLE001
            hmain[x.cid] = f"{type(ex).__name__}: {ex}"
    for c, fu in hfut.items():
        try:
            sub = fu.result(timeout=900)
        except Exception as ex:  # noqa: BLE001
            ctx.count("history_worker_failed:" + c)
            ctx.notes.append(f"history worker for {c} failed: {type(ex).__name__}: {ex}") if hasattr(ctx, "notes") else None
            continue
        for cid, got in sub.items():
            mine = hmain.get(cid)
            programs += 1
            ctx.evaluations += 1
            ctx.nontrivial.add((cid, "history"))
            if isinstance(got, str) or isinstance(mine, str) or mine is None:
                if (isinstance(got, str)) != (isinstance(mine, str)):
                    ctx.fail(cid, "history_dependent", f"building the configuration works in one process and fails in the other: fresh={str(got)[:120]} here={str(mine)[:120]}",
                             {"env": cid, "cls": c, "order_here": by_cls[c]}, {"cls": c})
                continue
            ctx.count("variant_fresh-process")
            same = len(got) == len(mine) and all(np.shape(u) == np.shape(v) and np.asarray(u).dtype == np.asarray(v).dtype and
                                                 np.allclose(np.asarray(u, np.float64), np.asarray(v, np.float64), rtol=2e-5, atol=2e-5) for u, v in zip(got, mine))
            if not same:
                ctx.fail(cid, "history_dependent", "reset/step of a fresh instance differ from the same configuration built first in a fresh process: the result depends on "
                         f"what was instantiated or called before (this process built {by_cls[c]} in that order, among everything else)",
                         {"env": cid, "cls": c, "order_here": by_cls[c], "key_seed": hseed}, {"cls": c})
    pool.shutdown(wait=False, cancel_futures=True)
    ctx.coverage_extra["programs"] = programs
    ctx.coverage_extra["disagreements_checked"] = programs
    ctx.coverage_extra["rule"] = ("one reachable (state, action) per configuration executed in every program variant (eager, jit, vmap batch 1/2/5 at a random index, "
                                  "scan length 1/3, fresh instance, after interleaved calls, re-jit) and compared with the jit result; distinct = (config, key, variant)")
    ctx.assumptions.append("partial: Python-side hidden state, argument mutation and transformation-dependent numerics are decided by this differential run only; "
                           "floats compared with rtol/atol 2e-5")
