"""C09: see DESIGN.md section 6/C09 and harness/envprops.py"""
import envprops


def run(ctx, extended=False):
    envprops.run(ctx, "C09", extended)
