"""C12: see DESIGN.md section 6/C12 and harness/envprops.py"""
import envprops


def run(ctx, extended=False):
    envprops.run(ctx, "C12", extended)
