"""C01 — everything an environment emits conforms to the specs it declares.
Theorems: lean/JumanjiModel/Props/C01.lean (declared specs generated from the source objects into Gen/Specs.lean: well-formed, generate_value
is a member; every declared reward_spec/discount_spec is rewardSpecOf sh / discountSpecOf sh (declared_reward_discount_specs); reset reward and
discount are members for every class (reset_reward_discount_valid); the step discount is a member with no hypothesis on the reward
(step_discount_valid), the step reward iff the environment computes a reward of the declared length (step_reward_valid_iff), discharged
for all states of the 23 L1 models (<env>_step_reward_discount_in_spec); step counters of states and observations stay within [0, time_limit] up
to and including the first LAST timestep of ANY action sequence (step_count_within_limit, Props/EpisodeInstances.lean
<env>_rollout_count_within_limit)).
Search: every observation, reward and discount emitted by the real environments (all catalogue configurations, random and mask-following play,
up to and including the terminal step) validated by the real spec.validate AND by the Lean model of validate; shapes/dtypes for all inputs via
jax.eval_shape."""
from __future__ import annotations

import numpy as np

import catalog
import common
import speclib
from common import Ctx, DriverError
from props.c11 import masked_action
from wraplib import sample_action


def bad_leaf(spec, value):
    """(path, reason, offending value) of the first leaf of `value` that its leaf spec rejects"""
    try:
        fs, fv = dict(speclib.flatten_spec(spec)), dict(speclib.flatten_value(spec, value))
    except TypeError as e:
        return ("", f"structure: {e}", None)
    if set(fs) != set(fv):
        return ("", f"structure: fields {sorted(set(fs) ^ set(fv))} differ", None)
    for k, s in fs.items():
        try:
            s.validate(fv[k])
        except (ValueError, TypeError) as e:
            a = np.asarray(fv[k])
            v = None
            if a.size:
                lo = getattr(s, "minimum", None)
                hi = getattr(s, "maximum", None)
                if lo is not None and a.shape == tuple(s.shape):
                    bad = (a < np.asarray(lo)) | (a > np.asarray(hi))
                    if bad.any():
                        v = a[bad].reshape(-1)[0].item()
            return (k, str(e)[:160], v)
    return None


def bounds_sweep(ctx: Ctx, extended: bool = False) -> None:
    """For every adapter with a `bounds` op: the interval the Lean model PROVES for each observation leaf (theorems <env>_step_obs_in_bounds)
    must be contained in the interval the real observation_spec declares (else the declared spec is no longer shown to cover what the
    environment can emit: a broken obligation), and every value emitted along rollouts must lie in the proven interval (else the model is wrong)."""
    import jax

    import envlib
    from envlib import Runner, rollouts

    drv = ctx.get_driver()
    for ad in envlib.load_adapters().values():
        if "bounds" not in ad.ops:
            continue
        rng = np.random.default_rng([ctx.seed, sum(map(ord, ad.name))])
        for cfg in ad.configs(ctx.tier):
            if cfg.meta.get("only"):
                continue
            env = cfg.build()
            m = drv.call(f"{ad.lean}.bounds", cfg=cfg.cfg)
            leaves = dict(speclib.flatten_spec(env.observation_spec))
            for path, iv in m.items():
                ctx.evaluations += 1
                if path not in leaves:
                    ctx.disagree(ad.name, f"bounds op names the leaf {path!r} which observation_spec does not have", {"config": cfg.cid})
                    continue
                sp = leaves[path]
                lo = None if iv.get("lo") is None else common.unrat(iv["lo"])
                hi = None if iv.get("hi") is None else common.unrat(iv["hi"])
                dmin = getattr(sp, "minimum", None)
                dmax = getattr(sp, "maximum", None)
                if dmin is not None and (lo is None or float(np.min(np.asarray(dmin, dtype=np.float64))) > lo + 1e-6 * (1 + abs(lo))):
                    ctx.broken.append(f"{ad.name}/{cfg.cid}: declared minimum of {path} ({np.min(np.asarray(dmin))}) is above the lower bound {lo} proved for the model "
                                      f"(theorem Props.C01.{ad.lean}_step_obs_in_bounds no longer covers the declared spec)")
                if dmax is not None and (hi is None or float(np.max(np.asarray(dmax, dtype=np.float64))) < hi - 1e-6 * (1 + abs(hi))):
                    ctx.broken.append(f"{ad.name}/{cfg.cid}: declared maximum of {path} ({np.max(np.asarray(dmax))}) is below the upper bound {hi} proved for the model "
                                      f"(theorem Props.C01.{ad.lean}_step_obs_in_bounds no longer covers the declared spec)")
                ctx.count(f"{ad.name}.leaves_with_proved_bounds")
            # emitted values inside the proven interval
            runner = Runner(env)
            for r in rollouts(ad, env, runner, rng, 3 if ctx.quick else 10):
                obs = r["ts"].observation
                vals = dict(speclib.flatten_value(env.observation_spec, obs))
                for path, iv in m.items():
                    if path not in vals:
                        continue
                    a = np.asarray(vals[path], dtype=np.float64)
                    if a.size == 0:
                        continue
                    ctx.evaluations += 1
                    lo = None if iv.get("lo") is None else common.unrat(iv["lo"])
                    hi = None if iv.get("hi") is None else common.unrat(iv["hi"])
                    if (lo is not None and a.min() < lo - 1e-5 * (1 + abs(lo))) or (hi is not None and a.max() > hi + 1e-5 * (1 + abs(hi))):
                        ctx.disagree(ad.name, f"emitted value of {path} in [{a.min()}, {a.max()}] leaves the interval [{lo}, {hi}] proved for the model",
                                     {"config": cfg.cid, "reset_seed": r.get("seed"), "t": r.get("t")})


def run(ctx: Ctx, extended: bool = False) -> None:
    import jax
    import jax.numpy as jnp

    bounds_sweep(ctx, extended)
    rng = np.random.default_rng(ctx.seed)
    drv = ctx.get_driver()
    ents = catalog.entries("thorough" if (extended or not ctx.quick) else "quick")
    episodes = (4 if ctx.quick else 16) * (2 if extended else 1)
    for e in ents:
        env = e.build()
        ospec, aspec, rspec, dspec = env.observation_spec, env.action_spec, env.reward_spec, env.discount_spec
        jreset, jstep = jax.jit(env.reset), jax.jit(env.step)
        info0 = {"env": e.cid, "cls": e.cls}
        # --- shapes and dtypes for ALL inputs (abstract evaluation by JAX itself)
        key0 = jax.random.PRNGKey(0)
        sh_state, sh_ts = jax.eval_shape(env.reset, key0)
        a0 = aspec.generate_value()
        sh_state2, sh_ts2 = jax.eval_shape(env.step, sh_state, a0)
        for phase, sts in (("reset", sh_ts), ("step", sh_ts2)):
            try:
                fo = dict(speclib.flatten_value(ospec, sts.observation))
                fs = dict(speclib.flatten_spec(ospec))
                for k, s in fs.items():
                    if k not in fo or tuple(fo[k].shape) != tuple(s.shape) or np.dtype(fo[k].dtype) != np.dtype(s.dtype):
                        got = (tuple(fo[k].shape), str(fo[k].dtype)) if k in fo else None
                        ctx.fail(e.cid, "shape_dtype", f"{phase}: observation field {k} has shape/dtype {got}, spec says {tuple(s.shape)}/{s.dtype}",
                                 {**info0, "phase": phase, "field": k}, {"cls": e.cls, "field": k, "phase": phase})
                if set(fo) != set(fs):
                    ctx.fail(e.cid, "structure", f"{phase}: observation fields {sorted(fo)} differ from the spec's {sorted(fs)}", {**info0, "phase": phase}, {"cls": e.cls})
            except TypeError as ex:
                ctx.fail(e.cid, "structure", f"{phase}: observation structure does not match the spec: {ex}", {**info0, "phase": phase}, {"cls": e.cls})
            for nm, sp, v in (("reward", rspec, sts.reward), ("discount", dspec, sts.discount)):
                if tuple(v.shape) != tuple(sp.shape) or np.dtype(v.dtype) != np.dtype(sp.dtype):
                    ctx.fail(e.cid, "shape_dtype", f"{phase}: {nm} has shape/dtype {tuple(v.shape)}/{v.dtype}, spec says {tuple(sp.shape)}/{sp.dtype}",
                             {**info0, "phase": phase, "field": nm}, {"cls": e.cls, "field": nm, "phase": phase})
            ctx.evaluations += 1
        # --- action_spec.generate_value() is a member and is accepted by step
        try:
            aspec.validate(a0)
        except (ValueError, TypeError) as ex:
            ctx.fail(e.cid, "action_generate", f"action_spec.validate rejects generate_value(): {ex}", info0, {"cls": e.cls})
        # --- emitted values
        try:
            jspec = speclib.nested_json(ospec)
        except TypeError:
            jspec = None
            ctx.count("obs_spec_dtype_not_modelled:" + e.cls)
        reqs, metas = [], []
        cap = (e.meta.get("time_limit") or e.meta.get("default_limit") or 40) + 1
        for ep in range(episodes):
            seed = int(rng.integers(1 << 30))
            s, ts = jreset(jax.random.PRNGKey(seed))
            t, actions = 0, []
            phase = "reset"
            while True:
                ctx.evaluations += 1
                ctx.nontrivial.add((e.cid, seed, t))
                meta = {**info0, "reset_seed": seed, "t": t, "phase": phase, "actions": actions[-20:]}
                b = bad_leaf(ospec, ts.observation)
                if b is not None:
                    ctx.fail(e.cid, "obs_out_of_spec", f"{phase} observation field {b[0]!r} rejected by observation_spec: {b[1]}", meta,
                             {"cls": e.cls, "field": b[0].split(".")[-1], "value": b[2], "phase": phase})
                for nm, sp, v in (("reward", rspec, ts.reward), ("discount", dspec, ts.discount)):
                    try:
                        sp.validate(v)
                    except (ValueError, TypeError) as ex:
                        ctx.fail(e.cid, f"{nm}_out_of_spec", f"{phase} {nm} rejected by {nm}_spec: {str(ex)[:160]}", meta, {"cls": e.cls, "phase": phase})
                if jspec is not None:
                    try:
                        reqs.append({"op": "spec.nested_valid", "spec": jspec, "value": speclib.nvalue_json(ospec, ts.observation)})
                        metas.append((meta, b is None))
                    except TypeError:
                        pass
                if int(ts.step_type) == 2 or t >= min(cap, 60):
                    break
                a = (masked_action(env, ts, rng) if ep % 2 == 0 else None)
                if a is None:
                    a = sample_action(env, rng) if (ep % 4 != 3 or t > 0) else np.asarray(a0)
                actions.append(np.asarray(a).tolist())
                s, ts = jstep(s, jnp.asarray(a))
                t += 1
                phase = "step"
            ctx.count(f"{e.cls}.episodes")
        reps = drv.batch(reqs)
        for (meta, impl_ok), m in zip(metas, reps):
            if isinstance(m, DriverError):
                ctx.disagree(e.cid, f"model of validate rejects the request: {m}", meta)
            elif bool(m) != impl_ok:
                ctx.disagree(e.cid, f"Lean model of validate says {m}, spec.validate says {impl_ok}", meta)
        ctx.sample({"env": e.cid, "obs_fields": [k for k, _ in speclib.flatten_spec(ospec)][:12], "values_checked": len(metas)})
    # the adapters' configurations (every reward function, observer, normalisation flag, size) and policies
    import envprops

    envprops.run(ctx, "C01", extended)
    ctx.coverage_extra["rule"] = ("all catalogue configurations of the 23 classes x keys x random / mask-following in-spec action sequences up to and including "
                                  "the terminal step (time-limit boundary, invalid action, completion); every observation, reward, discount validated; "
                                  "distinct = distinct (config, key, step)")
