"""C07: see DESIGN.md section 6/C07 and harness/envprops.py"""
import envprops


def run(ctx, extended=False):
    envprops.run(ctx, "C07", extended)
