"""C06: see DESIGN.md section 6/C06 and harness/envprops.py"""
import envprops


def run(ctx, extended=False):
    envprops.run(ctx, "C06", extended)
