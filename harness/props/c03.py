"""C03 — FIRST, MID*, LAST protocol.  Theorems: lean/JumanjiModel/Props/C03.lean over the step expressions GENERATED from the source
(Gen/Protocol.lean): entry_reset_protocol (the `restart` call as written, with/without shape=, against the declared shape),
entry_protocol_discount (no hypothesis on the reward), entry_reward_passthrough, entry_protocol; per environment
Props/ProtocolInstances.lean: <env>_l1_step_protocol : StepOK (step s a).2 for ALL states of all 23 L1 models (Connector's explicit discount
and every reward length discharged there).  Search: the same Lean predicates ResetOK / StepOK evaluated on every timestep the real
environments emit, for all catalogue configurations, random in-spec action sequences, including 3 steps after the first LAST."""
from __future__ import annotations

import numpy as np

import catalog
from common import Ctx, DriverError, ser_rats
from wraplib import sample_action


def ts_json(ts):
    return {"step_type": int(ts.step_type), "reward": ser_rats(ts.reward), "discount": ser_rats(ts.discount), "obs": None}


def run(ctx: Ctx, extended: bool = False) -> None:
    import jax
    import jax.numpy as jnp

    rng = np.random.default_rng(ctx.seed)
    drv = ctx.get_driver()
    episodes = (3 if ctx.quick else 12) * (3 if extended else 1)
    ents = catalog.entries("thorough" if (extended or not ctx.quick) else "quick")
    for e in ents:
        env = e.build()
        jreset, jstep = jax.jit(env.reset), jax.jit(env.step)
        shape = catalog.reward_shape(env)
        trunc_ok = e.cls == "LevelBasedForaging"
        cap = (e.meta.get("time_limit") or e.meta.get("default_limit") or 40) + 4
        reqs, infos = [], []
        for ep in range(episodes):
            seed = int(rng.integers(1 << 30))
            s, ts = jreset(jax.random.PRNGKey(seed))
            reqs.append({"op": "core.resetOK", "shape": shape, "ts": ts_json(ts)})
            infos.append({"env": e.cid, "reset_seed": seed, "t": -1, "ts": ts_json(ts)})
            rshape_ok = np.shape(ts.reward) == tuple(env.reward_spec.shape) and np.shape(ts.discount) == tuple(env.discount_spec.shape)
            if not rshape_ok:
                ctx.fail(e.cid, "reset_shape", f"reset reward/discount shapes {np.shape(ts.reward)}/{np.shape(ts.discount)} differ from the specs", infos[-1])
            after, actions = 0, []
            for t in range(min(cap, 70)):
                a = sample_action(env, rng)
                actions.append(np.asarray(a).tolist())
                s, ts = jstep(s, jnp.asarray(a))
                reqs.append({"op": "core.stepOK", "shape": shape, "trunc_ok": trunc_ok, "ts": ts_json(ts)})
                infos.append({"env": e.cid, "reset_seed": seed, "t": t, "after_last": after, "actions": actions[-20:], "ts": ts_json(ts)})
                if np.shape(ts.reward) != tuple(env.reward_spec.shape) or np.shape(ts.discount) != tuple(env.discount_spec.shape):
                    ctx.fail(e.cid, "step_shape", f"step reward/discount shapes {np.shape(ts.reward)}/{np.shape(ts.discount)} differ from the specs", infos[-1])
                ctx.count(f"step_type_{int(ts.step_type)}" + ("_after_last" if after else ""))
                if int(ts.step_type) == 2 or after:
                    after += 1
                    if after > 3:
                        break
        reps = drv.batch(reqs)
        for q, info, ok in zip(reqs, infos, reps):
            ctx.evaluations += 1
            ctx.nontrivial.add((e.cid, info["reset_seed"], info["t"]))
            if isinstance(ok, DriverError):
                ctx.disagree(e.cid, f"predicate rejects an implementation timestep: {ok}", info)
            elif ok is not True:
                kind = "reset_protocol" if q["op"] == "core.resetOK" else ("step_protocol_after_last" if info.get("after_last") else "step_protocol")
                ctx.fail(e.cid, kind, f"timestep violates the protocol: step_type={info['ts']['step_type']} discount={[x[0] / x[1] for x in info['ts']['discount']]}"
                         f" reward={[x[0] / x[1] for x in info['ts']['reward']]}", info)
        ctx.sample({"env": e.cid, "shape": shape, "timesteps": len(reqs)})
    # the adapters' own configurations and policies (mask-following, greedy, adversarial) reach states random play does not
    import envprops

    envprops.run(ctx, "C03", extended)
    ctx.coverage_extra["rule"] = ("all catalogue configurations (all 23 classes, single- and multi-agent shapes) x keys x random in-spec action sequences run "
                                  "to the first LAST plus 3 further steps; distinct = distinct (config, key, step index)")
