"""C04: see DESIGN.md section 6/C04 and harness/envprops.py"""
import envprops


def run(ctx, extended=False):
    envprops.run(ctx, "C04", extended)
