"""C15 — Gym, dm_env and MultiToSingle adapters.  Theorems: lean/JumanjiModel/Props/C15.lean (adapter state machines over any
environment and free keys: key schedule, flags, re-seeding, aggregation only).  Correspondence: the real adapters on every
catalogue environment against the native API driven with the key schedule the Lean model prescribes (key terms evaluated with
the real jax.random.split)."""
from __future__ import annotations

from typing import Any, List

import numpy as np

import catalog
from common import Ctx, rat
from wraplib import eval_key, first_diff, sample_action, tree_close


def gym_obs_close(gobs: Any, nobs: Any) -> bool:
    from jumanji.wrappers import jumanji_to_gym_obs

    want = jumanji_to_gym_obs(nobs)
    return tree_close(gobs, want)


def _half_discount(env: Any) -> Any:
    """the environment with every discount halved (an in-contract environment: discounts stay inside [0, 1]); a discount of 0 stays 0"""
    from jumanji.wrappers import Wrapper

    class HalfDiscount(Wrapper):
        def step(self, state, action):
            state, ts = self._env.step(state, action)
            return state, ts.replace(discount=ts.discount * 0.5)

    return HalfDiscount(env)


def _zero_discount(env: Any) -> Any:
    """the environment with every discount set to 0 (in-contract: inside [0, 1]): a MID step with discount 0 is `terminated` for gym
    ("terminated exactly when the native discount is zero") although the native step is not LAST"""
    from jumanji.wrappers import Wrapper

    class ZeroDiscount(Wrapper):
        def step(self, state, action):
            state, ts = self._env.step(state, action)
            return state, ts.replace(discount=ts.discount * 0.0)

    return ZeroDiscount(env)


def run(ctx: Ctx, extended: bool = False) -> None:
    import dm_env
    import jax
    import jax.numpy as jnp
    from jumanji.wrappers import JumanjiToDMEnvWrapper, JumanjiToGymWrapper, MultiToSingleWrapper

    rng = np.random.default_rng(ctx.seed)
    drv = ctx.get_driver()
    nsteps = 6 if ctx.quick else 25
    ents = catalog.entries("thorough" if extended else ctx.tier) if (extended or not ctx.quick) else catalog.one_per_class(ctx.tier, ctx.seed)
    for e in ents:
        base = e.build()
        multi = tuple(base.reward_spec.shape) != ()
        env = MultiToSingleWrapper(base) if multi else base
        jreset, jstep = jax.jit(env.reset), jax.jit(env.step)
        seed = int(rng.integers(1 << 20))
        info = {"env": e.cid, "seed": seed}
        # ---------------- MultiToSingleWrapper: aggregates reward and discount, nothing else
        if multi:
            for (ar, ad, name) in [(jnp.sum, jnp.max, "default"), (jnp.min, jnp.mean, "min/mean")]:
                w = MultiToSingleWrapper(base, reward_aggregator=ar, discount_aggregator=ad)
                k = jax.random.PRNGKey(seed)
                s, t = jax.jit(base.reset)(k)
                ws, wt = jax.jit(w.reset)(k)
                for i in range(nsteps + 1):
                    ctx.evaluations += 1
                    ok = (tree_close(ws, s) and tree_close(wt.observation, t.observation) and int(wt.step_type) == int(t.step_type)
                          and tree_close(wt.extras, t.extras) and np.allclose(wt.reward, ar(t.reward), atol=1e-6) and np.allclose(wt.discount, ad(t.discount), atol=1e-6)
                          and np.shape(wt.reward) == () and np.shape(wt.discount) == ())
                    if not ok:
                        ctx.fail(e.cid, "multiToSingle_only_aggregates", f"MultiToSingleWrapper({name}) output is not the aggregated native timestep at step {i}", {**info, "aggregators": name})
                        break
                    # the Lean model of MultiToSingleWrapper.reset/step on the native timestep: which native part every output is, and
                    # the aggregated values (exact arithmetic; the implementation sums in float32)
                    names = {"default": ("sum", "max"), "min/mean": ("min", "mean")}[name]
                    pm = drv.call("wrappers.multi_to_single", agg_r=names[0], agg_d=names[1], mode="reset" if i == 0 else "step",
                                  native={"step_type": int(t.step_type), "reward": [rat(x) for x in np.asarray(t.reward, np.float64).reshape(-1)],
                                          "discount": [rat(x) for x in np.asarray(t.discount, np.float64).reshape(-1)]})
                    parts = {"native_state": s, "native_obs": t.observation, "native_extras": t.extras}
                    mok = (tree_close(ws, parts.get(pm["state"])) and tree_close(wt.observation, parts.get(pm["obs"])) and tree_close(wt.extras, parts.get(pm["extras"]))
                           and int(wt.step_type) == pm["step_type"] and np.isclose(float(wt.reward), pm["reward"][0] / pm["reward"][1], rtol=1e-5, atol=1e-5)
                           and np.isclose(float(wt.discount), pm["discount"][0] / pm["discount"][1], rtol=1e-5, atol=1e-5))
                    if not mok:
                        ctx.fail(e.cid, "multiToSingle_step", f"MultiToSingleWrapper({name}) {'reset' if i == 0 else 'step'} output differs from the model's prescription {pm} at step {i}", {**info, "aggregators": name})
                        break
                    a = jnp.asarray(sample_action(base, rng))
                    s, t = jax.jit(base.step)(s, a)
                    ws, wt = jax.jit(w.step)(ws, a)
            if (jnp.sum, jnp.max) and True:
                w0 = MultiToSingleWrapper(base)
                ctx.count("multi_agent_envs")
        # ---------------- gym adapter
        g = JumanjiToGymWrapper(env, seed=seed)
        ops: List[Any] = []
        # includes re-seeding with 0 (a falsy seed) after the key has moved on, and with the constructor seed
        script = (["reset"] + ["step"] * nsteps + ["reset", "step", "step", {"reset_seed": seed + 7}, "step", {"reset_seed": 0}, "step", "reset", "step",
                  {"seed": 0}, "reset", "step", {"seed": seed}, "reset"] + ["step"] * 2)
        sched = drv.call("wrappers.gym_schedule", seed=seed, ops=[o for o in script])
        ri = 0
        state = None
        episode_over = False
        gym_ops: List[Any] = []      # the script with the measured native outcome of every step, for the model (R := Rat)
        gym_outs: List[Any] = []     # what the adapter returned
        first_episode: List[Any] = []
        replay_episode: List[Any] = []
        reseeded = False
        for op in script:
            ctx.evaluations += 1
            if op == "reset" or (isinstance(op, dict) and "reset_seed" in op):
                obs, extras = g.reset() if op == "reset" else g.reset(seed=op["reset_seed"])
                episode_over = False
                key = eval_key(sched[ri])
                ri += 1
                state, nts = jreset(key)
                ctx.nontrivial.add((e.cid, "reset", str(sched[ri - 1])))
                if not gym_obs_close(obs, nts.observation):
                    ctx.fail(e.cid, "gym_reset_schedule", f"gym reset #{ri} observation differs from env.reset(key of the documented schedule {sched[ri - 1]})", {**info, "reset_index": ri})
                if not g.observation_space.contains(obs):
                    ctx.fail(e.cid, "gym_obs_in_space", "reset observation is not in the converted observation space", info, {"cls": e.cls, "phase": "reset"})
                (replay_episode if reseeded else first_episode).append(("reset", obs))
                gym_ops.append(op)
                gym_outs.append({"obs": {"reset_obs_of_key": sched[ri - 1]}})
            elif isinstance(op, dict) and "seed" in op:
                gym_ops.append(op)
                gym_outs.append(None)
                g.seed(op["seed"])
                reseeded = op["seed"] == seed
                replay_episode = []
            else:
                a = g.action_space.sample() if rng.random() < 0.5 else np.asarray(sample_action(env, rng))
                try:
                    env.action_spec.validate(jnp.asarray(a, env.action_spec.dtype))
                except ValueError as ex:
                    ctx.fail(e.cid, "gym_sample_valid", f"action sampled from the converted action space is not a valid native action: {ex}", {**info, "action": np.asarray(a).tolist()})
                obs, reward, term, trunc, _ = g.step(a)
                state, nts = jstep(state, jnp.asarray(a))
                ctx.nontrivial.add((e.cid, "step", ri, len(first_episode) + len(replay_episode)))
                want_term = bool(np.all(np.asarray(nts.discount) == 0))
                want_trunc = int(nts.step_type) == 2
                gym_ops.append({"step": {"step_type": int(nts.step_type), "reward": rat(float(nts.reward)), "discount": rat(float(np.asarray(nts.discount)))}})
                gym_outs.append({"obs": "native_obs", "reward": float(reward), "terminated": bool(term), "truncated": bool(trunc)})
                if not gym_obs_close(obs, nts.observation) or not np.isclose(reward, float(nts.reward), atol=1e-6):
                    ctx.fail(e.cid, "gym_step_relays", "gym step observation/reward differ from the native step", info)
                if term != want_term or trunc != want_trunc:
                    ctx.fail(e.cid, "gym_flags", f"gym flags (terminated={term}, truncated={trunc}) but native discount=={np.asarray(nts.discount).tolist()}, LAST={want_trunc}", info)
                # membership is required up to and including the terminal step (C01's quantifier); the script keeps stepping after
                # LAST only to compare the relay, where e.g. a step counter may legitimately exceed its declared maximum
                if not episode_over and not g.observation_space.contains(obs):
                    ctx.fail(e.cid, "gym_obs_in_space", "step observation is not in the converted observation space", info, {"cls": e.cls, "phase": "step"})
                episode_over = episode_over or want_trunc
                ctx.count(f"gym_step_term={term}_trunc={trunc}")
        # the whole script through the Lean model of the adapter (rewards / discounts as exact rationals, terminated = (discount == 0)):
        # every returned field against the model's prescription (the observations were compared above under the same key terms)
        gm = drv.call("wrappers.gym_run", seed=seed, ops=gym_ops)
        for k, (mo, go) in enumerate(zip(gm, gym_outs)):
            ctx.evaluations += 1
            if go is None or "reward" not in go:
                same = mo == go
            else:
                same = (isinstance(mo, dict) and mo.get("obs") == go["obs"] and mo.get("terminated") == go["terminated"] and mo.get("truncated") == go["truncated"]
                        and np.isclose(go["reward"], mo["reward"][0] / mo["reward"][1], atol=1e-6))
            if not same:
                ctx.fail(e.cid, "gym_flags" if isinstance(mo, dict) and "terminated" in mo else "gym_reset_schedule",
                         f"gym call #{k} ({gym_ops[k] if not isinstance(gym_ops[k], dict) or 'step' not in gym_ops[k] else 'step'}) returned {go}, the model of the adapter prescribes {mo}", info)
                break
        # ---------------- gym flags under a fractional discount: "terminated exactly when the native discount is zero" must not
        # rely on discounts being 0 or 1.  Two in-contract sources of discounts strictly between 0 and 1: a multi-agent environment
        # behind MultiToSingleWrapper with a mean aggregator, and any environment behind a wrapper that halves the discount.
        frac_envs = []
        if multi:
            frac_envs.append(("mean_discount", MultiToSingleWrapper(base, reward_aggregator=jnp.sum, discount_aggregator=jnp.mean)))
        if (not ctx.quick) or extended or multi or (sum(map(ord, e.cid)) + ctx.seed) % 2 == 0:
            frac_envs.append(("half_discount", _half_discount(env)))
        if (not ctx.quick) or extended or multi or (sum(map(ord, e.cid)) + ctx.seed) % 2 == 1:
            frac_envs.append(("zero_discount", _zero_discount(env)))
        for fname, fenv in frac_envs:
            fg = JumanjiToGymWrapper(fenv, seed=seed + 3)
            fstep, freset = jax.jit(fenv.step), jax.jit(fenv.reset)
            fsched = drv.call("wrappers.gym_schedule", seed=seed + 3, ops=["reset"])
            fg.reset()
            fstate, fts = freset(eval_key(fsched[0]))
            lim = int(e.meta.get("time_limit") or 0)
            for i in range(min(30, lim + 1) if 0 < lim <= 40 else nsteps):
                ctx.evaluations += 1
                a = np.asarray(sample_action(fenv, rng))
                _, reward, term, trunc, _ = fg.step(a)
                fstate, fts = fstep(fstate, jnp.asarray(a))
                disc = float(np.asarray(fts.discount))
                ctx.nontrivial.add((e.cid, fname, i, disc))
                if 0.0 < disc < 1.0:
                    ctx.count("gym_fractional_discount_steps")
                if disc == 0.0 and int(fts.step_type) != 2:
                    ctx.count("gym_zero_discount_mid_steps")
                fm = drv.call("wrappers.gym_run", seed=seed + 3, ops=["reset", {"step": {"step_type": int(fts.step_type), "reward": rat(float(fts.reward)), "discount": rat(disc)}}])[1]
                if fm["terminated"] != term or fm["truncated"] != trunc:
                    ctx.fail(e.cid, "gym_flags", f"[{fname}] gym flags (terminated={term}, truncated={trunc}) but the model of the adapter prescribes {fm} for native discount {disc}", {**info, "variant": fname, "step": i})
                    break
                if term != (disc == 0.0) or trunc != (int(fts.step_type) == 2) or not np.isclose(reward, float(fts.reward), atol=1e-6):
                    ctx.fail(e.cid, "gym_flags", f"[{fname}] gym flags (terminated={term}, truncated={trunc}) but native discount=={disc}, LAST={int(fts.step_type) == 2}", {**info, "variant": fname, "step": i})
                    break
                if int(fts.step_type) == 2:
                    break
        # re-seeding with the initial seed reproduces the first reset observation
        if first_episode and replay_episode and not tree_close(first_episode[0][1], replay_episode[0][1]):
            ctx.fail(e.cid, "gym_reseed_reproducible", "re-seeding with the same seed does not reproduce the first observation", info)
        # ---------------- dm_env adapter
        d = JumanjiToDMEnvWrapper(env, key=jax.random.PRNGKey(seed))
        # long enough to reach the end of an episode when the configuration has a small time limit (truncation vs termination on the LAST step)
        nd = min(14, int(e.meta.get("time_limit") or 3) + 1)
        dm_script = ["reset"] + ["step"] * nd + ["reset", "step"]
        # `step` before the first `reset`: the model says it is an error (no state yet)
        d0 = JumanjiToDMEnvWrapper(env, key=jax.random.PRNGKey(seed))
        try:
            d0.step(np.asarray(sample_action(env, rng)))
            early = "ok"
        except Exception:  # noqa: BLE001  (AttributeError: `_state` is only annotated in __init__)
            early = "error"
        dummy = {"step": {"step_type": 1, "reward": 0, "discount": 1}}
        if drv.call("wrappers.dm_run", seed=seed, ops=[dummy])[0] != early:
            ctx.fail(e.cid, "dm_step_before_reset", f"dm_env step before the first reset: {early}; the model of the adapter says error", info)
        # first pass through the model for the key terms (they do not depend on the native outcomes), second pass with the measured
        # native outcome of every step for the prescription of every returned field
        sched = [r["obs"]["reset_obs_of_key"] for r in drv.call("wrappers.dm_run", seed=seed, ops=[o if o == "reset" else dummy for o in dm_script]) if isinstance(r, dict) and isinstance(r["obs"], dict)]
        ri = 0
        dm_ops: List[Any] = []
        dm_outs: List[Any] = []
        for op in dm_script:
            ctx.evaluations += 1
            if op == "reset":
                ts = d.reset()
                state, nts = jreset(eval_key(sched[ri]))
                ri += 1
                if ts.step_type != dm_env.StepType.FIRST or ts.reward is not None or ts.discount is not None:
                    ctx.fail(e.cid, "dm_first", "dm_env first timestep carries a reward or discount or is not FIRST", info)
                if not tree_close(ts.observation, nts.observation):
                    ctx.fail(e.cid, "dm_reset_schedule", f"dm_env reset #{ri} observation differs from env.reset on the documented key schedule", info)
                dm_ops.append("reset")
                dm_outs.append((ts, nts, sched[ri - 1]))
            else:
                a = np.asarray(sample_action(env, rng))
                ts = d.step(a)
                state, nts = jstep(state, jnp.asarray(a))
                if int(ts.step_type) != int(nts.step_type) or not tree_close(ts.observation, nts.observation) or not np.allclose(ts.reward, nts.reward, atol=1e-6) or not np.allclose(ts.discount, nts.discount, atol=1e-6):
                    ctx.fail(e.cid, "dm_step_relays", "dm_env step differs from the native step", info)
                dm_ops.append({"step": {"step_type": int(nts.step_type), "reward": rat(float(nts.reward)), "discount": rat(float(nts.discount))}})
                dm_outs.append((ts, nts, None))
        for k, (mo, (ts, nts, kt)) in enumerate(zip(drv.call("wrappers.dm_run", seed=seed, ops=dm_ops), dm_outs)):
            ctx.evaluations += 1

            def opt_eq(got: Any, want: Any) -> bool:
                return (got is None) if want is None else (got is not None and np.isclose(float(got), want[0] / want[1], atol=1e-6))
            same = (isinstance(mo, dict) and int(ts.step_type) == mo["step_type"] and opt_eq(ts.reward, mo["reward"]) and opt_eq(ts.discount, mo["discount"])
                    and (mo["obs"] == {"reset_obs_of_key": kt} if kt is not None else mo["obs"] == "native_obs") and tree_close(ts.observation, nts.observation))
            if not same:
                ctx.fail(e.cid, "dm_first" if kt is not None else "dm_step_relays",
                         f"dm_env call #{k} returned (step_type={int(ts.step_type)}, reward={ts.reward}, discount={ts.discount}); the model of the adapter prescribes {mo}", info)
                break
        # a second adapter constructed with the same key reproduces the first reset (dm_reseed_reproducible)
        d2 = JumanjiToDMEnvWrapper(env, key=jax.random.PRNGKey(seed))
        if not tree_close(d2.reset().observation, dm_outs[0][1].observation):
            ctx.fail(e.cid, "dm_reseed_reproducible", "a dm_env adapter constructed with the same key does not reproduce the first observation", info)
        # observation satisfies the converted dm_env spec
        try:
            spec = d.observation_spec()
            obs = d.reset().observation
            import tree as tree_lib

            flat_spec = spec if isinstance(spec, dict) else {"": spec}
            if isinstance(spec, dict):
                from jumanji.wrappers import jumanji_to_gym_obs

                od = jumanji_to_gym_obs(obs)

                def walk(sp, ob, path=""):
                    if isinstance(sp, dict):
                        for k, v in sp.items():
                            walk(v, ob[k], path + "." + k)
                    else:
                        sp.validate(np.asarray(ob))
                walk(spec, od)
            else:
                spec.validate(np.asarray(obs))
        except ValueError as ex:
            ctx.fail(e.cid, "dm_obs_in_spec", f"observation rejected by the converted dm_env spec: {ex}", info, {"cls": e.cls, "phase": "reset"})
        ctx.sample({"env": e.cid, "multi": multi, "schedule_first": sched[0]})
    ctx.coverage_extra["rule"] = ("every catalogue configuration (multi-agent ones behind MultiToSingleWrapper, default and min/mean aggregators) x seeds x a script "
                                  "of resets, steps, reset(seed=…) and seed(…) calls; distinct = distinct (config, op, position in the schedule)")
