"""C17 — permutation puzzles obey their group laws and stay solvable.  Theorems: `namespace Props.C17` sections of
Props/Env/RubiksCube.lean (general n: the index tables equal the physical quarter/half turn, bijective, cw∘ccw = id, half = cw², cw⁴ = id,
conservation, encodings, solved test, solvability) and Props/Env/SlidingTilePuzzle.lean (swap with a neighbour, opposite moves cancel,
conservation, solved iff goal, reachable hence solvable).  Correspondence/search: envprops._c17 (all moves of sizes 2..7 on all-distinct
sticker cubes, move pairs, 2x2/3x3 sliding puzzles exhaustively in the thorough tier, scramble replays)."""
import envprops


def run(ctx, extended=False):
    envprops.run(ctx, "C17", extended)
    ctx.coverage_extra["rule"] = ("RubiksCube sizes 2..7: every move on an all-distinct-sticker cube and through env.step, identities on the implementation's own "
                                  "permutations, encodings over the whole action space, scramble replays; SlidingTilePuzzle: full 2x2 (quick) / 3x3 (thorough) "
                                  "state space x 4 actions, random walks; distinct = distinct (state, action)")
