"""C05: see DESIGN.md section 6/C05 and harness/envprops.py"""
import envprops


def run(ctx, extended=False):
    envprops.run(ctx, "C05", extended)
