"""C14 — VmapWrapper = per-instance execution; VmapAutoResetWrapper = VmapWrapper(AutoResetWrapper(env)).
Theorems: lean/JumanjiModel/Props/C14.lean.  Correspondence: both stacks of the real wrappers on identical batches of keys,
states and actions for every catalogue environment, batch sizes 1..8, many consecutive steps with staggered terminations
(elements are started at different phases), index-wise against single-instance execution; render uses element 0."""
from __future__ import annotations

from typing import Any

import numpy as np

import catalog
from common import Ctx
from props.c13 import check_against_model, elem_json
import wraplib
from wraplib import first_diff, sample_action, tree_close, ts_fields


def tidx(tree: Any, i: int) -> Any:
    import jax

    return jax.tree_util.tree_map(lambda x: x[i], tree)


def tstack(trees: Any) -> Any:
    import jax
    import jax.numpy as jnp

    return jax.tree_util.tree_map(lambda *xs: jnp.stack(xs), *trees)


def run(ctx: Ctx, extended: bool = False) -> None:
    import jax
    import jax.numpy as jnp
    from jumanji.wrappers import AutoResetWrapper, VmapAutoResetWrapper, VmapWrapper

    rng = np.random.default_rng(ctx.seed)
    drv = ctx.get_driver()
    steps = (14 if ctx.quick else 60) * (2 if extended else 1)
    patterns = {"none": 0, "some": 0, "all": 0}
    ents = catalog.entries('thorough' if extended else ctx.tier) if (extended or not ctx.quick) else catalog.one_per_class(ctx.tier, ctx.seed)
    for e, stk in wraplib.stack_variants(ents, ctx.quick and not extended, ctx.seed):
        env = wraplib.stacked(e.build()) if stk else e.build()
        ctx.count("stacked_configs" if stk else "bare_configs")
        flag = bool((sum(map(ord, e.cid)) + ctx.seed) % 2)
        B = [1, 2, 3, 5, 8][(sum(map(ord, e.cid)) + ctx.seed) % 5] if ctx.quick else int(rng.integers(1, 9))
        vw = VmapWrapper(env)
        var = VmapAutoResetWrapper(env, next_obs_in_extras=flag)
        vofar = VmapWrapper(AutoResetWrapper(env, next_obs_in_extras=flag))
        ar = AutoResetWrapper(env, next_obs_in_extras=flag)
        jreset, jstep = jax.jit(env.reset), jax.jit(env.step)
        arstep = jax.jit(ar.step)
        seed = int(rng.integers(1 << 30))
        keys = jax.random.split(jax.random.PRNGKey(seed), B)
        info = {"env": e.cid, "batch": B, "next_obs_in_extras": flag, "seed": seed, "behind_user_wrapper": stk}
        # --- VmapWrapper: reset and one step, index-wise
        bs, bt = jax.jit(vw.reset)(keys)
        for i in range(B):
            si, ti = jreset(keys[i])
            ctx.evaluations += 1
            if not tree_close(tidx(bs, i), si) or not tree_close(tidx(bt, i), ti):
                ctx.fail(e.cid, "vmap_reset_get", f"VmapWrapper.reset differs from env.reset at batch index {i}", {**info, "index": i})
        acts = jnp.stack([jnp.asarray(sample_action(env, rng)) for _ in range(B)])
        ns, nt = jax.jit(vw.step)(bs, acts)
        for i in range(B):
            si, ti = jstep(tidx(bs, i), acts[i])
            ctx.evaluations += 1
            if not tree_close(tidx(ns, i), si) or not tree_close(tidx(nt, i), ti):
                ctx.fail(e.cid, "vmap_step_get", f"VmapWrapper.step differs from env.step at batch index {i}: {first_diff(tidx(ns, i), si) or first_diff(tidx(nt, i), ti)}", {**info, "index": i})
        # --- stagger: advance element i by i single-instance auto-reset steps before batching
        singles = []
        for i in range(B):
            s, _ = jreset(keys[i])
            for _ in range(i):
                s, _ = arstep(s, jnp.asarray(sample_action(env, rng)))
            singles.append(s)
        sA = tstack(singles)
        sB = sA
        stepA, stepB = jax.jit(var.step), jax.jit(vofar.step)
        for t in range(steps):
            acts = jnp.stack([jnp.asarray(sample_action(env, rng)) for _ in range(B)])
            nA, tA = stepA(sA, acts)
            nB, tB = stepB(sB, acts)
            ctx.evaluations += 1
            ctx.nontrivial.add((e.cid, seed, t))
            if not tree_close(nA, nB) or not tree_close(tA, tB):
                ctx.fail(e.cid, "vmapAutoReset_eq", f"VmapAutoResetWrapper and VmapWrapper(AutoResetWrapper) differ at step {t}: {first_diff(nA, nB) or first_diff(tA, tB)}", {**info, "t": t})
            # index-wise against native env.step / env.reset and the Lean model of both stacks
            elems, natives, lastv = [], [], []
            for i in range(B):
                s1, t1 = jstep(tidx(sA, i), acts[i])
                k1 = jax.random.split(s1.key)[0]
                s2, t2 = jreset(k1)
                elems.append(elem_json(i, int(t1.step_type)))
                lastv.append(int(t1.step_type) == 2)
                natives.append({f"S{i}": s1, f"R{i}": s2, f"sr{i}": t1.reward, f"sd{i}": t1.discount, f"so{i}": t1.observation,
                                f"sx{i}": {k: v for k, v in (t1.extras or {}).items() if k != "next_obs"}, f"ro{i}": t2.observation})
            m1 = drv.call("wrappers.step", flag=flag, mode="vmap_autoreset", elems=elems)
            m2 = drv.call("wrappers.step", flag=flag, mode="vmap_of_autoreset", elems=elems)
            if m1 != m2:
                ctx.disagree(e.cid, "the two wrapper stacks differ inside the model (theorem vmapAutoReset_step_eq would be false)", {**info, "t": t})
            for i in range(B):
                check_against_model(ctx, e.cid, f"vmap_autoreset[{'last' if lastv[i] else 'mid'}]", m1[i], i, natives[i], tidx(nA, i), tidx(tA, i), {**info, "t": t, "index": i})
            pat = "none" if not any(lastv) else "all" if all(lastv) else "some"
            patterns[pat] += 1
            sA, sB = nA, nB
        # --- render uses the first element of the batch
        rec = []
        orig = type(env).render
        try:
            type(env).render = lambda self, state: rec.append(state) or "rendered"
            for w in (vw, var):
                rec.clear()
                w.render(sA)
                ctx.evaluations += 1
                if len(rec) != 1 or not tree_close(rec[0], tidx(sA, 0)):
                    ctx.fail(e.cid, "render_first", f"{type(w).__name__}.render did not render element 0 of the batch", info)
        finally:
            type(env).render = orig
        ctx.sample({"env": e.cid, "batch": B, "steps": steps})
    ctx.stats["termination_patterns"] = patterns
    ctx.coverage_extra["rule"] = ("every catalogue configuration x batch size 1..8 x staggered starts x random in-spec per-element actions over consecutive "
                                  "steps; patterns of simultaneous terminations counted in distribution.termination_patterns; distinct = (config, key, step)")
