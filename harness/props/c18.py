"""C18 — the registry.  Theorems: lean/JumanjiModel/Props/C18.lean (grammar for all strings over abstract character
classes; registry state machine).  Correspondence: id strings over allowed/disallowed ASCII and Unicode alphabets through
the real parse_env_id and the model (character classes decided by Python's own `re`), random register/make sequences on a
scratch registry, all shipped ids instantiated twice."""
from __future__ import annotations

import re
import unicodedata
from typing import Any, List

import numpy as np

from common import Ctx, DriverError

NAME_ALPHA = list("abcXYZ019_:.-v") + ["é", "ß", "名", "٣", "Ω"]
BAD_ALPHA = list(" /\\\n\t!@#+=,;()[]{}'\"") + ["²", "ⅷ", "😀", "​"]
DIGITS = list("0123456789") + ["٣", "७", "５"]


def annotate(s: str) -> List[List[Any]]:
    out = []
    for ch in s:
        w = re.fullmatch(r"\w", ch) is not None
        d = re.fullmatch(r"\d", ch) is not None
        val = unicodedata.decimal(ch, 0) if d else 0
        out.append([ord(ch), w, d, int(val)])
    return out


def gen_id(rng) -> str:
    mode = int(rng.integers(10))
    name = "".join(rng.choice(NAME_ALPHA) for _ in range(int(rng.integers(0, 7))))
    ver = "".join(rng.choice(DIGITS[:10] if rng.random() < 0.8 else DIGITS) for _ in range(int(rng.integers(1, 5))))
    if mode == 0:
        return name
    if mode == 1:
        return name + "-v"
    if mode == 2:
        return name + "-v" + ver + rng.choice(list("a-_ \n") + [""])
    if mode == 3:
        return name + "-v" + ver + "-v" + "".join(rng.choice(DIGITS[:10]) for _ in range(int(rng.integers(0, 3))))
    if mode == 4:
        k = int(rng.integers(0, len(name) + 1))
        return name[:k] + rng.choice(BAD_ALPHA) + name[k:] + "-v" + ver
    if mode == 5:
        return name + "-v" + "0" * int(rng.integers(1, 4)) + ver
    if mode == 6:
        return name + "-v" + str(int(rng.integers(10 ** 12, 10 ** 30, dtype=np.int64)) if False else 10 ** int(rng.integers(12, 40)) + int(rng.integers(1000)))
    if mode == 7:
        return name + "_v" + ver
    if mode == 8:
        return name + "-V" + ver
    return name + "-v" + ver


def run(ctx: Ctx, extended: bool = False) -> None:
    import jumanji
    from jumanji import registration

    rng = np.random.default_rng(ctx.seed)
    drv = ctx.get_driver()
    n = (600 if ctx.quick else 8000) * (3 if extended else 1)
    ids = [gen_id(rng) for _ in range(n)] + ["", "-v1", "Env-v0", "Env-test-v10", "Env", "Env_v0", "a-v1\n", "a-v-v1", "-v-v1", "v-v1", "a.b:c-d-v007"]
    reps = drv.batch([{"op": "registry.parse", "chars": annotate(s)} for s in ids])
    for s, m in zip(ids, reps):
        ctx.evaluations += 1
        try:
            got = registration.parse_env_id(s)
            impl = {"ok": [list(map(ord, got[0])), int(got[1])]}
        except ValueError as e:
            impl = {"error": "malformed" if "Malformed" in str(e) else "version_missing"}
        case = {"id": s, "impl": impl if "error" in impl else {"name": got[0], "version": got[1]}}
        ctx.count("parse_" + ("ok" if "ok" in impl else impl["error"]))
        ctx.nontrivial.add(s)
        if isinstance(m, DriverError):
            ctx.disagree("registration", f"model rejects the request: {m}", case)
            continue
        # L2, directly: the documented grammar
        mm = re.fullmatch(r"(?s)(.+)-v(\d+)", s)
        wf = False
        if mm:
            # last "-v<digits>" suffix; name non-empty over [\w:.-]
            k = s.rfind("-v")
            nm, ds = s[:k], s[k + 2:]
            wf = len(nm) > 0 and all(re.fullmatch(r"[\w:.-]", c) for c in nm) and len(ds) > 0 and all(re.fullmatch(r"\d", c) for c in ds)
            if wf and ("ok" not in impl or got[0] != nm or got[1] != int(ds)):
                ctx.fail("registration", "parse_wellformed", f"well-formed id {s!r} = {nm!r}-v{ds} parsed as {impl}", case)
        if not wf and "ok" in impl:
            ctx.fail("registration", "parse_rejects", f"malformed / version-less id {s!r} accepted as {got}", case)
        if "ok" in impl:
            back = registration.get_env_id(*got)
            canonical = str(int(s[s.rfind("-v") + 2:])) == s[s.rfind("-v") + 2:]
            if canonical and back != s:
                ctx.fail("registration", "format_parse", f"{s!r} parses to {got} but formats back to {back!r}", case)
            if registration.parse_env_id(back) != got:
                ctx.fail("registration", "normalise_idempotent", f"{back!r} does not parse to {got}", case)
            if m.get("formatted") != list(map(ord, back)):
                ctx.disagree("registration", "model format != get_env_id", {**case, "model": m})
        mcmp = {k: v for k, v in m.items() if k in ("ok", "error")}
        if mcmp != impl:
            ctx.disagree("registration", "model parse != parse_env_id", {**case, "model": m})
    ctx.sample({"ids": ids[:8]})
    # ---- register / make sequences on a scratch registry
    saved = dict(registration._REGISTRY)
    try:
        nseq = (30 if ctx.quick else 300) * (3 if extended else 1)
        for _ in range(nseq):
            registration._REGISTRY.clear()
            pool = ["A-v0", "A-v1", "A-v01", "B-x-v3", "B-x-v03", "C", "bad id-v1", "A-v0"]
            calls, impl_out = [], []
            for _ in range(int(rng.integers(3, 12))):
                f = ["register", "register", "make", "make", "registered"][int(rng.integers(5))]
                idn = pool[int(rng.integers(len(pool)))]
                kw = {k: f"{k}{int(rng.integers(3))}" for k in ["p", "q", "r"] if rng.random() < 0.4}
                if f == "register":
                    ep = ("fakeenvs:" if rng.random() < 0.6 else "fakeenvs2:") + ("E1" if rng.random() < 0.5 else "E2")
                    calls.append({"f": f, "chars": annotate(idn), "ep": ep, "kw": [[k, v] for k, v in kw.items()]})
                    try:
                        registration.register(idn, ep, kwargs=dict(kw))
                        impl_out.append("ok")
                    except ValueError as e:
                        msg = str(e)
                        if "Malformed" in msg or "Version missing" in msg:
                            impl_out.append({"error": "malformed" if "Malformed" in msg else "version_missing"})
                        else:   # the exact error: which (normalised) id is refused
                            mo_ = re.fullmatch(r"(?s)Trying to override the registered environment (.*)\.", msg)
                            impl_out.append({"error": "already_registered", "id": mo_.group(1) if mo_ else msg})
                elif f == "make":
                    calls.append({"f": f, "chars": annotate(idn), "kw": [[k, v] for k, v in kw.items()]})
                    try:
                        e = registration.make(idn, **kw)
                        impl_out.append({"ep": type(e).__module__ + ":" + type(e).__name__, "kw": sorted([k, v] for k, v in e.kw.items())})
                    except ValueError as e:
                        msg = str(e)
                        if "Unregistered" in msg:
                            listed = sorted(x[2:] for x in msg.split("\n") if x.startswith("- "))
                            listed = [x.rstrip(".") for x in listed]
                            mo_ = re.match(r"(?s)Unregistered environment (.*?)\. Please select from the registered environments", msg)
                            impl_out.append({"error": "unregistered", "id": mo_.group(1) if mo_ else msg, "registered": listed})
                        else:
                            impl_out.append({"error": "malformed" if "Malformed" in msg else "version_missing"})
                else:
                    calls.append({"f": f})
                    impl_out.append(sorted(registration.registered_environments()))
            ctx.evaluations += len(calls)
            m = drv.call("registry.run", calls=calls)

            def norm(x):
                if isinstance(x, dict) and "kw" in x:
                    return {"ep": x["ep"], "kw": sorted(x["kw"])}
                def txt(c):
                    return "".join(map(chr, c)) if isinstance(c, list) else c
                if isinstance(x, dict) and "registered" in x:
                    return {"error": x["error"], "id": txt(x.get("id")), "registered": sorted(txt(c) for c in x["registered"])}
                if isinstance(x, dict) and "id" in x:
                    return {"error": x["error"], "id": txt(x["id"])}
                if isinstance(x, list):
                    return sorted("".join(map(chr, c)) if isinstance(c, list) else c for c in x)
                return x
            mo, io = [norm(x) for x in m], [norm(x) for x in impl_out]
            trace = [{k: (c[k] if k != "chars" else "".join(chr(a[0]) for a in c[k])) for k in c} for c in calls]
            ctx.nontrivial.add(str(trace))
            if mo != io:
                k = next(i for i in range(len(mo)) if mo[i] != io[i])
                ctx.fail("registration", "registry_state_machine",
                         f"call #{k} {trace[k]}: implementation returned {io[k]}, the specification of the registry says {mo[k]}",
                         {"calls": trace, "impl": io, "spec": mo})
            ctx.count("registry_sequences")
        ctx.sample({"calls": trace[:5], "results": io[:5]})
    finally:
        registration._REGISTRY.clear()
        registration._REGISTRY.update(saved)
    # ---- the shipped ids
    import jax
    import re as _re

    gen = (ctx.get_driver() and None)
    gen_src = open(str(__import__("common").GEN_DIR / "Registry.lean")).read()
    gen_ids = set(_re.findall(r'^\s*\("([^"]+)", "', gen_src, _re.M))
    if gen_ids != set(jumanji.registered_environments()):
        ctx.disagree("registration", "ids found by the translator differ from the runtime registry",
                     {"translator": sorted(gen_ids), "runtime": sorted(jumanji.registered_environments())})
    for eid in sorted(jumanji.registered_environments()):
        ctx.evaluations += 1
        kw = {}
        if eid.startswith("Sokoban"):
            from jumanji.environments.routing.sokoban.generator import SimpleSolveGenerator
            kw = {"generator": SimpleSolveGenerator()}
        try:
            e1, e2 = jumanji.make(eid, **kw), jumanji.make(eid, **kw)
        except Exception as e:  # noqa: BLE001
            ctx.fail("registration", "shipped_instantiates", f"make({eid!r}) raises {type(e).__name__}: {e}", {"id": eid})
            continue
        ok = type(e1) is type(e2)
        for sname in ("observation_spec", "action_spec", "reward_spec", "discount_spec"):
            try:
                ok = ok and bool(getattr(e1, sname) == getattr(e2, sname))
            except Exception:  # noqa: BLE001
                ok = False
        if not ok:
            ctx.fail("registration", "make_deterministic", f"two make({eid!r}) calls give different classes/specs", {"id": eid})
        if ctx.quick and (sum(map(ord, eid)) + ctx.seed) % 3 != 0 and not extended:
            ctx.nontrivial.add(("shipped", eid))
            continue
        key = jax.random.PRNGKey(int(rng.integers(1 << 30)))
        s1, t1 = e1.reset(key)
        s2, t2 = e2.reset(key)
        a = e1.action_spec.generate_value()
        n1, u1 = e1.step(s1, a)
        n2, u2 = e2.step(s2, a)
        same = all(np.array_equal(np.asarray(x), np.asarray(y)) for x, y in zip(jax.tree_util.tree_leaves((s1, t1, n1, u1)), jax.tree_util.tree_leaves((s2, t2, n2, u2))))
        if not same:
            ctx.fail("registration", "make_deterministic", f"two make({eid!r}) environments behave differently on the same key/action", {"id": eid})
        ctx.nontrivial.add(("shipped", eid))
    try:
        jumanji.make("NoSuchEnv-v0")
        ctx.fail("registration", "make_unknown", "make of an unknown id does not raise", {})
    except ValueError as e:
        missing = [x for x in jumanji.registered_environments() if x not in str(e)]
        if missing:
            ctx.fail("registration", "make_unknown", f"error for an unknown id does not list {missing[:3]}", {})
    ctx.coverage_extra["rule"] = ("id strings generated over allowed ([\\w:.-] incl. Unicode letters/digits) and disallowed alphabets in 10 shapes; "
                                  "random register/make/registered sequences on a scratch registry; every shipped id; distinct = distinct strings / call sequences")
