"""C19 — pytree helpers.  Theorems: lean/JumanjiModel/Props/C19.lean (all trees, batch sizes, indices).
Correspondence: random pytrees (dicts, lists, tuples, namedtuples, chex dataclasses incl. real environment
states) through the real jumanji.tree_utils / jumanji.testing.pytrees and through the Lean model."""
from __future__ import annotations

import collections
from fractions import Fraction
from typing import Any, List

import numpy as np

from common import Ctx, DriverError

NT = collections.namedtuple("NT", ["a", "b"])
DTYPES = ["int32", "int8", "uint8", "float32", "float16", "bool"]


def _leaf(rng, shape, dtype):
    if dtype == "bool":
        return rng.integers(0, 2, size=shape).astype(bool)
    if dtype.startswith("float"):
        return (rng.integers(-8, 9, size=shape) / 4.0).astype(dtype)
    hi = 100 if dtype != "uint8" else 200
    lo = 0 if dtype == "uint8" else -100
    return rng.integers(lo, hi, size=shape).astype(dtype)


def gen_structure(rng, depth=0):
    """a structure description: ('leaf', shape, dtype) | ('dict', {k: s}) | ('list', [s]) | ('tuple', [s]) | ('nt', s, s) | ('dc', s, s)"""
    r = rng.random()
    if depth >= 3 or r < 0.35:
        rank = int(rng.integers(0, 4))
        shape = tuple(int(x) for x in rng.integers(0 if rng.random() < 0.1 else 1, 4, size=rank))
        return ("leaf", shape, DTYPES[int(rng.integers(len(DTYPES)))])
    kind = ["dict", "list", "tuple", "nt", "dc"][int(rng.integers(5))]
    if kind == "dict":
        return ("dict", {f"k{i}": gen_structure(rng, depth + 1) for i in range(int(rng.integers(1, 4)))})
    if kind in ("list", "tuple"):
        return (kind, [gen_structure(rng, depth + 1) for _ in range(int(rng.integers(1, 4)))])
    return (kind, gen_structure(rng, depth + 1), gen_structure(rng, depth + 1))


_DC = None


def _dc():
    global _DC
    if _DC is None:
        import chex

        @chex.dataclass
        class DC:
            x: Any
            y: Any
        _DC = DC
    return _DC


def instantiate(rng, s, use_dc=True):
    k = s[0]
    if k == "leaf":
        return _leaf(rng, s[1], s[2])
    if k == "dict":
        return {kk: instantiate(rng, v, use_dc) for kk, v in s[1].items()}
    if k == "list":
        return [instantiate(rng, v, use_dc) for v in s[1]]
    if k == "tuple":
        return tuple(instantiate(rng, v, use_dc) for v in s[1])
    if k == "nt":
        return NT(instantiate(rng, s[1], use_dc), instantiate(rng, s[2], use_dc))
    if k == "dc":
        if use_dc:
            return _dc()(x=instantiate(rng, s[1], use_dc), y=instantiate(rng, s[2], use_dc))
        return {"x": instantiate(rng, s[1], use_dc), "y": instantiate(rng, s[2], use_dc)}
    raise ValueError(k)


def jleaf(x) -> Any:
    a = np.asarray(x)
    return {"dtype": str(a.dtype), "shape": list(a.shape), "v": a.astype(np.float64).tolist()}


def jtree(t) -> Any:
    import jax

    leaves, td = jax.tree_util.tree_flatten(t)
    return {"td": str(td), "leaves": [jleaf(x) for x in leaves]}


def jbtree(t) -> Any:
    """batched tree: each leaf becomes the list of its slices along axis 0"""
    import jax

    leaves, td = jax.tree_util.tree_flatten(t)
    return {"td": str(td), "leaves": [[jleaf(np.asarray(x)[k]) for k in range(np.asarray(x).shape[0])] for x in leaves]}


def jval(x) -> Any:
    a = np.asarray(x)
    return {"shape": list(a.shape), "v": a.astype(np.float64).tolist()}


def jttree(t) -> Any:
    """typed batched tree: each leaf = its dtype and the list of its slices along axis 0"""
    import jax

    leaves, td = jax.tree_util.tree_flatten(t)
    return {"td": str(td), "leaves": [{"dtype": str(np.asarray(x).dtype), "slices": [jval(np.asarray(x)[k]) for k in range(np.asarray(x).shape[0])]} for x in leaves]}


def jtelem(t) -> Any:
    import jax

    leaves, td = jax.tree_util.tree_flatten(t)
    return {"td": str(td), "leaves": [{"dtype": str(np.asarray(x).dtype), "val": jval(x)} for x in leaves]}


def other_dtype_element(rng, like):
    """an element with the structure and shapes of `like` whose leaves have ANOTHER dtype than the batch's, with values for which
    the cast of `array.at[i].set(value)` is unambiguous: fractional floats into integer arrays (truncation), small non-negative
    integers everywhere else (exact), 0/1/2 into bool arrays (non-zero)"""
    import jax

    def conv(x):
        a = np.asarray(x)
        if a.dtype.kind in "iu":   # fractional float32 values in [0, 8): truncated toward zero by the cast
            return (rng.integers(0, 32, size=a.shape) / 4.0).astype(np.float32)
        if a.dtype == bool:
            return rng.integers(0, 3, size=a.shape).astype(np.int32)
        return rng.integers(0, 9, size=a.shape).astype(np.int32 if rng.random() < 0.5 else np.uint8)   # into float16/32: exact
    return jax.tree_util.tree_map(conv, like)


def real_state_trees(rng, n):
    """real environment states (chex dataclasses) for several keys"""
    import jax
    import jumanji

    out = []
    for eid in ["Knapsack-v1", "Snake-v1", "Game2048-v1", "Maze-v0", "TSP-v1"]:
        env = jumanji.make(eid)
        out.append([env.reset(jax.random.PRNGKey(int(rng.integers(1 << 30))))[0] for _ in range(n)])
    return out


def canon(x) -> Any:
    a = np.asarray(x)
    if a.dtype.kind in "biuf":
        return {"shape": list(a.shape), "data": [str(Fraction(float(v))) for v in a.reshape(-1)]}
    return {"shape": list(a.shape), "data": [repr(v) for v in a.reshape(-1).tolist()]}


def run(ctx: Ctx, extended: bool = False) -> None:
    import jax
    import jax.numpy as jnp
    import tree as tree_lib
    from jumanji import tree_utils
    from jumanji.testing import pytrees

    rng = np.random.default_rng(ctx.seed)
    drv = ctx.get_driver()
    n_struct = (40 if ctx.quick else 400) * (3 if extended else 1)
    groups: List[List[Any]] = []
    for _ in range(n_struct):
        s = gen_structure(rng)
        b = int(rng.integers(1, 9))
        groups.append([instantiate(rng, s) for _ in range(b)])
    groups += real_state_trees(rng, int(rng.integers(2, 6)))
    # ---- stack / slice / set
    for ts in groups:
        b = len(ts)
        stacked = tree_utils.tree_transpose(ts)
        idxs = list(range(b)) + [-1, -b]
        for i in idxs:
            ctx.evaluations += 1
            sl = tree_utils.tree_slice(stacked, i)
            want = ts[i]
            ok = jax.tree_util.tree_structure(sl) == jax.tree_util.tree_structure(want) and all(
                np.asarray(x).dtype == np.asarray(y).dtype and np.array_equal(np.asarray(x), np.asarray(y))
                for x, y in zip(jax.tree_util.tree_leaves(sl), jax.tree_util.tree_leaves(want)))
            case = {"batch": b, "i": i, "treedef": str(jax.tree_util.tree_structure(want))[:200]}
            if not ok:
                ctx.fail("tree_utils", "slice_transpose", f"tree_slice(tree_transpose(ts), {i}) != ts[{i}]", case)
            m = drv.call("pytree.transpose_slice", trees=[jtree(t) for t in ts], i=i)
            if m["slice"] != jtree(sl) or m["stacked"] != jbtree(stacked):
                ctx.disagree("tree_utils", "model of tree_transpose/tree_slice != implementation", case)
            ctx.nontrivial.add(("ts", case["treedef"], b, i))
        # set element i to a fresh element e
        e = jax.tree_util.tree_map(lambda x: (np.asarray(x) * 0 + 1).astype(np.asarray(x).dtype), ts[0])
        for i in list(range(b)) + [-1, -b]:
            ctx.evaluations += 1
            new = tree_utils.tree_add_element(stacked, i, e)
            # the dtype-aware model (element cast to the dtype of the batch), on the same-dtype element and on an element of other dtypes
            import warnings

            for label, el in (("same_dtype", e), ("other_dtype", other_dtype_element(rng, ts[0]))):
                with warnings.catch_warnings():
                    warnings.simplefilter("ignore")
                    newt = new if label == "same_dtype" else tree_utils.tree_add_element(stacked, i, el)
                mt = drv.call("pytree.add_element_typed", tree=jttree(stacked), i=i, element=jtelem(el))
                caset = {"batch": b, "i": i, "op": "add_element_typed", "element": label, "treedef": str(jax.tree_util.tree_structure(el))[:200]}
                ctx.evaluations += 1
                ctx.count(f"add_element_{label}")
                if mt["tree"] != jttree(newt):
                    ctx.disagree("tree_utils", f"typed model of tree_add_element != implementation ({label} element)", caset)
                elif mt["slice"] != jtelem(tree_utils.tree_slice(newt, i)):
                    ctx.disagree("tree_utils", f"typed model: slice of the updated tree at i != implementation ({label} element)", caset)
                if [str(np.asarray(x).dtype) for x in jax.tree_util.tree_leaves(newt)] != [str(np.asarray(x).dtype) for x in jax.tree_util.tree_leaves(stacked)]:
                    ctx.fail("tree_utils", "addElement_structure", "tree_add_element changed the dtype of a leaf", caset)
                if label == "same_dtype" and mt["slice"] != jtelem(el):
                    ctx.disagree("tree_utils", "slice_addElement_same: the model does not return the element itself for a same-dtype element", caset)
            m = drv.call("pytree.add_element", tree=jbtree(stacked), i=i, element=jtree(e))
            case = {"batch": b, "i": i, "op": "add_element", "treedef": str(jax.tree_util.tree_structure(e))[:200]}
            if m != jbtree(new):
                ctx.disagree("tree_utils", "model of tree_add_element != implementation", case)
            ii = i % b
            for j in range(b):
                got = tree_utils.tree_slice(new, j)
                want = e if j == ii else ts[j]
                same = all(np.asarray(x).dtype == np.asarray(y).dtype and np.array_equal(np.asarray(x), np.asarray(y))
                           for x, y in zip(jax.tree_util.tree_leaves(got), jax.tree_util.tree_leaves(want)))
                if not same or jax.tree_util.tree_structure(got) != jax.tree_util.tree_structure(want):
                    ctx.fail("tree_utils", "slice_addElement", f"after tree_add_element(tree, {i}, e) index {j} is wrong", case)
            ctx.nontrivial.add(("add", case["treedef"], b, i))
        ctx.sample({"treedef": str(jax.tree_util.tree_structure(ts[0]))[:160], "batch": b})
    # ---- equality helper (dm-tree nests: dicts, lists, tuples, namedtuples)
    n_eq = (150 if ctx.quick else 1500) * (3 if extended else 1)
    for _ in range(n_eq):
        s = gen_structure(rng)
        t1 = instantiate(rng, s, use_dc=False)
        mode = int(rng.integers(9))
        if mode == 0:
            t2 = tree_lib.map_structure(lambda x: np.array(x), t1)
        elif mode == 1:  # perturb one leaf
            flat = tree_lib.flatten(t1)
            k = int(rng.integers(len(flat)))
            flat2 = [np.array(x) for x in flat]
            if flat2[k].size:
                z = flat2[k].reshape(-1).copy()
                z[int(rng.integers(z.size))] = (1 if z.dtype == bool and not z[0] else 0 if z.dtype == bool else z[0] + 1)
                flat2[k] = z.reshape(flat2[k].shape)
            t2 = tree_lib.unflatten_as(t1, flat2)
        elif mode == 2:  # same data, other shape
            t2 = tree_lib.map_structure(lambda x: np.array(x).reshape((1,) + np.shape(x)), t1)
        elif mode == 3:  # other dtype, same values
            t2 = tree_lib.map_structure(lambda x: np.array(x).astype(np.float64), t1)
        elif mode == 5:  # other dtype AND values that do not survive a cast to the first tree's dtype (fractional / out of range)
            t2 = tree_lib.map_structure(lambda x: np.array(x).astype(np.float64) + (0.5 if np.array(x).dtype != bool else 1.0), t1)
        elif mode == 6:  # the same, the other way round: the first tree is the wide one
            t2 = t1
            t1 = tree_lib.map_structure(lambda x: np.array(x).astype(np.float64) + (0.25 if np.array(x).dtype != bool else 2.0), t2)
        elif mode in (7, 8):
            # mixed precision: float32 leaves with values that are not binary fractions against float64 leaves holding the decimal
            # value (closer than one float32 ulp, so any comparison after a narrowing conversion calls them equal); mode 8 swaps
            t1 = tree_lib.map_structure(lambda x: (np.array(x).astype(np.float64) / 10.0 + 0.1).astype(np.float32), t1)
            t2 = tree_lib.map_structure(lambda x: np.round(np.array(x).astype(np.float64), 6), t1)
            if mode == 8:
                t1, t2 = t2, t1
        else:  # other structure
            t2 = instantiate(rng, gen_structure(rng), use_dc=False)
        # backends: NumPy leaves, JAX leaves, or one side each (a JAX array holds at most 32-bit values here: x64 is off);
        # rank-0 float64 leaves sometimes become Python floats
        bk = int(rng.integers(4))
        if bk in (1, 3):
            t1 = tree_lib.map_structure(lambda x: jnp.asarray(x) if np.asarray(x).dtype != np.float64 else x, t1)
        if bk in (2, 3):
            t2 = tree_lib.map_structure(lambda x: jnp.asarray(x) if np.asarray(x).dtype != np.float64 else x, t2)
        if rng.random() < 0.3:
            t2 = tree_lib.map_structure(lambda x: float(x) if (np.ndim(x) == 0 and np.asarray(x).dtype == np.float64) else x, t2)
        ctx.count(f"eq_backend_{bk}")
        ctx.evaluations += 1

        def enc(t):
            return {"td": str(tree_lib.map_structure(lambda _: 0, t)), "leaves": [canon(x) for x in tree_lib.flatten(t)]}
        try:
            got = pytrees.is_equal_pytree(t1, t2)
        except (ValueError, TypeError):
            got = None
        try:
            got_sym = pytrees.is_equal_pytree(t2, t1)
        except (ValueError, TypeError):
            got_sym = None
        refl = pytrees.is_equal_pytree(t1, t1)
        try:
            pytrees.assert_trees_are_different(t1, t2)
            raised = False
        except AssertionError:
            raised = True
        except (ValueError, TypeError):
            raised = None
        m = drv.call("pytree.is_equal", t1=enc(t1), t2=enc(t2))
        # the two assertion helpers as assertions: returns / AssertionError / structure error — against the model
        try:
            pytrees.assert_trees_are_equal(t1, t2)
            eq_res = "ok"
        except AssertionError:
            eq_res = "differ"
        except (ValueError, TypeError):
            eq_res = "structure"
        diff_res = "structure" if raised is None else ("same_values" if raised else "ok")
        ma = drv.call("pytree.assert", t1=enc(t1), t2=enc(t2))
        if (eq_res == "structure") != (diff_res == "structure"):
            ctx.fail("pytrees", "assert_structure_iff", f"the two assertion helpers disagree on the structures (equal: {eq_res}, different: {diff_res})", {"mode": mode})
        elif eq_res != "structure" and ma["equal"] != "structure" and (ma["equal"], ma["different"]) != (eq_res, diff_res):
            ctx.fail("pytrees", "assertEqual_iff", f"assert_trees_are_equal: {eq_res}, assert_trees_are_different: {diff_res}; by the leaves: {ma}", {"mode": mode, "t1": str(enc(t1))[:300], "t2": str(enc(t2))[:300]})
        ctx.count(f"assert_equal_{eq_res}")
        case = {"mode": mode, "t1": str(enc(t1))[:300], "t2": str(enc(t2))[:300], "impl": got, "model": m}
        if not refl:
            ctx.fail("pytrees", "isEqual_refl", "is_equal_pytree(t, t) is False", case)
        if got != got_sym:
            ctx.fail("pytrees", "isEqual_symm", "is_equal_pytree is not symmetric", case)
        if got is not None and raised is not None and raised != got:
            ctx.fail("pytrees", "assertDifferent_iff", "assert_trees_are_different disagrees with is_equal_pytree", case)
        if got is not None and m is not None and got != m:
            # the model is the leaf-wise characterisation of the property itself
            ctx.fail("pytrees", "isEqual_iff", f"is_equal_pytree = {got} but leaves are {'equal' if m else 'different'} in shape/elements", case)
        if (got is None) != (m is None):
            ctx.count("structure_mismatch_handling_differs")  # dm-tree accepts some structure pairs (e.g. list vs tuple checks) – informational
        ctx.count(f"eq_mode_{mode}")
        ctx.nontrivial.add(("eq", case["t1"], case["t2"]))
    ctx.coverage_extra["rule"] = ("random pytrees (dict/list/tuple/namedtuple/chex dataclass, leaves rank 0-3 incl. size 0, 6 dtypes) and real "
                                  "environment states, batch 1..8, every index incl. negative; distinct = distinct (treedef, batch, index) / tree pair")
