"""C08: see DESIGN.md section 6/C08 and harness/envprops.py"""
import envprops


def run(ctx, extended=False):
    envprops.run(ctx, "C08", extended)
