"""C11 — episodes end exactly at the configured time limit / within the structural horizon.
Theorems: lean/JumanjiModel/Props/C11.lean (wiring + comparison generated from the source; the episode-level counting theorems
ends_by_limit / ends_exactly_at_limit over an abstract step system, Core/EpisodeLemmas.lean, whose hypothesis is stated with the comparison
RECORDED in Gen/TimeLimit.lean), their instances for the L1 models in Props/EpisodeInstances.lean (<env>_rollout_ends_by_limit,
<env>_rollout_ends_exactly_at_limit: index of the first LAST timestep of the iterated L1 step, `Ep.firstLastTS (Ep.rollout step s as)`) and
the per-environment progress theorems.  Search: the SAME quantity on the real environments — for every class that takes a time limit,
time_limit in {1,2,3,7,...} (and None where allowed): 1-based index of the first LAST timestep over many episodes (mask-following survivor
policy and random play) compared with the limit (never later: runs_past_limit; reached exactly by some survivor for small limits:
never_reaches_limit); structural horizons through the adapters (envprops._c11)."""
from __future__ import annotations

import numpy as np

import catalog
import envprops
from common import Ctx
from wraplib import sample_action


def masked_action(env, ts, rng):
    """a mask-following action when the observation carries a 1-D mask or a per-agent (agents, actions) mask"""
    obs = ts.observation
    m = getattr(obs, "action_mask", None)
    if m is None:
        return None
    m = np.asarray(m)
    sp = env.action_spec
    shape = tuple(sp.shape)
    if m.ndim == 1 and shape == () and m.any():
        return np.asarray(rng.choice(np.flatnonzero(m)), np.int32)
    if m.ndim == 2 and shape == (m.shape[0],):
        return np.asarray([rng.choice(np.flatnonzero(r)) if r.any() else 0 for r in m], np.int32)
    if m.ndim == 2 and shape == (2,) and m.any():
        idx = np.flatnonzero(m.reshape(-1))
        k = int(rng.choice(idx))
        return np.asarray([k // m.shape[1], k % m.shape[1]], np.int32)
    return None


def run(ctx: Ctx, extended: bool = False) -> None:
    import jax
    import jax.numpy as jnp

    rng = np.random.default_rng(ctx.seed)
    limits_quick = [1, 2, 3, 7]
    def _extra():
        # configurations examined by C11 only: the time limit and another constructor argument that merely SIZES a buffer are independent
        # (MMST: generator.max_step below / above time_limit) — the limit that counts is time_limit
        import jumanji.environments as E
        from jumanji.environments.routing.mmst.generator import SplitRandomGenerator as MMGen

        def mm(ms):
            return lambda time_limit=6, **k: E.MMST(generator=MMGen(num_nodes=12, num_edges=18, max_degree=5, num_agents=2, num_nodes_per_agent=3, max_step=ms),
                                                    time_limit=time_limit, **k)
        return [catalog.Entry("mmst-maxstep4", "MMST", mm(4), {"time_limit": 6, "multi": True}),
                catalog.Entry("mmst-maxstep20", "MMST", mm(20), {"time_limit": 6, "multi": True})]

    for e in catalog.entries("thorough") + _extra():
        if "time_limit" not in e.meta:
            continue
        if ctx.quick and not extended and e.meta.get("heavy"):
            continue
        default = e.meta["time_limit"]
        limits = list(limits_quick)
        if not ctx.quick or extended:
            limits += [5, 13]
        if default is None:
            limits.append(None)
        elif default not in limits and (default <= 60 or not ctx.quick):
            limits.append(default)
        if ctx.quick and not extended:
            # rotate: the smallest three always, the others alternate with the seed
            limits = [l for i, l in enumerate(limits) if l in (1, 2, 3) or (i + ctx.seed) % 2 == 0]
        # the limit may arrive as a NumPy integer (a value taken from np.arange / a config array): same meaning as the Python int
        typed = [np.int64(3)] if (sum(map(ord, e.cid)) + ctx.seed) % 2 == 0 or not ctx.quick else [np.int32(2)]
        for tl in limits + typed:
            env = e.build(time_limit=tl)
            want = int(tl) if tl is not None else e.meta.get("default_limit")
            if tl is not None and not isinstance(tl, int):
                ctx.count("limit_given_as_" + type(tl).__name__)
                tl = int(tl)   # for the records below (the environment was built with the NumPy value)
            if getattr(env, "time_limit", None) != want:
                ctx.fail(e.cid, "time_limit_attr", f"constructed with time_limit={tl} but env.time_limit == {getattr(env, 'time_limit', None)} (expected {want})",
                         {"env": e.cid, "time_limit": tl}, {"cls": e.cls})
            jreset, jstep = jax.jit(env.reset), jax.jit(env.step)
            episodes = 10 if ctx.quick else 30
            firsts = []
            for ep in range(episodes):
                seed = int(rng.integers(1 << 30))
                s, ts = jreset(jax.random.PRNGKey(seed))
                t, actions = 0, []
                first = None
                while t < want + 2:
                    a = masked_action(env, ts, rng) if ep % 2 == 0 else None
                    if a is None:
                        a = sample_action(env, rng)
                    actions.append(np.asarray(a).tolist())
                    s, ts = jstep(s, jnp.asarray(a))
                    t += 1
                    ctx.evaluations += 1
                    if int(ts.step_type) == 2:
                        first = t
                        break
                firsts.append(first)
                info = {"env": e.cid, "cls": e.cls, "time_limit": tl, "effective_limit": want, "reset_seed": seed, "actions": actions[-30:], "first_last": first}
                if first is None or first > want:
                    ctx.fail(e.cid, "runs_past_limit", f"time_limit={tl}: episode still running after step {want}" if first is None else
                             f"time_limit={tl}: first LAST at step {first} > {want}", info, {"cls": e.cls})
                ctx.nontrivial.add((e.cid, tl, seed))
            reached = sum(1 for f in firsts if f == want)
            ctx.count(f"{e.cls}.reached_limit", reached)
            ctx.count(f"{e.cls}.ended_earlier", len(firsts) - reached)
            if want <= 3 and reached == 0:
                ctx.fail(e.cid, "never_reaches_limit", f"time_limit={tl}: none of {episodes} episodes lasted until step {want} (first LAST indices {firsts})",
                         {"env": e.cid, "time_limit": tl, "first_last": firsts}, {"cls": e.cls})
            ctx.sample({"env": e.cid, "time_limit": tl, "first_last_indices": firsts})
    # through the registry: make(id, time_limit=T) must build an environment with exactly that limit (the caller's kwargs override the registered ones)
    import inspect

    import jumanji
    from jumanji import registration

    for eid in sorted(jumanji.registered_environments()):
        spec = registration._REGISTRY[eid]
        cls = registration.load(spec.entry_point)
        if "time_limit" not in inspect.signature(cls.__init__).parameters or eid.startswith("Sokoban"):
            continue
        for tl in (1, 3, 7, 25):
            ctx.evaluations += 1
            try:
                env = jumanji.make(eid, time_limit=tl)
            except Exception as ex:  # noqa: BLE001
                ctx.fail(eid, "make_time_limit", f"make({eid!r}, time_limit={tl}) raises {type(ex).__name__}: {ex}", {"id": eid, "time_limit": tl}, {"cls": cls.__name__})
                continue
            if getattr(env, "time_limit", None) != tl:
                ctx.fail(eid, "make_time_limit", f"make({eid!r}, time_limit={tl}) built an environment with time_limit == {getattr(env, 'time_limit', None)}",
                         {"id": eid, "time_limit": tl, "registered_kwargs": sorted(spec.kwargs)}, {"cls": cls.__name__})
            ctx.nontrivial.add(("make", eid, tl))
    # structural horizons of the environments without a time limit (adapters)
    envprops.run(ctx, "C11", extended)
    ctx.coverage_extra["rule"] = ("every class with a time_limit x limits {1,2,3,7,default,(None)} x episodes (mask-following and random in-spec play): index of the "
                                  "first LAST; plus horizon sweeps of the adapters; distinct = distinct (config, limit, key)")
