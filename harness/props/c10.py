"""C10 — generated instances are well-formed and solvable as advertised.  Theorems: `namespace Props.C10` sections of Props/Env/*.lean
("certificate => advertised invariant", e.g. recursive-division certificate => maze connectivity, random walk from the goal => solvable).
Search: the certificates (Lean-defined, decidable) evaluated by the driver on the instances the real generators produce for many keys,
plus key dependence of random generators (envprops._c10)."""
import envprops


def run(ctx, extended=False):
    envprops.run(ctx, "C10", extended)
    ctx.coverage_extra["rule"] = ("every generator exposed by an adapter x its size parameters x reset keys; certificates evaluated on each instance; "
                                  "distinct = distinct instances")
