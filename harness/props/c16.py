"""C16 — the spec algebra.  Theorems: lean/JumanjiModel/Props/C16.lean.  Correspondence: random spec trees and values
(at, just inside and just outside every bound, wrong shape, wrong dtype) through the real jumanji.specs and the model."""
from __future__ import annotations

import collections
import pickle
from typing import Any, Dict, List, Optional

import numpy as np

import speclib
from common import Ctx, DriverError

INT_DT = ["int8", "int16", "int32", "uint8"]
ALL_DT = INT_DT + ["float16", "float32", "bool"]
NT2 = collections.namedtuple("NT2", ["p", "q"])
NT3 = collections.namedtuple("NT3", ["x", "y", "z"])


def rshape(rng) -> tuple:
    rank = int(rng.integers(0, 4))
    return tuple(int(x) for x in rng.integers(0 if rng.random() < 0.15 else 1, 4, size=rank))


def bshape(rng, shape: tuple) -> tuple:
    """a shape broadcastable to `shape`"""
    r = rng.random()
    if r < 0.4 or not shape:
        return ()
    if r < 0.7:
        return shape
    k = int(rng.integers(0, len(shape)))
    s = list(shape[k:])
    for i in range(len(s)):
        if rng.random() < 0.3:
            s[i] = 1
    return tuple(s)


def rvals(rng, shape, dtype, lo=-6, hi=7):
    if dtype == "bool":
        return rng.integers(0, 2, size=shape).astype(bool)
    if dtype.startswith("float"):
        return (rng.integers(lo * 4, hi * 4, size=shape) / 4.0).astype(dtype)
    if dtype.startswith("uint"):
        return rng.integers(0, hi * 2, size=shape).astype(dtype)
    return rng.integers(lo, hi, size=shape).astype(dtype)


def gen_leaf(rng):
    import jax.numpy as jnp
    from jumanji import specs

    kind = ["array", "bounded", "bounded", "discrete", "multi"][int(rng.integers(5))]
    name = "" if rng.random() < 0.3 else f"n{int(rng.integers(100))}"
    if kind == "array":
        return specs.Array(rshape(rng), ALL_DT[int(rng.integers(len(ALL_DT)))], name)
    if kind == "bounded":
        shape = rshape(rng)
        dt = ALL_DT[int(rng.integers(len(ALL_DT)))]
        lo = rvals(rng, bshape(rng, shape), dt)
        width = rvals(rng, bshape(rng, shape), dt, 0, 5)
        hi_full = (np.broadcast_to(lo, shape).astype(np.float64) + np.abs(np.broadcast_to(width, shape).astype(np.float64)))
        if dt == "bool":
            hi_full = np.maximum(np.broadcast_to(lo, shape), np.broadcast_to(width, shape))
        # choose the maximum's own shape: full (always consistent) or scalar (max over all)
        if rng.random() < 0.5 or hi_full.size == 0:
            hi = hi_full.astype(dt)
        else:
            hi = np.asarray(hi_full.max()).astype(dt)
        if dt.startswith("float") and rng.random() < 0.3:
            # half-lines and the whole line: -inf below a finite (possibly NEGATIVE) maximum, a finite minimum below +inf, or both infinite;
            # scalar or per-element (only some elements unbounded)
            r = rng.random()
            if r < 0.45:
                fin = rvals(rng, bshape(rng, shape), dt)          # finite maximum, any sign
                lo = np.where(rng.random(size=np.shape(lo)) < 0.7, -np.inf, np.minimum(lo, np.min(fin, initial=0) - 1)).astype(dt)
                hi = fin
                if not (np.broadcast_to(lo, shape) <= np.broadcast_to(hi, shape)).all():
                    lo = np.asarray(-np.inf, dt)
            elif r < 0.8:
                hi = np.where(rng.random(size=np.shape(hi)) < 0.7, np.inf, hi).astype(dt)
            else:
                lo, hi = np.asarray(-np.inf, dt), np.asarray(np.inf, dt)
        return specs.BoundedArray(shape, dt, lo, hi, name)
    # one time in four the number of values reaches the top of the dtype (the largest valid value is the dtype's maximum)
    top = {"int8": 128, "int16": 32768, "uint8": 256}
    if kind == "discrete":
        dt = INT_DT[int(rng.integers(len(INT_DT)))]
        nvs = top[dt] if dt in top and rng.random() < 0.25 else int(rng.integers(1, 9))
        return specs.DiscreteArray(nvs, dt, name)
    shape = rshape(rng)
    dt = INT_DT[int(rng.integers(len(INT_DT)))]
    nv = np.asarray(rng.integers(1, 6, size=shape), np.int32)
    if dt in top and nv.size and rng.random() < 0.25:
        nv.reshape(-1)[int(rng.integers(nv.size))] = top[dt]
    return specs.MultiDiscreteArray(jnp.asarray(nv, jnp.int32), dt, name)


def bounds_of(spec):
    from jumanji import specs

    if isinstance(spec, specs.BoundedArray):
        return (np.broadcast_to(np.asarray(spec.minimum), spec.shape), np.broadcast_to(np.asarray(spec.maximum), spec.shape))
    return None


def step_out(x: np.ndarray, up: bool):
    """the neighbouring representable value of the same dtype (None if there is none)"""
    dt = x.dtype
    if dt == bool:
        return None
    if dt.kind == "f":
        if not np.isfinite(x):
            return None  # nothing lies beyond an infinite bound
        y = np.nextafter(x, np.array(np.inf if up else -np.inf, dt)).astype(dt)
        tiny = np.finfo(dt).tiny
        if y != 0 and abs(float(y)) < float(tiny):
            # XLA on CPU flushes subnormals to zero, so a subnormal neighbour of 0 compares equal to 0 inside validate: that is the
            # platform's arithmetic, not a slip of the spec — step to the smallest NORMAL number instead
            y = np.array(tiny if up else -tiny, dt)
        return y
    info = np.iinfo(dt)
    y = int(x) + (1 if up else -1)
    if y < info.min or y > info.max:
        return None
    return np.array(y, dt)


def candidate_values(rng, spec) -> List[Any]:
    """(label, value) pairs around the spec"""
    dt = str(np.dtype(spec.dtype))
    shape = tuple(spec.shape)
    out = []
    b = bounds_of(spec)
    if b is None:
        out.append(("any", rvals(rng, shape, dt)))
    else:
        lo, hi = b
        out.append(("at_min", lo.astype(dt)))
        out.append(("at_max", hi.astype(dt)))
        flo = np.where(np.isfinite(lo), lo, np.where(np.isfinite(hi), hi.astype(np.float64) - 50, -50)).astype(np.float64)   # finite stand-ins for the
        fhi = np.where(np.isfinite(hi), hi, np.where(np.isfinite(lo), lo.astype(np.float64) + 50, 50)).astype(np.float64)    # interior point
        mid = flo + (fhi - flo) * rng.random(size=shape)
        if dt.startswith("float"):
            midv = np.clip(mid.astype(dt), lo, hi).astype(dt)
        else:
            midv = np.floor(mid).astype(dt)
        out.append(("inside", midv))
        if lo.size:
            for up in (False, True):
                base = (hi if up else lo).astype(dt).copy()
                finite = np.flatnonzero(np.isfinite(base.astype(np.float64)).reshape(-1))
                if finite.size == 0:
                    continue
                k = int(finite[int(rng.integers(finite.size))])
                idx = np.unravel_index(k, base.shape) if base.shape else ()
                nb = step_out(np.asarray(base[idx]), up)
                if nb is not None:
                    base[idx] = nb
                    out.append(("above_max" if up else "below_min", base))
    # the same in-bounds value held in a 64-bit NumPy array (NumPy's default widths): validate looks at the value "once converted to a JAX
    # array" (float64 -> float32, int64 -> int32, uint64 -> uint32 with x64 off), so it is a member exactly when THAT dtype is the declared one
    wide = {"f": np.float64, "i": np.int64, "u": np.uint64}.get(np.dtype(dt).kind)
    if wide is not None:
        base64 = np.asarray(out[2][1] if b is not None else out[0][1])
        if np.all(np.isfinite(base64.astype(np.float64))):
            out.append(("np64", base64.astype(wide)))
    # wrong shape / wrong dtype
    good = out[0][1]
    out.append(("wrong_shape", np.zeros(shape + (1,), dt)))
    if shape:
        out.append(("wrong_shape2", np.zeros(shape[:-1], dt)))
    other = "int32" if dt != "int32" else "float32"
    out.append(("wrong_dtype", np.asarray(good).astype(other)))
    return out


def perturb(rng, spec):
    """a spec of the same class differing in (at most) one attribute; returns (label, spec2)"""
    import jax.numpy as jnp
    from jumanji import specs

    choices = ["same", "name", "dtype"]
    if isinstance(spec, (specs.DiscreteArray, specs.MultiDiscreteArray)):
        choices += ["num_values"]
        if isinstance(spec, specs.MultiDiscreteArray):
            choices += ["shape_same_counts", "shape_same_counts"]
    else:
        choices += ["shape"]
        if isinstance(spec, specs.BoundedArray):
            choices += ["minimum", "maximum", "bounds_broadcast"]
    c = choices[int(rng.integers(len(choices)))]
    try:
        if c == "same":
            return c, pickle.loads(pickle.dumps(spec))
        if c == "name":
            return c, spec.replace(name=spec.name + "_x")
        if c == "dtype":
            pool = INT_DT if isinstance(spec, (specs.DiscreteArray, specs.MultiDiscreteArray)) else ALL_DT
            nd = [d for d in pool if d != str(np.dtype(spec.dtype))][int(rng.integers(len(pool) - 1))]
            if isinstance(spec, specs.BoundedArray) and not isinstance(spec, (specs.DiscreteArray, specs.MultiDiscreteArray)):
                return c, specs.BoundedArray(spec.shape, nd, np.zeros((), nd), np.ones((), nd), spec.name) if False else spec.replace(dtype=nd)
            return c, spec.replace(dtype=nd)
        if c == "num_values":
            if isinstance(spec, specs.DiscreteArray):
                return c, spec.replace(num_values=spec.num_values + 1)
            nv = np.asarray(spec.num_values).copy()
            if nv.size == 0:
                return "same", spec.replace()
            nv.reshape(-1)[int(rng.integers(nv.size))] += 1
            return c, spec.replace(num_values=jnp.asarray(nv))
        if c == "shape_same_counts":
            # another shape whose counts broadcast against this one's: one more leading axis, or (for equal counts) another length
            nv = np.asarray(spec.num_values)
            if nv.size == 0:
                return "same", spec.replace()
            if nv.ndim == 1 and len(set(nv.tolist())) == 1 and rng.random() < 0.5:
                return c, spec.replace(num_values=jnp.asarray(np.full((nv.shape[0] + 1,), nv[0], nv.dtype)))
            return c, spec.replace(num_values=jnp.asarray(nv.reshape((1,) + nv.shape)))
        if c == "shape":
            return c, spec.replace(shape=tuple(spec.shape) + (1,)) if not isinstance(spec, specs.BoundedArray) else spec.replace(shape=(1,) + tuple(spec.shape))
        if c == "minimum":
            lo = np.broadcast_to(np.asarray(spec.minimum), spec.shape).copy()
            if lo.size == 0 or lo.dtype == bool:
                return "same", spec.replace()
            k = np.unravel_index(int(rng.integers(lo.size)), lo.shape) if lo.shape else ()
            nb = step_out(np.asarray(lo[k]), False)
            if nb is None:
                return "same", spec.replace()
            lo[k] = nb
            return c, spec.replace(minimum=lo)
        if c == "maximum":
            hi = np.broadcast_to(np.asarray(spec.maximum), spec.shape).copy()
            if hi.size == 0 or hi.dtype == bool:
                return "same", spec.replace()
            k = np.unravel_index(int(rng.integers(hi.size)), hi.shape) if hi.shape else ()
            nb = step_out(np.asarray(hi[k]), True)
            if nb is None:
                return "same", spec.replace()
            hi[k] = nb
            return c, spec.replace(maximum=hi)
        if c == "bounds_broadcast":  # same effective bounds, written with the full shape
            lo, hi = bounds_of(spec)
            return c, spec.replace(minimum=np.array(lo), maximum=np.array(hi))
    except (ValueError, TypeError):
        pass
    return "same", spec.replace()


def reduce_json(spec) -> Dict[str, Any]:
    """`spec.__reduce__()` in the layout of the model's `spec.reduce` (class name, positional constructor arguments)"""
    cls, args = spec.__reduce__()
    out = []
    for a in args:
        if isinstance(a, tuple):
            out.append({"shape": [int(x) for x in a]})
        elif isinstance(a, str):
            out.append({"name": a})
        elif isinstance(a, (int, np.integer)) and not isinstance(a, bool):
            out.append({"nat": int(a)})
        elif isinstance(a, np.dtype) or isinstance(a, type):
            out.append({"dtype": str(np.dtype(a))})
        else:
            arr = np.asarray(a)
            if cls.__name__ == "MultiDiscreteArray":
                out.append({"nat_arr": {"shape": list(arr.shape), "data": [int(x) for x in arr.reshape(-1)]}})
            else:
                out.append({"arr": {"shape": list(arr.shape), "data": speclib.rats(arr)}})
    return {"cls": cls.__name__, "args": out}


def cross_kind_partners(spec) -> List[Any]:
    """specs of OTHER classes that share shape, dtype, name (and bounds where the class has them) with `spec`"""
    import jax.numpy as jnp
    from jumanji import specs

    out = []
    if type(spec) is not specs.Array:
        out.append(specs.Array(spec.shape, spec.dtype, spec.name))
        out.append(specs.Array(tuple(spec.shape) + (1,), spec.dtype, spec.name))
    else:
        try:
            out.append(specs.BoundedArray(spec.shape, spec.dtype, 0, 1, spec.name))
        except Exception:  # noqa: BLE001
            pass
    if isinstance(spec, (specs.DiscreteArray, specs.MultiDiscreteArray)):
        out.append(specs.BoundedArray(spec.shape, spec.dtype, np.asarray(spec.minimum), np.asarray(spec.maximum), spec.name))
        hi = np.asarray(spec.maximum).astype(np.int64) + 1
        if hi.size and int(hi.max()) <= int(np.iinfo(np.dtype(spec.dtype)).max):
            out.append(specs.BoundedArray(spec.shape, spec.dtype, np.asarray(spec.minimum), hi.astype(spec.dtype), spec.name))
    if isinstance(spec, specs.DiscreteArray):
        out.append(specs.MultiDiscreteArray(jnp.asarray(spec.num_values, jnp.int32), spec.dtype, spec.name))
        out.append(specs.DiscreteArray(spec.num_values, spec.dtype, spec.name + "_y"))
    if isinstance(spec, specs.MultiDiscreteArray) and tuple(spec.shape) == ():
        out.append(specs.DiscreteArray(int(spec.num_values), spec.dtype, spec.name))
    if type(spec) is specs.BoundedArray and tuple(spec.shape) == () and np.dtype(spec.dtype).kind in "iu":
        lo, hi = int(np.asarray(spec.minimum)), int(np.asarray(spec.maximum))
        if lo == 0:
            out.append(specs.DiscreteArray(hi + 1, spec.dtype, spec.name))
    return out


def multi_kwargs(rng, spec):
    """a random set of 1-3 keyword arguments for `replace` (values representable in the dtype): (python kwargs, model kws)"""
    import jax.numpy as jnp
    from jumanji import specs

    py: Dict[str, Any] = {}
    kws: List[Dict[str, Any]] = []
    cands = ["name"]
    if isinstance(spec, specs.DiscreteArray):
        cands += ["num_values", "bad"]
    elif isinstance(spec, specs.MultiDiscreteArray):
        cands += ["num_values", "bad"]
    elif isinstance(spec, specs.BoundedArray):
        cands += ["minimum", "maximum", "shape"]
    else:
        cands += ["shape", "bad"]
    order = [cands[i] for i in rng.permutation(len(cands))][: int(rng.integers(1, 4))]
    for c in order:
        if c == "name":
            py["name"] = spec.name + "_r"
            kws.append({"k": "name", "v": py["name"]})
        elif c == "shape":
            ns = (1,) + tuple(spec.shape) if rng.random() < 0.7 else tuple(spec.shape) + (2,)
            py["shape"] = ns
            kws.append({"k": "shape", "v": list(ns)})
        elif c == "num_values" and isinstance(spec, specs.DiscreteArray):
            nv = int(spec.num_values) + int(rng.integers(0, 3))
            if nv - 1 > int(np.iinfo(np.dtype(spec.dtype)).max):
                nv = int(spec.num_values)
            py["num_values"] = nv
            kws.append({"k": "num_values", "v": nv})
        elif c == "num_values":
            arr = np.asarray(spec.num_values).astype(np.int32)
            arr = np.minimum(arr + rng.integers(0, 2, size=arr.shape).astype(np.int32), arr.max(initial=1))
            if rng.random() < 0.3:
                arr = arr.reshape((1,) + arr.shape)
            py["num_values"] = jnp.asarray(arr, jnp.int32)
            kws.append({"k": "num_values_arr", "shape": list(arr.shape), "v": [int(x) for x in arr.reshape(-1)]})
        elif c in ("minimum", "maximum"):
            lo, hi = bounds_of(spec)
            dt = str(np.dtype(spec.dtype))
            if c == "minimum":   # the smallest lower bound everywhere (a scalar): still below every maximum
                v = np.asarray(lo.min(initial=0)).astype(dt)
            else:
                v = np.asarray(hi.max(initial=1)).astype(dt)
            py[c] = v
            kws.append({"k": c, "shape": [], "v": speclib.rats(v)})
        elif c == "bad":   # not a constructor parameter of this class
            py["minimum"] = 0
            kws.append({"k": "minimum", "shape": [], "v": [[0, 1]]})
    return py, kws


def impl_validate(spec, v) -> bool:
    try:
        spec.validate(v)
        return True
    except (ValueError, TypeError):
        return False


def run(ctx: Ctx, extended: bool = False) -> None:
    import jax.numpy as jnp
    from jumanji import specs

    rng = np.random.default_rng(ctx.seed)
    drv = ctx.get_driver()
    n = (120 if ctx.quick else 1500) * (3 if extended else 1)
    for it in range(n):
        try:
            spec = gen_leaf(rng)
            try:
                js = speclib.leaf_json(spec)
            except TypeError:
                continue
            kind = js["kind"]
            ctx.count(f"kind_{kind}")
            case0 = {"spec": repr(spec)[:300]}
            # the attributes a spec reports are the ones it was built with: num_values must be positive and one above the largest
            # value validate accepts (the declared count, whatever the dtype of the elements)
            if kind in ("discrete", "multi"):
                nvr = np.asarray(spec.num_values).astype(np.int64)
                topv = np.asarray(spec.maximum).astype(np.int64) + 1
                if (nvr <= 0).any() or not np.array_equal(np.broadcast_to(nvr, np.shape(topv)), topv):
                    ctx.fail("specs", "attr_num_values", f"num_values reports {nvr.tolist()} but the largest valid value is {(topv - 1).tolist()}", case0)
                    continue
                ctx.count("num_values_at_dtype_top" if int(np.max(nvr, initial=0)) in (128, 256, 32768) else "num_values_small")
            try:
                wf = drv.call("spec.wf", spec=js)
            except DriverError as e:
                ctx.disagree("specs", f"the attributes the spec reports cannot be a spec of the model: {e}", case0)
                continue
            if wf is not True:
                ctx.disagree("specs", "model says a constructible spec is not well-formed", case0)
            # generate / validate
            g = spec.generate_value()
            ctx.evaluations += 1
            if not impl_validate(spec, g):
                ctx.fail("specs", "generate_valid", "validate rejects generate_value()", case0)
            mg = drv.call("spec.generate", spec=js)
            if mg != speclib.arr_json(g):
                ctx.disagree("specs", "model generate != generate_value()", {**case0, "model": mg, "impl": speclib.arr_json(g)})
            for label, v in candidate_values(rng, spec):
                ctx.evaluations += 1
                got = impl_validate(spec, v)
                try:
                    m = drv.call("spec.valid", spec=js, value=speclib.arr_json(v))
                except (DriverError, TypeError):
                    continue
                ctx.count(f"value_{label}_{'ok' if got else 'rejected'}")
                ctx.nontrivial.add((repr(spec), label))
                case = {**case0, "label": label, "value": np.asarray(v).tolist(), "validate_accepts": got, "model_valid": m}
                expect = label in ("any", "at_min", "at_max", "inside")
                if label == "np64":
                    expect = str(np.asarray(jnp.asarray(v)).dtype) == str(np.dtype(spec.dtype))
                if got != expect:
                    ctx.fail("specs", "valid_iff", f"validate {'accepts' if got else 'rejects'} a value that is {label}", case, {"label": label})
                elif got != m:
                    ctx.disagree("specs", "model valid != validate", case)
                if got:
                    dm = specs.jumanji_specs_to_dm_env_specs(spec)
                    a = np.asarray(jnp.asarray(v))
                    try:
                        sp = specs.jumanji_specs_to_gym_spaces(spec)
                    except (ValueError, AssertionError) as e:
                        unsigned = str(np.dtype(spec.dtype)) == "bool" or str(np.dtype(spec.dtype)).startswith("uint")
                        ctx.fail("specs", "toGym_raises", f"conversion to a gym space raises: {e}", case,
                                 {"spec_class": type(spec).__name__, "unsigned_or_bool": unsigned})
                        sp = None
                    if sp is not None and not sp.contains(a):
                        ctx.fail("specs", "toGym_member", "a valid value is not in the converted gym space", {**case, "space": repr(sp)})
                    try:
                        dm.validate(a)
                    except ValueError as e:
                        ctx.fail("specs", "toDm_member", f"a valid value is rejected by the converted dm_env spec: {e}", case)
                    if drv.call("spec.gym_contains", spec=js, value=speclib.arr_json(v)) is not True:
                        ctx.disagree("specs", "model gym space rejects a valid value", case)
            # Python scalars (weakly typed in JAX): a rank-0 spec must treat them like any other value of the dtype jnp.asarray gives
            # them (int -> int32, float -> float32, bool -> bool with x64 off): accepted exactly when that dtype is the declared one
            # and the value lies inside the bounds — never converted to the declared dtype first
            if tuple(spec.shape) == ():
                b0 = bounds_of(spec)
                sdt = str(np.dtype(spec.dtype))
                pys: List[Any] = [0, 1, 3, -1, 300, 2.7, 0.0, 1.0, -0.5, True, False]
                if b0 is not None and sdt != "bool":
                    lo0, hi0 = float(b0[0]), float(b0[1])
                    if abs(lo0) < 1e6 and abs(hi0) < 1e6:
                        pys += [int(lo0), int(hi0), int(hi0) + 1, int(lo0) - 1, lo0, hi0, (lo0 + hi0) / 2]
                for pv in pys:
                    pdt = {bool: "bool", int: "int32", float: "float32"}[type(pv)]
                    av = np.asarray(pv, pdt)
                    inside = True if b0 is None else bool(np.asarray(b0[0]).astype(np.float64) <= float(av) <= np.asarray(b0[1]).astype(np.float64))
                    expect = pdt == sdt and inside
                    ctx.evaluations += 1
                    got = impl_validate(spec, pv)
                    ctx.count(f"value_python_{type(pv).__name__}_{'ok' if got else 'rejected'}")
                    ctx.nontrivial.add((repr(spec), "py", repr(pv)))
                    if got != expect:
                        ctx.fail("specs", "valid_iff", f"validate {'accepts' if got else 'rejects'} the Python scalar {pv!r} (dtype {pdt} as an array) for a spec of dtype {sdt}",
                                 {**case0, "label": "python_scalar", "value": pv, "validate_accepts": got}, {"label": "python_scalar"})
                        break
            # replace()
            try:
                r0 = spec.replace()
                spec.replace(name="renamed")
                pickle.loads(pickle.dumps(spec))
            except Exception as e:  # noqa: BLE001
                ctx.fail("specs", "replace_or_pickle_raises", f"replace()/replace(name=…)/pickling raises {type(e).__name__}: {e}", case0)
                continue
            try:
                r0_eq = bool(r0 == spec)
            except Exception as e:  # noqa: BLE001
                ctx.fail("specs", "eq_raises", f"== raises {type(e).__name__}: {e}", case0)
                continue
            if not r0_eq or speclib.leaf_json(r0) != js:
                ctx.fail("specs", "replace_nil", "replace() is not equal to the spec", case0)
            rn = spec.replace(name="renamed")
            jn = speclib.leaf_json(rn)
            mrn = drv.call("spec.replace", spec=js, kws=[{"k": "name", "v": "renamed"}])
            if {k: v for k, v in jn.items() if k != "name"} != {k: v for k, v in js.items() if k != "name"} or jn["name"] != "renamed":
                ctx.fail("specs", "replace_only_named", "replace(name=…) changed another attribute", {**case0, "after": repr(rn)[:300]})
            if mrn != jn:
                ctx.disagree("specs", "model replace(name) != implementation", {**case0, "model": mrn, "impl": jn})
            # an earlier replace(...) on the same object must not leak into a later one
            r1 = spec.replace()
            if speclib.leaf_json(r1) != js:
                ctx.fail("specs", "replace_nil", "replace() after an earlier replace(name=…) on the same spec differs from the spec", {**case0, "after": repr(r1)[:300]})
            # equality
            label, other = perturb(rng, spec)
            try:
                jo = speclib.leaf_json(other)
            except TypeError:
                continue
            ctx.evaluations += 1
            try:
                e1, e2, er = bool(spec == other), bool(other == spec), bool(spec == spec)
            except Exception as e:  # noqa: BLE001
                ctx.fail("specs", "eq_raises", f"== raises {type(e).__name__}: {e}", {**case0, "other": repr(other)[:300], "perturbed": label})
                continue
            m = drv.call("spec.eq", a=js, b=jo)
            casee = {**case0, "other": repr(other)[:300], "perturbed": label, "impl_eq": e1, "model_eq": m}
            ctx.count(f"eq_{label}_{e1}")
            if not er:
                ctx.fail("specs", "eq_refl", "spec != spec", casee)
            if e1 != e2:
                ctx.fail("specs", "eq_symm", "equality is not symmetric", casee)
            expect_eq = label in ("same", "bounds_broadcast")
            if e1 != expect_eq:
                ctx.fail("specs", "eq_distinguishes", f"== is {e1} for specs that differ in: {label}", casee, {"perturbed": label})
            elif m != e1:
                ctx.disagree("specs", "model equality != implementation", casee)
            # pickling
            p = pickle.loads(pickle.dumps(spec))
            if not (p == spec) or speclib.leaf_json(p) != js:
                ctx.fail("specs", "pickle_roundtrip", "pickle round trip is not an equal spec", case0)
            # __reduce__: the class and its positional constructor arguments, as the model's `reduce` has them; the model's
            # `unreduce` (constructor re-run on those arguments) is the spec again
            mr = drv.call("spec.reduce", spec=js)
            ir = reduce_json(spec)
            ctx.evaluations += 1
            if {"cls": mr["cls"], "args": mr["args"]} != ir:
                ctx.disagree("specs", "model __reduce__ != implementation", {**case0, "model": mr, "impl": ir})
            if mr["unreduce"] != speclib.leaf_json(p):
                ctx.disagree("specs", "model unreduce(reduce(spec)) != pickle round trip", {**case0, "model": mr["unreduce"], "impl": speclib.leaf_json(p)})
            # replace with several keyword arguments at once (and keywords the class does not have): only the named attributes change
            pykw, mkws = multi_kwargs(rng, spec)
            ctx.evaluations += 1
            try:
                rr = spec.replace(**pykw)
                irr: Any = speclib.leaf_json(rr)
            except (TypeError, ValueError):
                irr = None
            mrr = drv.call("spec.replace", spec=js, kws=mkws)
            ctx.count(f"replace_multi_{len(mkws)}_{'ok' if irr is not None else 'raises'}")
            if mrr != irr:
                ctx.disagree("specs", "model replace(several keywords) != implementation", {**case0, "kwargs": sorted(pykw), "model": mrr, "impl": irr})
            if irr is not None:
                before, after = drv.call("spec.attrs", spec=js), drv.call("spec.attrs", spec=irr)
                named = {k["k"].replace("_arr", "") for k in mkws}
                changed = {a for a in before if before[a] != after[a]}
                if not changed <= named:
                    ctx.fail("specs", "replace_only_named", f"replace({sorted(named)}) also changed {sorted(changed - named)}", {**case0, "after": repr(rr)[:300]})
            # == across classes (reflected __eq__ of the base class)
            for other in cross_kind_partners(spec):
                try:
                    jo2 = speclib.leaf_json(other)
                except TypeError:
                    continue
                ctx.evaluations += 1
                try:
                    c1, c2 = bool(spec == other), bool(other == spec)
                except Exception as e:  # noqa: BLE001
                    ctx.fail("specs", "eq_raises", f"== across classes raises {type(e).__name__}: {e}", {**case0, "other": repr(other)[:300]})
                    continue
                mc = drv.call("spec.py_eq", a=js, b=jo2)
                ctx.count(f"eq_cross_{type(spec).__name__}_{type(other).__name__}_{c1}")
                if c1 != c2:
                    ctx.fail("specs", "eq_symm", "equality across classes is not symmetric", {**case0, "other": repr(other)[:300]})
                elif mc != c1:
                    ctx.disagree("specs", "model == across classes != implementation", {**case0, "other": repr(other)[:300], "impl_eq": c1, "model_eq": mc})
            ctx.sample({"spec": repr(spec)[:200], "kind": kind})
        except DriverError as e:  # what the implementation reports is not something the model can represent (e.g. a negative count)
            ctx.disagree("specs", f"model cannot represent what the implementation reports: {e}", {"iteration": it})
    # ---- the constructors and the dtype range: which (num_values, dtype) the real DiscreteArray / MultiDiscreteArray accept, and
    # what they store — against the model's `ctorAccepts` / `storedMax`; accepted-but-not-well-formed = the count wrapped around
    import jax.numpy as jnp0

    edge = {"int8": [127, 128, 129, 200, 255, 256, 257, 300], "uint8": [255, 256, 257, 300, 511, 512, 513],
            "int16": [32767, 32768, 32769, 65536, 65537, 70000], "int32": [2 ** 31 - 1, 2 ** 31, 2 ** 31 + 1, 2 ** 32, 2 ** 32 + 5]}
    for it in range(n // 2):
        dt = INT_DT[int(rng.integers(len(INT_DT)))]
        nv0 = int(edge[dt][int(rng.integers(len(edge[dt])))]) if rng.random() < 0.7 else int(rng.integers(1, 600))
        multi = rng.random() < 0.4 and nv0 < 2 ** 31
        ctx.evaluations += 1
        try:
            if multi:
                arr = np.asarray([nv0, int(rng.integers(1, 9))], np.int32)
                sp = specs.MultiDiscreteArray(jnp0.asarray(arr, jnp0.int32), dt, "")
                jsx = {"kind": "multi", "nv_shape": [2], "num_values": [int(x) for x in arr], "dtype": dt, "name": ""}
            else:
                jsx = {"kind": "discrete", "num_values": nv0, "dtype": dt, "name": ""}
                sp = specs.DiscreteArray(nv0, dt, "")
            accepted = True
        except ValueError:
            accepted = False
            if multi:
                jsx = {"kind": "multi", "nv_shape": [2], "num_values": [int(x) for x in arr], "dtype": dt, "name": ""}
        mc = drv.call("spec.ctor", spec=jsx)
        case = {"kind": jsx["kind"], "num_values": jsx["num_values"], "dtype": dt, "accepted": accepted, "model": mc}
        ctx.nontrivial.add(("ctor", jsx["kind"], str(jsx["num_values"]), dt))
        if mc["accepts"] != accepted:
            ctx.disagree("specs", "model ctorAccepts != whether the constructor raises", case)
            continue
        if accepted:
            stored = [int(x) for x in np.asarray(sp.maximum).reshape(-1)]
            if stored != mc["stored_max"]:
                ctx.disagree("specs", "model storedMax != the maximum the constructor stores", {**case, "stored": stored})
            agrees = bool(np.array_equal(np.asarray(sp.num_values).astype(np.int64).reshape(-1), np.asarray(stored, np.int64) + 1))
            if agrees != mc["wf"]:
                ctx.disagree("specs", "well-formed (model) != num_values agrees with the stored maximum (implementation)", {**case, "stored": stored})
            ctx.count("ctor_accepted_wf" if mc["wf"] else "ctor_accepted_wrapped_count")
        else:
            ctx.count("ctor_raises")
    # nested specs whose containers are DATACLASSES (two levels): validate unpacks a dataclass value field by field, one level at a time
    import dataclasses

    @dataclasses.dataclass
    class DC2:
        p: Any
        q: Any

    @dataclasses.dataclass
    class DC3:
        x: Any
        y: Any
        z: Any

    for it in range(max(4, n // 8)):
        kids = [gen_leaf(rng) for _ in range(4)]
        mixed = it % 2 == 1   # a namedtuple holding a dataclass, and the other way round
        inner = specs.Spec(DC2, "Inner", p=kids[0], q=kids[1])
        outer = specs.Spec(NT3 if mixed else DC3, "Outer", x=kids[2], y=inner, z=kids[3])
        ctx.evaluations += 1
        ctx.count("nested_dataclass_specs")
        g = outer.generate_value()
        try:
            outer.validate(g)
        except Exception as e:  # noqa: BLE001
            ctx.fail("specs", "nested_generate_valid", f"nested validate rejects generate_value() of a spec with dataclass containers: {type(e).__name__}: {e}",
                     {"spec": repr(outer)[:300], "containers": "namedtuple(dataclass)" if mixed else "dataclass(dataclass)"}, {"containers": "dataclass"})
            continue
        try:
            jn, jv = speclib.nested_json(outer), speclib.nvalue_json(outer, g)
            if drv.call("spec.nested_valid", spec=jn, value=jv) is not True:
                ctx.disagree("specs", "model nested valid rejects generate_value() (dataclass containers)", {"spec": repr(outer)[:300]})
        except TypeError:
            pass
        bad_leaf = candidate_values(rng, kids[0])[-2][1]  # wrong shape
        gy = dataclasses.replace(g.y, p=jnp.asarray(bad_leaf))
        gbad = g._replace(y=gy) if mixed else dataclasses.replace(g, y=gy)
        try:
            outer.validate(gbad)
            ctx.fail("specs", "nested_valid_iff", "nested validate accepts a value with a wrong-shaped leaf (dataclass containers)", {"spec": repr(outer)[:300]})
        except Exception:  # noqa: BLE001
            pass
    # nested specs
    for it in range(n // 3):
        try:
            kids = [gen_leaf(rng) for _ in range(3)]
            inner = specs.Spec(NT2, "Inner", p=kids[0], q=kids[1])
            outer = specs.Spec(NT3, "Outer", x=kids[2], y=inner, z=gen_leaf(rng))
            ctx.evaluations += 1
            g = outer.generate_value()
            ok = True
            try:
                outer.validate(g)
            except (ValueError, TypeError):
                ok = False
            if not ok:
                ctx.fail("specs", "nested_generate_valid", "nested validate rejects generate_value()", {"spec": repr(outer)[:300]})
            try:
                jn, jv = speclib.nested_json(outer), speclib.nvalue_json(outer, g)
            except TypeError:
                continue
            if drv.call("spec.nested_valid", spec=jn, value=jv) is not True:
                ctx.disagree("specs", "model nested valid rejects generate_value()", {"spec": repr(outer)[:300]})
            # break one leaf of the value
            bad_leaf = candidate_values(rng, kids[0])[-2][1]  # wrong shape
            gbad = g._replace(y=g.y._replace(p=jnp.asarray(bad_leaf)))
            try:
                outer.validate(gbad)
                ctx.fail("specs", "nested_valid_iff", "nested validate accepts a value with a wrong-shaped leaf", {"spec": repr(outer)[:300]})
            except (ValueError, TypeError):
                pass
            # structure must match exactly: a value with an extra field, or a missing one, is not a member
            NT4 = collections.namedtuple("NT4", ["x", "y", "z", "extra"])
            NT2x = collections.namedtuple("NT2x", ["x", "y"])
            for label, bad in (("extra_field", NT4(g.x, g.y, g.z, jnp.zeros(()))), ("missing_field", NT2x(g.x, g.y)),
                               ("extra_field_nested", g._replace(y=collections.namedtuple("NT3i", ["p", "q", "r"])(g.y.p, g.y.q, jnp.zeros(()))))):
                ctx.evaluations += 1
                try:
                    outer.validate(bad)
                    ctx.fail("specs", "nested_valid_iff", f"nested validate accepts a value with a different structure ({label})", {"spec": repr(outer)[:300], "label": label}, {"label": label})
                except Exception:  # noqa: BLE001  (ValueError / TypeError / KeyError: any rejection is fine)
                    pass
            same = specs.Spec(NT3, "Outer", x=kids[2], y=specs.Spec(NT2, "Inner", p=kids[0], q=kids[1]), z=outer._specs["z"])
            lab, k2 = perturb(rng, kids[1])
            diff = specs.Spec(NT3, "Outer", x=kids[2], y=specs.Spec(NT2, "Inner", p=kids[0], q=k2), z=outer._specs["z"])
            try:
                same_eq = bool(outer == same)
            except Exception as e:  # noqa: BLE001
                ctx.fail("specs", "eq_raises", f"nested == raises {type(e).__name__}: {e}", {"spec": repr(outer)[:300]})
                continue
            if not same_eq:
                ctx.fail("specs", "nested_eq_iff_children", "nested specs with equal children are not equal", {"spec": repr(outer)[:300]})
            # the same children given in another keyword order (and the same through replace and a pickle round trip)
            reordered = specs.Spec(NT3, "Outer", z=outer._specs["z"], y=specs.Spec(NT2, "Inner", q=kids[1], p=kids[0]), x=kids[2])
            ctx.evaluations += 1
            try:
                ro = [bool(outer == reordered), bool(reordered == outer), bool(pickle.loads(pickle.dumps(reordered)) == outer),
                      bool(outer.replace(y=specs.Spec(NT2, "Inner", q=kids[1], p=kids[0])) == outer)]
            except Exception as e:  # noqa: BLE001
                ctx.fail("specs", "eq_raises", f"nested == raises {type(e).__name__}: {e}", {"spec": repr(outer)[:300], "label": "reordered"})
                ro = [True]
            if not all(ro):
                ctx.fail("specs", "nested_eq_iff_children", f"nested specs with equal children given in another keyword order are not equal {ro}",
                         {"spec": repr(outer)[:300], "label": "reordered"}, {"label": "reordered"})
            # nested replace: dict update of the children (existing key keeps its place, a new key is appended), name kept
            def child_json(sp_):
                return [{"key": k_, "spec": speclib.leaf_json(v_)} for k_, v_ in speclib.flatten_spec(sp_)]

            def node_json(sp_):
                return [{"key": k_, "spec": child_json(v_)} for k_, v_ in sp_._specs.items()]
            newleaf = gen_leaf(rng)
            rkw = {}
            for k_, v_ in (("y", specs.Spec(NT2, "Inner2", p=k2, q=kids[0])), ("x", newleaf), ("w", kids[1])):
                if rng.random() < 0.6:
                    rkw[k_] = v_
            try:
                nodes = [node_json(outer), [{"key": k_, "spec": child_json(v_)} for k_, v_ in rkw.items()]]
                rep = outer.replace(**rkw)
                ctx.evaluations += 1
                mrep = drv.call("spec.node_replace", name=outer.name, children=nodes[0], kws=nodes[1])
                if mrep["name"] != rep.name or mrep["children"] != node_json(rep):
                    ctx.disagree("specs", "model nested replace != implementation", {"spec": repr(outer)[:300], "kwargs": sorted(rkw), "model_keys": [c["key"] for c in mrep["children"]], "impl_keys": list(rep._specs)})
                if mrep["flat"] != [{"key": k_, "spec": speclib.leaf_json(v_)} for k_, v_ in speclib.flatten_spec(rep)]:
                    ctx.disagree("specs", "model flattening of the replaced nested spec != implementation", {"spec": repr(outer)[:300], "kwargs": sorted(rkw)})
                for k_ in outer._specs:
                    if k_ not in rkw and speclib.flatten_spec(rep._specs[k_]) != speclib.flatten_spec(outer._specs[k_]) and [speclib.leaf_json(v_) for _, v_ in speclib.flatten_spec(rep._specs[k_])] != [speclib.leaf_json(v_) for _, v_ in speclib.flatten_spec(outer._specs[k_])]:
                        ctx.fail("specs", "nested_replace_only_named", f"nested replace({sorted(rkw)}) changed the child {k_}", {"spec": repr(outer)[:300]})
                ctx.count(f"nested_replace_{len(rkw)}")
            except TypeError:
                pass
            try:
                d = bool(outer == diff)
            except Exception as e:  # noqa: BLE001
                d = None
            exp = lab in ("same", "bounds_broadcast")
            if d is not None and d != exp:
                ctx.fail("specs", "nested_eq_iff_children", f"nested == is {d} although a child differs in {lab}", {"spec": repr(outer)[:300], "child": repr(k2)[:200]})
            ctx.nontrivial.add(("nested", repr(outer)[:200]))
        except DriverError as e:  # what the implementation reports is not something the model can represent (e.g. a negative count)
            ctx.disagree("specs", f"model cannot represent what the implementation reports: {e}", {"iteration": it})
    # the specs of the shipped environments
    import jumanji

    for eid in sorted(jumanji.registered_environments()):
        if eid.startswith("Sokoban"):
            continue
        env = jumanji.make(eid)
        for sname in ("observation_spec", "action_spec", "reward_spec", "discount_spec"):
            spec = getattr(env, sname)
            ctx.evaluations += 1
            g = spec.generate_value()
            try:
                spec.validate(g)
            except (ValueError, TypeError) as e:
                ctx.fail("specs", "generate_valid", f"{eid}.{sname}: validate rejects generate_value(): {e}", {"env": eid, "spec": sname})
            try:
                if speclib.is_leaf(spec) and not (spec == spec.replace()):
                    ctx.fail("specs", "replace_nil", f"{eid}.{sname}: replace() != spec", {"env": eid, "spec": sname})
                if not (spec == spec):
                    ctx.fail("specs", "eq_refl", f"{eid}.{sname} != itself", {"env": eid, "spec": sname})
            except Exception as e:  # noqa: BLE001
                ctx.fail("specs", "eq_raises", f"{eid}.{sname}: == raises {type(e).__name__}: {e}", {"env": eid, "spec": sname})
            try:
                jn, jv = speclib.nested_json(spec), speclib.nvalue_json(spec, g)
                if drv.call("spec.nested_valid", spec=jn, value=jv) is not True:
                    ctx.disagree("specs", f"model rejects {eid}.{sname}.generate_value()", {"env": eid})
            except TypeError:
                ctx.count("env_spec_dtype_not_modelled")
            if sname == "action_spec" and speclib.is_leaf(spec):
                sp = specs.jumanji_specs_to_gym_spaces(spec)
                sp.seed(int(rng.integers(1 << 30)))
                for _ in range(5):
                    smp = sp.sample()
                    try:
                        spec.validate(jnp.asarray(smp, spec.dtype))
                    except (ValueError, TypeError) as e:
                        ctx.fail("specs", "sample_valid", f"{eid}: a sample of the converted action space is not a valid action: {e}", {"env": eid, "sample": np.asarray(smp).tolist()})
            ctx.nontrivial.add(("env", eid, sname))
    ctx.coverage_extra["rule"] = ("random leaf specs of the 4 classes (rank 0-3 incl. size 0, 7 dtypes, scalar / broadcast / per-element bounds) "
                                  "x values at/inside/just outside each bound, wrong shape, wrong dtype; one-attribute perturbations for ==; "
                                  "nested specs; specs of all shipped environments; distinct = distinct (spec, value class) pairs")
