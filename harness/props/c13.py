"""C13 — AutoResetWrapper.  Theorems: lean/JumanjiModel/Props/C13.lean (any environment, any key, any action sequence).
Correspondence: the real AutoResetWrapper on every real environment (both next_obs_in_extras settings), multi-episode action
sequences under jit (and scan / vmap), against env.step / env.reset(split(key)[0]) computed side by side; the Lean model of the
wrapper decides, from symbolic names, which pytree every output field must equal."""
from __future__ import annotations

from typing import Any, Dict

import numpy as np

import catalog
import wraplib
from common import Ctx, DriverError
from wraplib import first_diff, key_bits, sample_action, tree_close, ts_fields

NAMES = {"S0": "step.state", "R0": "reset.state"}


def elem_json(i: int, step_type: int) -> Dict[str, Any]:
    return {"step": {"state": f"S{i}", "ts": {"step_type": int(step_type), "reward": f"sr{i}", "discount": f"sd{i}", "obs": f"so{i}", "extras": f"sx{i}"}},
            "reset": {"state": f"R{i}", "ts": {"step_type": 0, "reward": f"rr{i}", "discount": f"rd{i}", "obs": f"ro{i}", "extras": f"rx{i}"}}}


def check_against_model(ctx: Ctx, env_name: str, what: str, expected: Dict[str, Any], i: int, native: Dict[str, Any], got_state: Any, got_ts: Any,
                        info: Dict[str, Any]) -> None:
    """`expected` = the model's answer in symbolic names; `native` maps names to the real pytrees"""
    g = ts_fields(got_ts)
    pairs = [("state", expected["state"], got_state)]
    for f in ("reward", "discount", "obs", "extras", "next_obs"):
        pairs.append((f, expected["ts"][f], g[f]))
    if int(g["step_type"]) != int(expected["ts"]["step_type"]):
        ctx.fail(env_name, f"{what}:step_type", f"wrapper step_type {int(g['step_type'])} but the specification says {expected['ts']['step_type']}", info)
    for fname, sym, val in pairs:
        if sym is None:
            if val is not None:
                ctx.fail(env_name, f"{what}:{fname}", f"{fname} present but the specification says absent", info)
            continue
        want = native[sym]
        if val is None or not tree_close(val, want):
            ctx.fail(env_name, f"{what}:{fname}", f"wrapper {fname} differs from {sym} (the specification of the wrapper) at {first_diff(val, want) if val is not None else 'missing'}", info)


def run(ctx: Ctx, extended: bool = False) -> None:
    import jax
    import jax.numpy as jnp
    from jumanji.wrappers import AutoResetWrapper

    rng = np.random.default_rng(ctx.seed)
    drv = ctx.get_driver()
    steps = (30 if ctx.quick else 150) * (2 if extended else 1)
    ents = catalog.entries('thorough' if extended else ctx.tier) if (extended or not ctx.quick) else catalog.one_per_class(ctx.tier, ctx.seed)
    per_env = {}
    for e, stk in wraplib.stack_variants(ents, ctx.quick and not extended, ctx.seed):
        for flag in (False, True):
            if ctx.quick and not extended and flag != ((sum(map(ord, e.cid)) + ctx.seed + int(stk)) % 2 == 0) and (stk or e.cls not in ("Snake", "Knapsack", "Game2048")):
                continue  # quick tier: one flag per config (alternating with the seed), both for three cheap ones
            env = wraplib.stacked(e.build()) if stk else e.build()
            ctx.count("stacked_configs" if stk else "bare_configs")
            w = AutoResetWrapper(env, next_obs_in_extras=flag)
            # (function objects of our own: JAX keys its trace caches by function identity, and jitting the very bound method the wrapper
            # calls would share — and so mask — whatever the wrapper caches for it)
            jreset, jstep = jax.jit(lambda k, env=env: env.reset(k)), jax.jit(lambda s_, a_, env=env: env.step(s_, a_))
            wreset, wstep = jax.jit(w.reset), jax.jit(w.step)
            seed = int(rng.integers(1 << 30))
            key = jax.random.PRNGKey(seed)
            ws, wt = wreset(key)
            s0, t0 = jreset(key)
            info = {"env": e.cid, "next_obs_in_extras": flag, "reset_seed": seed, "behind_user_wrapper": stk}
            g = ts_fields(wt)
            if not tree_close(ws, s0) or not tree_close(wt.observation, t0.observation) or int(wt.step_type) != 0:
                ctx.fail(e.cid, "reset", "AutoResetWrapper.reset differs from env.reset", info)
            if flag and (g["next_obs"] is None or not tree_close(g["next_obs"], t0.observation)):
                ctx.fail(e.cid, "reset:next_obs", "extras['next_obs'] of reset is not the reset observation", info)
            if not flag and g["next_obs"] is not None:
                ctx.fail(e.cid, "reset:next_obs", "next_obs present without next_obs_in_extras", info)
            reset_keys, episode_starts, actions, lasts = [], [s0], [], 0
            for t in range(steps):
                a = sample_action(env, rng)
                actions.append(np.asarray(a).tolist())
                s1, t1 = jstep(ws, a)
                k1 = jax.random.split(s1.key)[0]
                s2, t2 = jreset(k1)
                ws2, wt2 = wstep(ws, a)
                last = int(t1.step_type) == 2
                m = drv.call("wrappers.step", flag=flag, mode="autoreset", elems=[elem_json(0, int(t1.step_type))])[0]
                native = {"S0": s1, "R0": s2, "sr0": t1.reward, "sd0": t1.discount, "so0": t1.observation,
                          "sx0": {k: v for k, v in (t1.extras or {}).items() if k != "next_obs"}, "ro0": t2.observation}
                ctx.evaluations += 1
                ctx.nontrivial.add((e.cid, flag, seed, t))
                check_against_model(ctx, e.cid, "step_last" if last else "step_not_last", m, 0, native, ws2, wt2,
                                    {**info, "t": t, "actions": actions[-12:], "last": last})
                ctx.count("last_steps" if last else "mid_steps")
                if last and stk and lasts == 0:
                    # one plain (un-jitted) call of the wrapper on a terminal transition: whatever the wrapper compiles or caches for itself
                    # on first use is now in place before the second phase changes the wrapped environment
                    w.step(ws, a)
                if last:
                    lasts += 1
                    reset_keys.append(key_bits(k1))
                    episode_starts.append(s2)
                ws = ws2
            # second phase on the SAME objects (stacked variant): the user changes a Python attribute the wrapped environment's reset reads and
            # re-jits; every later automatic reset must be the wrapped environment's reset AS IT IS NOW (no reset captured at construction)
            if stk and lasts >= 1:
                env.fold = 4242
                # fresh function objects: JAX caches traces per function identity, and `jax.jit(env.reset)` of the SAME bound method would
                # hand back the trace made before the attribute changed — for the reference as much as for the wrapper
                jreset, jstep = jax.jit(lambda k: env.reset(k)), jax.jit(lambda s_, a_: env.step(s_, a_))
                wstep = jax.jit(lambda s_, a_: w.step(s_, a_))
                seen_last = 0
                for t in range(steps, 2 * steps):
                    a = sample_action(env, rng)
                    s1, t1 = jstep(ws, a)
                    s2, t2 = jreset(jax.random.split(s1.key)[0])
                    ws2, wt2 = wstep(ws, a)
                    last = int(t1.step_type) == 2
                    ctx.evaluations += 1
                    if last:
                        seen_last += 1
                        if not tree_close(ws2, s2) or not tree_close(wt2.observation, t2.observation):
                            ctx.fail(e.cid, "step_last:stale_reset", "after an attribute read by the wrapped environment's reset was changed (and step re-jitted), the automatic reset "
                                     "still returns what the old reset produced: " + (first_diff(ws2, s2) or first_diff(wt2.observation, t2.observation)),
                                     {**info, "t": t, "phase": 2})
                            break
                    ws = ws2
                ctx.count("phase2_last_steps", seen_last)
            # fresh keys
            if len(set(reset_keys)) != len(reset_keys) and not e.meta.get("constant_generator"):
                ctx.fail(e.cid, "fresh_keys", f"two automatic resets used the same key ({len(reset_keys)} resets, {len(set(reset_keys))} distinct keys)", info)
            if lasts >= 3 and not e.meta.get("constant_generator"):
                def nokey(s):
                    return [np.asarray(x) for p, x in jax.tree_util.tree_flatten_with_path(s)[0] if "key" not in jax.tree_util.keystr(p)]
                first = nokey(episode_starts[0])
                if all(all(np.array_equal(x, y) for x, y in zip(first, nokey(s))) for s in episode_starts[1:]):
                    ctx.count("episodes_all_identical:" + e.cid)
            # KeyMonotone witness for the hypothesis of fresh_keys (informational)
            d = wraplib.descendant_depth(key, s0.key)
            ctx.count("key_monotone_witnessed" if d is not None else "key_monotone_not_witnessed:" + e.cid)
            per_env[f"{e.cid}:{int(flag)}{':stacked' if stk else ''}"] = {"steps": steps, "episodes_ended": lasts}
            # scan / vmap variants of the wrapper itself (C02 for the wrapper)
            if ((not ctx.quick) or extended or e.cls in ("Snake", "Knapsack", "Tetris", "Connector")) and not stk:
                acts = jnp.stack([jnp.asarray(sample_action(env, rng)) for _ in range(6)])
                ws0, _ = wreset(key)
                fin, _ = jax.lax.scan(lambda s, a: wstep(s, a), ws0, acts)
                s = ws0
                for a in acts:
                    s, _ = wstep(s, a)
                ctx.evaluations += 1
                if not tree_close(fin, s):
                    ctx.fail(e.cid, "scan", "lax.scan over AutoResetWrapper.step differs from the per-call loop", info)
                keys = jax.random.split(key, 3)
                bs, _ = jax.vmap(w.reset)(keys)
                a3 = jnp.stack([jnp.asarray(sample_action(env, rng)) for _ in range(3)])
                vs, vt = jax.jit(jax.vmap(w.step))(bs, a3)
                for i in range(3):
                    si, ti = wstep(jax.tree_util.tree_map(lambda x: x[i], bs), a3[i])
                    if not tree_close(jax.tree_util.tree_map(lambda x: x[i], vs), si) or not tree_close(jax.tree_util.tree_map(lambda x: x[i], vt), ti):
                        ctx.fail(e.cid, "vmap", f"vmap over AutoResetWrapper.step differs from the single call at index {i}", info)
        ctx.sample({"env": e.cid, "cls": e.cls})
    ctx.stats["per_env"] = per_env
    ctx.coverage_extra["rule"] = ("every catalogue configuration of the 22 environment classes x next_obs_in_extras x random in-spec action sequences "
                                  "spanning several episodes under jit (plus scan/vmap of the wrapper); distinct = distinct (config, flag, key, step)")
