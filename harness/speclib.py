"""Conversion of real jumanji spec objects / values to the JSON layout of Bridge/Spec.lean (used by C16 and C01)."""
from __future__ import annotations

from typing import Any, Dict, List, Tuple

import numpy as np

from common import rat

SUPPORTED = {"bool", "int8", "int16", "int32", "uint8", "uint16", "uint32", "float16", "float32"}


INF_ENC = 2 ** 200  # Sp.infEnc: +-inf of the float dtypes as a rational above every finite float16 / float32 value (order embedding)


def rats(a: Any) -> List[List[int]]:
    out = []
    for x in np.asarray(a, dtype=np.float64).reshape(-1):
        if np.isinf(x):
            out.append([INF_ENC if x > 0 else -INF_ENC, 1])
        elif np.isnan(x):
            raise TypeError("NaN is not modelled")
        else:
            out.append(rat(float(x)))
    return out


def leaf_json(spec: Any) -> Dict[str, Any]:
    from jumanji import specs

    d = str(np.dtype(spec.dtype))
    if d not in SUPPORTED:
        raise TypeError(f"dtype {d} not modelled")
    if isinstance(spec, specs.DiscreteArray):
        return {"kind": "discrete", "num_values": int(spec.num_values), "dtype": d, "name": spec.name}
    if isinstance(spec, specs.MultiDiscreteArray):
        nv = np.asarray(spec.num_values)
        return {"kind": "multi", "nv_shape": list(nv.shape), "num_values": [int(x) for x in nv.reshape(-1)], "dtype": d, "name": spec.name}
    if isinstance(spec, specs.BoundedArray):
        mn, mx = np.asarray(spec.minimum), np.asarray(spec.maximum)
        return {"kind": "bounded", "shape": list(spec.shape), "dtype": d, "name": spec.name,
                "min_shape": list(mn.shape), "min": rats(mn), "max_shape": list(mx.shape), "max": rats(mx)}
    if isinstance(spec, specs.Array):
        return {"kind": "array", "shape": list(spec.shape), "dtype": d, "name": spec.name}
    raise TypeError(f"not a leaf spec: {type(spec)}")


def arr_json(v: Any) -> Dict[str, Any]:
    import jax.numpy as jnp

    a = np.asarray(jnp.asarray(v))
    d = str(a.dtype)
    if d not in SUPPORTED:
        raise TypeError(f"dtype {d} not modelled")
    return {"shape": list(a.shape), "dtype": d, "data": rats(a)}


def is_leaf(spec: Any) -> bool:
    from jumanji import specs

    return isinstance(spec, specs.Array)


def flatten_spec(spec: Any, prefix: str = "") -> List[Tuple[str, Any]]:
    """(path, leaf spec) pairs of a possibly nested spec, in the order of its children"""
    if is_leaf(spec):
        return [(prefix, spec)]
    out: List[Tuple[str, Any]] = []
    for k, v in spec._specs.items():
        out += flatten_spec(v, f"{prefix}.{k}" if prefix else k)
    return out


def flatten_value(spec: Any, value: Any, prefix: str = "") -> List[Tuple[str, Any]]:
    """(path, array) pairs of a value, following the value's own structure (namedtuple / dataclass / dict)"""
    if is_leaf(spec):
        return [(prefix, value)]
    if isinstance(value, tuple) and hasattr(value, "_asdict"):
        val = value._asdict()
    elif isinstance(value, dict):
        val = value
    elif hasattr(value, "__dict__"):
        val = value.__dict__
    else:
        raise TypeError("value is not a named tuple / dataclass")
    out: List[Tuple[str, Any]] = []
    for k, v in val.items():
        sub = spec._specs.get(k)
        if sub is None:
            out.append((f"{prefix}.{k}" if prefix else k, v))
        else:
            out += flatten_value(sub, v, f"{prefix}.{k}" if prefix else k)
    return out


def nested_json(spec: Any) -> List[Dict[str, Any]]:
    # `validate` maps over the dict of children (tree_map sorts dict keys): field order is irrelevant
    return [{"key": k, "spec": leaf_json(s)} for k, s in sorted(flatten_spec(spec), key=lambda p: p[0])]


def nvalue_json(spec: Any, value: Any) -> List[Dict[str, Any]]:
    return [{"key": k, "value": arr_json(v)} for k, v in sorted(flatten_value(spec, value), key=lambda p: p[0])]
