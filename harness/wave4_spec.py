"""Wave-4 correspondence checks for the C01 spec-membership theorems of BinPack and MultiCVRP (called from the adapters'
`synthetic` hooks, i.e. on every C09 / C12 sweep).  Same ties as harness/wave3_routing.py — whose `check_specs` is used as it is:
`<name>.spec` = the model's `obsSpec` / `actionSpec` / reward / discount spec against the real spec objects, leaf by leaf —, but the
observation arrays of these two environments have FLOAT leaves that the models carry as exact rationals (exact quotients, products
rounded by a parameter), so the data of a float leaf is compared within a tolerance; shapes, dtypes, field order, integer and
boolean leaves exactly:

  * `<name>.state` : `reset_ts` = the timestep the model's `reset` builds on top of a generated state against `env.reset`;
                     `nvalue` = the model observation as spec-level arrays (`toNValue`: key order, shape, dtype, row-major data)
                     against the implementation's observation arrays; `obs_in_spec` = `(obsSpec cfg).valid` against the real
                     `observation_spec.validate`; `spec_inv` = the invariant behind `<env>_step_obs_valid` on implementation states.

Every failure message contains the word "observation" (the C12 sweep keeps only the observation-related failures of a hook).
"""
from __future__ import annotations

import speclib
from common import DriverError
from envlib import diff_json
from puzzle_wave2 import _num
from wave3_routing import check_specs  # noqa: F401  (re-exported)

FLOATS = ("float16", "float32")


def _data_equal(model, impl, dtype: str, tol: float) -> bool:
    a, b = _num(model), _num(impl)
    if len(a) != len(b):
        return False
    if dtype in FLOATS:
        return all(abs(x - y) <= tol * max(1.0, abs(x), abs(y)) for x, y in zip(a, b))
    return a == b


def obs_checks(ctx, ad, cfg, env, drv, items, label="wave4", extra=None, tol=1e-5) -> None:
    """items: (state, timestep whose observation belongs to that state, is_reset)"""
    reps = drv.batch([dict(op=f"{ad.lean}.state", cfg=cfg.cfg, state=ad.ser_state(env, s)) for s, _, _ in items])
    ospec = env.observation_spec
    keys = [k for k, _ in speclib.flatten_spec(ospec)]
    for (s, ts, is_reset), m in zip(items, reps):
        ctx.evaluations += 1
        info = {"env": ad.name, "config": cfg.cid, "state": ad.ser_state(env, s), "where": label, "reset": is_reset}
        if isinstance(m, DriverError):
            ctx.fail(ad.name, "obs_arrays", f"observation check: state op rejects an implementation state: {m}", info)
            continue
        if "nvalue" not in m or "obs_in_spec" not in m or "reset_ts" not in m:
            ctx.fail(ad.name, "obs_arrays", "observation check: the state op does not return reset_ts / nvalue / obs_in_spec", info)
            continue
        if is_reset:
            d = diff_json(m["reset_ts"], ad.ser_ts(env, ts), tol, path="reset_ts")
            if d:
                ctx.fail(ad.name, "reset_vs_model", f"env.reset timestep (observation, reward, discount, step type) differs from the "
                         f"model's reset at {d[:4]}", info)
        vals = dict(speclib.flatten_value(ospec, ts.observation))
        model_vals = {e["key"]: e["value"] for e in m["nvalue"]}
        if list(model_vals) != keys:
            ctx.fail(ad.name, "obs_arrays", f"observation fields {keys} differ from the model's toNValue {list(model_vals)}", info)
        else:
            for k, mv in model_vals.items():
                iv = speclib.arr_json(vals[k])
                if mv["shape"] != iv["shape"] or mv["dtype"] != iv["dtype"] or not _data_equal(mv["data"], iv["data"], iv["dtype"], tol):
                    ctx.fail(ad.name, "obs_arrays", f"observation field {k}: implementation array (shape {iv['shape']}, {iv['dtype']}) differs "
                             f"from the model's toNValue (shape {mv['shape']}, {mv['dtype']})", dict(info, field=k))
        try:
            ospec.validate(ts.observation)
            ok = True
        except Exception:  # noqa: BLE001
            ok = False
        if ok != m["obs_in_spec"]:
            ctx.fail(ad.name, "obs_in_spec", f"observation_spec.validate says {ok}, the model's (obsSpec cfg).valid says {m['obs_in_spec']}", info)
        if not ok:
            ctx.fail(ad.name, "obs_out_of_spec", "observation rejected by observation_spec.validate", info)
        if extra is not None and m.get(extra) is not True:
            ctx.fail(ad.name, "obs_invariant", f"the invariant {extra} behind the observation-membership theorems is {m.get(extra)!r} on an "
                     f"implementation state", info)
        ctx.nontrivial.add((ad.name, "w4obs", cfg.cid, label, len(ctx.nontrivial)))


def check_reset_and_obs(ctx, ad, cfg, env, runner, rng, drv, resets: int, steps: int, policies=("uniform", "masked"), extra=None,
                        tol=1e-5) -> None:
    """a few episodes from reset (up to `steps` steps or LAST, whichever comes first — the terminal observation included)"""
    import jax

    items = []
    for e in range(resets):
        s, ts = runner.reset(jax.random.PRNGKey(int(rng.integers(1 << 31))))
        items.append((s, ts, True))
        pol = policies[e % len(policies)]
        for t in range(steps):
            a = ad.choose_action(env, s, ts, pol, rng, t)
            s, ts = runner.step(s, a)
            items.append((s, ts, False))
            if int(ts.step_type) == 2:
                break
    obs_checks(ctx, ad, cfg, env, drv, items, "wave4", extra, tol)
