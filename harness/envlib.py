"""Environment adapters and the rollout engine used by the per-environment properties (C01, C04-C09, C11, C12).

An adapter (harness/envs/<name>.py, class A(Adapter)) tells the harness how to build configurations of one
environment, how to serialise its states / observations / actions for the Lean driver, how to enumerate its
action space and read its mask.  The Lean side offers up to three ops per environment (Bridge/<Name>.lean):

  <lean>.state  {cfg, state}                      -> {mask, legal, obs, <predicates on the state>, objective}
  <lean>.step   {cfg, state, action[, draw]}      -> {state, ts, valid}           (L1 model)
  <lean>.judge  {cfg, state, action, next, ts}    -> {<Lean-defined property predicates on the impl transition>}
"""
from __future__ import annotations

import importlib
import pkgutil
from typing import Any, Callable, Dict, Iterable, List, Optional, Tuple

import numpy as np

import common
from common import ser, ser_rats, unrat, close


class Config:
    def __init__(self, cid: str, build: Callable[[], Any], cfg: Dict[str, Any], **meta: Any):
        self.cid, self.build, self.cfg, self.meta = cid, build, cfg, meta


class Adapter:
    name = "?"            # jumanji environment (short)
    lean = "?"            # op prefix in the driver
    serves: set = set()   # property ids this adapter contributes to
    has_mask = True
    terminate_on_invalid = True
    max_steps = 60        # per-episode cap in rollouts (quick)
    ops = ("state", "step", "judge")

    # ---- configurations
    def configs(self, tier: str) -> List[Config]:
        raise NotImplementedError

    # ---- serialisation (must mirror Bridge/<Name>.lean)
    def ser_state(self, env: Any, s: Any) -> Dict[str, Any]:
        raise NotImplementedError

    def ser_obs(self, env: Any, o: Any) -> Dict[str, Any]:
        raise NotImplementedError

    def ser_action(self, env: Any, a: Any) -> Any:
        return ser(a)

    def ser_ts(self, env: Any, ts: Any) -> Dict[str, Any]:
        return {
            "step_type": int(ts.step_type),
            "reward": ser_rats(ts.reward),
            "discount": ser_rats(ts.discount),
            "obs": self.ser_obs(env, ts.observation),
        }

    def draw(self, env: Any, s: Any, a: Any, s2: Any, ts: Any) -> Any:
        """the random draw of a stochastic step, read off the implementation's successor"""
        return None

    # ---- action space
    def all_actions(self, env: Any) -> np.ndarray:
        """the enumerated action space, shape (A, *action_shape)"""
        spec = env.action_spec
        import jumanji.specs as specs

        if isinstance(spec, specs.DiscreteArray):
            return np.arange(int(spec.num_values), dtype=np.int32)
        if isinstance(spec, specs.MultiDiscreteArray):
            nv = np.asarray(spec.num_values)
            grids = np.stack(np.meshgrid(*[np.arange(n) for n in nv.reshape(-1)], indexing="ij"), -1)
            return grids.reshape(-1, *nv.shape).astype(np.int32)
        raise NotImplementedError

    def flat_mask(self, env: Any, s: Any, obs: Any) -> Optional[np.ndarray]:
        """mask aligned with all_actions (single-agent): default = observation.action_mask flattened"""
        return np.asarray(obs.action_mask).reshape(-1)

    def choose_action(self, env: Any, s: Any, ts: Any, policy: str, rng: np.random.Generator, t: int) -> np.ndarray:
        """the action a policy plays (override for multi-agent / huge action spaces)"""
        acts = self._acts(env)
        mask = self.flat_mask(env, s, ts.observation) if self.has_mask else None
        return acts[choose(policy, rng, mask, len(acts), t)]

    def fan_actions(self, env: Any, s: Any, ts: Any, rng: np.random.Generator, cap: int = 4096) -> np.ndarray:
        """the actions tried from one state in a fan-out: the whole action space when small, else a sample"""
        acts = self._acts(env)
        if len(acts) <= cap:
            return acts
        return acts[rng.choice(len(acts), cap, replace=False)]

    def _acts(self, env: Any) -> np.ndarray:
        # keep a reference to the environment itself (ids are reused after garbage collection)
        if getattr(self, "_acts_cache", (None, None))[0] is not env:
            self._acts_cache = (env, self.all_actions(env))
        return self._acts_cache[1]

    def is_terminal_state(self, env: Any, s: Any, ts: Any) -> bool:
        return int(ts.step_type) == 2

    # which fields of the successor state / timestep each property compares against the L1 model
    state_fields: Optional[List[str]] = None     # None = all fields returned by the model


ADAPTERS: Dict[str, Adapter] = {}


def load_adapters() -> Dict[str, Adapter]:
    if ADAPTERS:
        return ADAPTERS
    import envs

    import os

    only = [x for x in os.environ.get("VERIF_ONLY_ENVS", "").split(",") if x]
    for m in pkgutil.iter_modules(envs.__path__):
        if only and m.name not in only:
            continue
        mod = importlib.import_module(f"envs.{m.name}")
        if hasattr(mod, "A"):
            a = mod.A()
            ADAPTERS[a.name] = a
    return ADAPTERS


# --------------------------------------------------------------------------------------
# running the implementation
# --------------------------------------------------------------------------------------

class Runner:
    def __init__(self, env: Any):
        import jax

        self.env = env
        self.reset = jax.jit(env.reset)
        self.step = jax.jit(env.step)
        self._fan = None

    def fan(self, state: Any, actions: np.ndarray) -> Tuple[Any, Any]:
        """env.step(state, a) for every a in actions (vmap over the action only)"""
        import jax
        import jax.numpy as jnp

        if self._fan is None:
            self._fan = jax.jit(jax.vmap(self.env.step, in_axes=(None, 0)))
        # device_get: indexing NumPy leaves is far cheaper than indexing JAX arrays case by case
        return jax.device_get(self._fan(state, jnp.asarray(actions)))


def tree_index(tree: Any, i: int) -> Any:
    import jax

    return jax.tree_util.tree_map(lambda x: x[i], tree)


POLICIES = ["masked", "masked_low", "masked_high", "uniform", "adversarial", "late_adversarial"]


def choose(policy: str, rng: np.random.Generator, mask: Optional[np.ndarray], n: int, t: int) -> int:
    """index into all_actions"""
    if mask is None or policy == "uniform" or not mask.any():
        return int(rng.integers(n))
    idx = np.flatnonzero(mask)
    if policy == "masked":
        return int(rng.choice(idx))
    if policy == "masked_low":
        return int(idx[0])
    if policy == "masked_high":
        return int(idx[-1])
    if policy == "late_adversarial":
        # follow the mask for a while (so that the episode develops: the snake grows, items get packed, agents connect), then play a masked-out action
        bad = np.flatnonzero(~mask)
        if len(bad) and t >= 4 and rng.random() < 0.25:
            return int(rng.choice(bad))
        return int(rng.choice(idx))
    if policy == "adversarial":
        # legal for a while, then prefer masked-out actions
        bad = np.flatnonzero(~mask)
        if len(bad) and rng.random() < min(0.9, 0.15 + 0.1 * t):
            return int(rng.choice(bad))
        return int(rng.choice(idx))
    raise ValueError(policy)


def rollouts(ad: Adapter, env: Any, runner: Runner, rng: np.random.Generator, episodes: int,
             policies: Optional[List[str]] = None, max_steps: Optional[int] = None,
             post_terminal: int = 0) -> Iterable[Dict[str, Any]]:
    """yields records: {reset: True, seed, state, ts, policy} then
    {reset: False, seed, t, policy, state, ts_prev, action, next, ts, post_terminal}"""
    import jax

    pols = policies or POLICIES
    cap = max_steps or ad.max_steps
    for ep in range(episodes):
        pol = pols[ep % len(pols)]
        seed = int(rng.integers(1 << 31))
        key = jax.random.PRNGKey(seed)
        s, ts = runner.reset(key)
        yield {"reset": True, "seed": seed, "state": s, "ts": ts, "policy": pol}
        t = 0
        after = 0
        while t < cap:
            a = np.asarray(ad.choose_action(env, s, ts, pol, rng, t))
            s2, ts2 = runner.step(s, a)
            yield {"reset": False, "seed": seed, "t": t, "policy": pol, "state": s, "ts_prev": ts,
                   "action": a, "next": s2, "ts": ts2, "post_terminal": after > 0}
            s, ts = s2, ts2
            t += 1
            if int(ts.step_type) == 2:
                after += 1
                if after > post_terminal:
                    break


# --------------------------------------------------------------------------------------
# comparing model output with implementation output
# --------------------------------------------------------------------------------------

def is_rat(j: Any) -> bool:
    return isinstance(j, list) and len(j) == 2 and all(isinstance(t, int) and not isinstance(t, bool) for t in j)


def diff_json(model: Any, impl: Any, tol: float = 1e-5, path: str = "", rat_leaf: bool = False) -> List[str]:
    """paths where the model's JSON differs from the implementation's.  Integers / bools exactly; a pair of
    integers [n, d] on the impl side under a float field is an exact rational compared within `tol`."""
    out: List[str] = []
    if isinstance(model, dict):
        if not isinstance(impl, dict):
            return [path + ": kind"]
        for k, v in model.items():
            if k not in impl:
                continue  # the model may return extra information
            out += diff_json(v, impl[k], tol, f"{path}.{k}")
        return out
    if isinstance(model, bool) or isinstance(impl, bool):
        if bool(model) != bool(impl):
            out.append(f"{path}: {model} != {impl}")
        return out
    if isinstance(model, int) and isinstance(impl, int):
        if model != impl:
            out.append(f"{path}: {model} != {impl}")
        return out
    if is_rat(model) and is_rat(impl) and model[1] > 0 and impl[1] > 0 and (impl[1] & (impl[1] - 1)) == 0:
        # ambiguity: a length-2 integer vector looks like a rational [num, den]; implementation-side rationals
        # are exact floats, so their denominator is a power of two.  Equal lists are equal either way.
        if model == impl:
            return out
        a, b = model[0] / model[1], impl[0] / impl[1]
        if close(a, b, tol):
            return out
        out.append(f"{path}: {a} !~ {b}")
        return out
    if isinstance(model, list) and isinstance(impl, list):
        if len(model) != len(impl):
            return [f"{path}: length {len(model)} != {len(impl)}"]
        for i, (m, x) in enumerate(zip(model, impl)):
            out += diff_json(m, x, tol, f"{path}[{i}]")
            if len(out) > 8:
                break
        return out
    if isinstance(model, (int, float)) and isinstance(impl, (int, float)):
        if not close(float(model), float(impl), tol):
            out.append(f"{path}: {model} !~ {impl}")
        return out
    if model != impl:
        out.append(f"{path}: {str(model)[:60]} != {str(impl)[:60]}")
    return out


def state_key(js: Any) -> str:
    import hashlib
    import json

    return hashlib.sha1(json.dumps(js, sort_keys=True).encode()).hexdigest()[:16]
