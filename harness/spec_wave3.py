"""Wave-3 correspondence checks for the C01 spec-membership theorems of Game2048, Minesweeper and GraphColoring (called from the
adapters' `synthetic` hooks, i.e. on every C09 / C12 sweep).  They tie to the implementation the model definitions the theorems
`<env>_obsSpec_generated`, `<env>_reset_obs_valid`, `<env>_step_obs_valid` speak about:

  * `<name>.spec`  : the model's `obsSpec cfg`, `actionSpec cfg`, reward and discount spec against the real spec objects of EVERY
                     configuration of the adapter (leaf by leaf: kind, shape, dtype, name, bounds) and `generate_value()`
                     (puzzle_wave2.check_specs);
  * `<name>.state` : `nvalue` = the model observation of an implementation state as spec-level arrays (`toNValue`: field order,
                     shape, dtype, data) against the implementation's observation arrays at reset, along play and on the terminal
                     step; `obs_in_spec` = `(obsSpec cfg).valid` of it against the real `observation_spec.validate`; optional
                     `reset_ts` = the timestep the model's `reset` builds for a reset state against `env.reset`.
"""
from __future__ import annotations

import numpy as np

import speclib
from common import DriverError
from envlib import diff_json
from puzzle_wave2 import _num, check_specs  # noqa: F401  (check_specs re-exported)


def obs_checks(ctx, ad, cfg, env, drv, items, label="wave3") -> None:
    """items: (state, timestep whose observation belongs to that state, is_reset)"""
    reps = drv.batch([dict(op=f"{ad.lean}.state", cfg=cfg.cfg, state=ad.ser_state(env, s)) for s, _, _ in items])
    ospec = env.observation_spec
    for i, ((s, ts, is_reset), m) in enumerate(zip(items, reps)):
        ctx.evaluations += 1
        info = {"env": ad.name, "config": cfg.cid, "state": ad.ser_state(env, s), "where": label}
        if isinstance(m, DriverError):
            ctx.disagree(ad.name, f"state op rejects an implementation state: {m}", info)
            continue
        if is_reset and "reset_ts" in m:
            d = diff_json(m["reset_ts"], ad.ser_ts(env, ts), path="reset_ts")
            if d:
                ctx.fail(ad.name, "reset_vs_model", f"env.reset timestep differs from the model's reset (restart(observe state)) at {d[:4]}", info)
        if "nvalue" not in m or "obs_in_spec" not in m:
            ctx.disagree(ad.name, "state op does not return nvalue / obs_in_spec", info)
            continue
        vals = dict(speclib.flatten_value(ospec, ts.observation))
        model_vals = {e["key"]: e["value"] for e in m["nvalue"]}
        if list(model_vals) != [k for k, _ in speclib.flatten_spec(ospec)]:
            ctx.fail(ad.name, "obs_arrays", f"observation fields {[k for k, _ in speclib.flatten_spec(ospec)]} differ from the model's toNValue {list(model_vals)}", info)
        else:
            for k, mv in model_vals.items():
                iv = speclib.arr_json(vals[k])
                if mv["shape"] != iv["shape"] or mv["dtype"] != iv["dtype"] or _num(mv["data"]) != _num(iv["data"]):
                    ctx.fail(ad.name, "obs_arrays", f"observation field {k}: implementation array (shape {iv['shape']}, {iv['dtype']}) differs from the model's toNValue "
                             f"(shape {mv['shape']}, {mv['dtype']})", dict(info, field=k))
        try:
            ospec.validate(ts.observation)
            ok = True
        except Exception:  # noqa: BLE001
            ok = False
        if ok != m["obs_in_spec"]:
            ctx.disagree(ad.name, f"observation_spec.validate says {ok}, the model's (obsSpec cfg).valid says {m['obs_in_spec']}", info)
        if not ok:
            ctx.fail(ad.name, "obs_out_of_spec", "observation rejected by observation_spec.validate", info)
        ctx.nontrivial.add((ad.name, "w3obs", cfg.cid, label, is_reset, int(ts.step_type), i))


def check_reset_and_obs(ctx, ad, cfg, env, runner, rng, drv, resets: int, steps: int) -> None:
    """reset observations, observations along mixed (masked / uniform) play, and the terminal observation"""
    import jax

    items = []
    for e in range(resets):
        s, ts = runner.reset(jax.random.PRNGKey(int(rng.integers(1 << 31))))
        items.append((s, ts, True))
        for t in range(steps):
            a = ad.choose_action(env, s, ts, "masked" if (e + t) % 3 else "uniform", rng, t)
            s, ts = runner.step(s, a)
            items.append((s, ts, False))
            if int(ts.step_type) == 2:
                break
    obs_checks(ctx, ad, cfg, env, drv, items)
