"""Wave-3 correspondence checks shared by the Cleaner, Sokoban and PacMan adapters (called from their `synthetic` hooks, i.e. on
every C09 / C12 sweep).  They tie to the implementation the model definitions behind the theorems `<env>_obsSpec_generated`,
`<env>_reset_obs_valid`, `<env>_step_obs_valid`, `<env>_reset_obs_faithful`:

  * `<name>.spec`  : the model's `obsSpec cfg` (and action / reward / discount spec) against the real spec objects of EVERY
                     configuration of the adapter, leaf by leaf: key, kind, shape, dtype, name, bounds — including the large
                     leaves (Sokoban `grid`, PacMan `grid` and `pellet_locations`; Gen/Specs.lean holds them too since it cuts by bounds size);
  * `<name>.state` : `reset_ts` = the timestep the model's `reset` builds on top of a generated state against `env.reset`;
                     `nvalue` = the model observation as spec-level arrays (`toNValue`: shape, dtype, row-major data) against
                     the implementation's observation arrays; `obs_in_spec` = `(obsSpec cfg).valid` against the real
                     `observation_spec.validate`.

Every failure message contains the word "observation" (the C12 sweep keeps only the observation-related failures of a hook).
"""
from __future__ import annotations

from typing import Any, Dict, List

import numpy as np

import speclib
from common import DriverError
from envlib import diff_json
from puzzle_wave2 import _leaf_eq, _num


def check_specs(ctx, ad, cfg, env, drv) -> None:
    info = {"env": ad.name, "config": cfg.cid}
    ctx.evaluations += 1
    m = drv.batch([dict(op=f"{ad.lean}.spec", cfg=cfg.cfg)])[0]
    if isinstance(m, DriverError):
        ctx.fail(ad.name, "spec_vs_model", f"observation_spec: the model's spec op fails: {m}", info)
        return
    impl_obs = [(k, speclib.leaf_json(v)) for k, v in speclib.flatten_spec(env.observation_spec)]
    model_obs = [(e["key"], e["spec"]) for e in m["observation_spec"]]
    if [k for k, _ in impl_obs] != [k for k, _ in model_obs]:
        ctx.fail(ad.name, "spec_vs_model", f"observation_spec fields {[k for k, _ in impl_obs]} differ from the model's obsSpec "
                 f"{[k for k, _ in model_obs]}", info)
    else:
        for (k, a), (_, b) in zip(model_obs, impl_obs):
            d = _leaf_eq(a, b)
            if d:
                ctx.fail(ad.name, "spec_vs_model", f"observation_spec.{k} differs from the model's obsSpec (theorems "
                         f"{ad.lean}_*_obs_valid speak about the latter): {d[:3]}", dict(info, field=k))
    for nm in ("action_spec", "reward_spec", "discount_spec"):
        if nm not in m:
            continue
        d = _leaf_eq(m[nm], speclib.leaf_json(getattr(env, nm)))
        if d:
            ctx.fail(ad.name, "spec_vs_model", f"{nm} differs from the model's (next to the observation spec): {d[:3]}", dict(info, field=nm))
    if "generate_value" in m:
        gv = env.action_spec.generate_value()
        impl_gv = speclib.arr_json(gv)
        ok = True
        try:
            env.action_spec.validate(gv)
        except Exception:  # noqa: BLE001
            ok = False
        if _num(m["generate_value"]) != _num(impl_gv) or not m.get("action_spec_wf") or not ok:
            ctx.fail(ad.name, "generate_value", f"action_spec.generate_value() = {impl_gv} (accepted by the spec: {ok}), model "
                     f"{m['generate_value']} (wf {m.get('action_spec_wf')}) — checked next to the observation spec", info)
    ctx.nontrivial.add((ad.name, "w3spec", cfg.cid))


def _obs_checks(ctx, ad, cfg, env, drv, items, label, extra=None) -> None:
    """items: (state, timestep whose observation belongs to that state, is_reset)"""
    reps = drv.batch([dict(op=f"{ad.lean}.state", cfg=cfg.cfg, state=ad.ser_state(env, s)) for s, _, _ in items])
    ospec = env.observation_spec
    keys = [k for k, _ in speclib.flatten_spec(ospec)]
    for (s, ts, is_reset), m in zip(items, reps):
        ctx.evaluations += 1
        info = {"env": ad.name, "config": cfg.cid, "state": ad.ser_state(env, s), "where": label, "reset": is_reset}
        if isinstance(m, DriverError):
            ctx.fail(ad.name, "obs_arrays", f"observation check: state op rejects an implementation state: {m}", info)
            continue
        if is_reset:
            d = diff_json(m["reset_ts"], ad.ser_ts(env, ts), path="reset_ts")
            if d:
                ctx.fail(ad.name, "reset_vs_model", f"env.reset timestep (observation, reward, discount, step type) differs from the "
                         f"model's reset at {d[:4]}", info)
        vals = dict(speclib.flatten_value(ospec, ts.observation))
        model_vals = {e["key"]: e["value"] for e in m["nvalue"]}
        if list(model_vals) != keys:
            ctx.fail(ad.name, "obs_arrays", f"observation fields {keys} differ from the model's toNValue {list(model_vals)}", info)
        else:
            for k, mv in model_vals.items():
                iv = speclib.arr_json(vals[k])
                if mv["shape"] != iv["shape"] or mv["dtype"] != iv["dtype"] or _num(mv["data"]) != _num(iv["data"]):
                    ctx.fail(ad.name, "obs_arrays", f"observation field {k}: implementation array (shape {iv['shape']}, {iv['dtype']}) differs "
                             f"from the model's toNValue (shape {mv['shape']}, {mv['dtype']})", dict(info, field=k))
        try:
            ospec.validate(ts.observation)
            ok = True
        except Exception:  # noqa: BLE001
            ok = False
        if ok != m["obs_in_spec"]:
            ctx.fail(ad.name, "obs_in_spec", f"observation_spec.validate says {ok}, the model's (obsSpec cfg).valid says {m['obs_in_spec']}", info)
        if extra is not None and m.get(extra) is not True:
            ctx.fail(ad.name, "obs_invariant", f"the invariant {extra} behind the observation-membership theorems is {m.get(extra)!r} on an "
                     f"implementation state", info)
        ctx.nontrivial.add((ad.name, "w3obs", cfg.cid, label, len(ctx.nontrivial)))


def check_reset_and_obs(ctx, ad, cfg, env, runner, rng, drv, resets: int, steps: int, policies=("uniform", "masked"), extra=None) -> None:
    """a few episodes from reset (up to `steps` steps or LAST, whichever comes first — the terminal observation included)"""
    import jax

    items = []
    for e in range(resets):
        s, ts = runner.reset(jax.random.PRNGKey(int(rng.integers(1 << 31))))
        items.append((s, ts, True))
        pol = policies[e % len(policies)]
        for t in range(steps):
            a = ad.choose_action(env, s, ts, pol, rng, t)
            s, ts = runner.step(s, a)
            items.append((s, ts, False))
            if int(ts.step_type) == 2:
                break
    _obs_checks(ctx, ad, cfg, env, drv, items, "wave3", extra)
