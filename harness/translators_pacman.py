"""Source translator for PacMan (C10 / C07): lean/JumanjiModel/Gen/PacManMaze.lean from the working tree under test.

`gen_pacman_maze()` imports the real package, builds the default environment (`PacMan()`, whose generator is
`AsciiGenerator(DEFAULT_MAZE)`), calls the real `reset` and writes as a Lean literal what `reset` produced: the numeric
grid, the player start, the ghost starts, the pellet list, the power-up list, the scatter targets — plus the ASCII
lines of `constants.DEFAULT_MAZE` and a breadth-first distance grid (the connectivity certificate; it is only a
hint: the Lean checker `PacMan.tableCheck` validates it cell by cell, its soundness is proved generically in
Env/PacMan/MazeLemmas.lean).  The generated file runs the checker in the kernel (`table_ok`) and ties the table
to the model's own ASCII parser (`ascii_table`).

Hook for harness/translators.py (3 lines, after `TRANSLATORS["C10"] = [gen_sudoku_db]`):

    from translators_pacman import gen_pacman_maze  # noqa: E402
    TRANSLATORS["C10"].append(gen_pacman_maze)
    TRANSLATORS.setdefault("C07", []).append(gen_pacman_maze)
"""
from __future__ import annotations

import sys
from collections import deque
from pathlib import Path
from typing import List

_HERE = Path(__file__).resolve().parent
if str(_HERE) not in sys.path:
    sys.path.insert(0, str(_HERE))
import common  # noqa: E402

REL = "jumanji/environments/routing/pac_man"


def _write_if_changed(path: Path, text: str) -> None:
    path.parent.mkdir(parents=True, exist_ok=True)
    if not path.exists() or path.read_text() != text:
        path.write_text(text)


def _lean_str(s: str) -> str:
    return '"' + s.replace("\\", "\\\\").replace('"', '\\"') + '"'


def _pairs(ps) -> str:
    return "[" + ", ".join(f"({int(a)}, {int(b)})" for a, b in ps) + "]"


def _chunked_pairs(name: str, ps, doc: str, per: int = 60) -> str:
    """a long list of pairs as a concatenation of short literals (long literals hit maxRecDepth in elaboration)"""
    ps = [(int(a), int(b)) for a, b in ps]
    chunks = [ps[i:i + per] for i in range(0, len(ps), per)] or [[]]
    out = ""
    for i, ch in enumerate(chunks):
        out += f"def {name}{i} : List PacMan.CR := {_pairs(ch)}\n"
    out += f"/-- {doc} -/\ndef {name} : List PacMan.CR := " + " ++ ".join(f"{name}{i}" for i in range(len(chunks))) + "\n"
    return out


def bfs_dist(grid, start):
    """distances (in moves with wrap-around at the border) from `start` = (row, column); 0 for walls / unreachable"""
    nr, nc = len(grid), len(grid[0]) if grid else 0
    dist = [[0] * nc for _ in range(nr)]
    if not (0 <= start[0] < nr and 0 <= start[1] < nc):
        return dist
    seen = {start}
    dq = deque([start])
    while dq:
        r, c = dq.popleft()
        for (r2, c2) in (((r - 1) % nr, c), (r, (c - 1) % nc), ((r + 1) % nr, c), (r, (c + 1) % nc)):
            if grid[r2][c2] == 1 and (r2, c2) not in seen:
                seen.add((r2, c2))
                dist[r2][c2] = dist[r][c] + 1
                dq.append((r2, c2))
    return dist


def read_default_reset():
    """(notes, data) — what the real `reset` of the default environment produces (deterministic part)"""
    import jax
    import numpy as np

    notes: List[str] = []
    from jumanji.environments.routing.pac_man import PacMan
    from jumanji.environments.routing.pac_man import constants

    ascii_maze = list(constants.DEFAULT_MAZE)
    if not all(isinstance(r, str) for r in ascii_maze):
        notes.append(f"{REL}/constants.py: DEFAULT_MAZE is not a list of strings")
        ascii_maze = [str(r) for r in ascii_maze]
    env = PacMan()
    if type(env.generator).__name__ != "AsciiGenerator" or list(getattr(env.generator, "maze", [])) != ascii_maze:
        notes.append(f"{REL}/env.py: the default generator is not AsciiGenerator(DEFAULT_MAZE)")
    s0, _ = env.reset(jax.random.PRNGKey(0))
    s1, _ = env.reset(jax.random.PRNGKey(12345))

    def table(s):
        return {
            "grid": np.asarray(s.grid).astype(np.int64).tolist(),
            "player": (int(s.player_locations.x), int(s.player_locations.y)),
            "ghosts": np.asarray(s.ghost_locations).astype(np.int64).reshape(-1, 2).tolist(),
            "pellets": np.asarray(s.pellet_locations).astype(np.int64).reshape(-1, 2).tolist(),
            "power_ups": np.asarray(s.power_up_locations).astype(np.int64).reshape(-1, 2).tolist(),
            "scatter": np.asarray(s.scatter_targets).astype(np.int64).reshape(-1, 2).tolist(),
        }

    t0, t1 = table(s0), table(s1)
    if t0 != t1:
        notes.append(f"{REL}/generator.py: reset of the default maze depends on the key (tabulated for PRNGKey(0) only)")
    if np.asarray(s0.grid).ndim != 2:
        notes.append(f"{REL}/generator.py: state.grid is not 2-dimensional")
    t0["ascii"] = ascii_maze
    return notes, t0


def gen_pacman_maze() -> List[str]:
    try:
        notes, t = read_default_reset()
    except Exception as e:  # noqa: BLE001
        return [f"{REL}: the default environment cannot be built / reset ({type(e).__name__}: {e})"]
    grid = t["grid"]
    dist = bfs_dist(grid, t["player"]) if grid and grid[0] and all(len(r) == len(grid[0]) for r in grid) else []
    text = ("/- GENERATED by harness/translators_pacman.py (gen_pacman_maze) from the real `reset` of `PacMan()` in\n"
            f"   /repo/{REL} (constants.DEFAULT_MAZE through AsciiGenerator) — do not edit.\n"
            "   Coordinates: the player is (row, column); ghosts, pellets, power-ups, scatter targets are (column, row). -/\n"
            "import JumanjiModel.Env.PacMan.Maze\nnamespace Gen.PacManMaze\nopen PacMan\n\n")
    text += "/-- `constants.DEFAULT_MAZE` -/\ndef ascii : List String := [\n  " + ",\n  ".join(_lean_str(r) for r in t["ascii"]) + "\n]\n\n"
    text += "/-- `state.grid` (1 = free, 0 = wall) -/\ndef grid : IGrid := [\n  " + ",\n  ".join(
        "[" + ", ".join(str(int(v)) for v in row) + "]" for row in grid) + "\n]\n\n"
    text += _chunked_pairs("pellets", t["pellets"], "`state.pellet_locations`") + "\n"
    text += "/-- the state the real `reset` returns for the shipped maze: `player_locations` (x, y), `ghost_locations`,\n"
    text += "`pellet_locations`, `power_up_locations`, `scatter_targets` -/\n"
    text += ("def table : MazeTable :=\n"
             f"  {{ grid := grid, player := ({t['player'][0]}, {t['player'][1]}), ghosts := {_pairs(t['ghosts'])},\n"
             f"    pellets := pellets, powerUps := {_pairs(t['power_ups'])},\n"
             f"    scatter := {_pairs(t['scatter'])} }}\n\n")
    text += ("/-- breadth-first distances from the player start (connectivity certificate, validated by `tableCheck`) -/\n"
             "def dist : DistCert := [\n  " + ",\n  ".join("[" + ", ".join(str(v) for v in row) + "]" for row in dist) + "\n]\n\n")
    text += ("/-- the kernel runs the checker over the generated table -/\n"
             "theorem table_ok : tableCheck table dist = true := by decide +kernel\n\n"
             "/-- the model's ASCII parser yields the same table from `DEFAULT_MAZE` -/\n"
             "theorem ascii_table : MazeTable.ofAscii (ascii.map String.toList) = some table := by decide +kernel\n\n")
    text += f"def unrecognised : Nat := {len(notes)}\nend Gen.PacManMaze\n"
    _write_if_changed(common.GEN_DIR / "PacManMaze.lean", text)
    return notes


def main() -> None:
    for n in gen_pacman_maze():
        print("NOTE", n)
    print("wrote", common.GEN_DIR / "PacManMaze.lean")


if __name__ == "__main__":
    main()
