"""C02, call-history independence across instances and processes.  `digest_in_fresh_process` is run in spawned worker processes: it builds the
given configurations of ONE class in the given order in an interpreter in which nothing else of that class has been built, and returns the leaves of
jit(reset)(key) and of one jit(step) with the spec's generated action.  The main process builds the same configurations in the opposite order (after
everything else it has done); any difference means that a result depends on what was instantiated or called before."""
from __future__ import annotations

from typing import Any, Dict, List

import common  # noqa: F401  (puts the selected source tree on sys.path)


def digest(env: Any, seed: int, jreset: Any = None, jstep: Any = None) -> List[Any]:
    import jax
    import numpy as np

    s, ts = (jreset or jax.jit(env.reset))(jax.random.PRNGKey(seed))
    a = env.action_spec.generate_value()
    s2, ts2 = (jstep or jax.jit(env.step))(s, a)
    return [np.asarray(x) for x in jax.tree_util.tree_leaves(((s, ts), (s2, ts2)))]


def digest_in_fresh_process(cids: List[str], seed: int) -> Dict[str, Any]:
    import os

    os.environ.setdefault("JAX_PLATFORMS", "cpu")
    import catalog

    ents = {e.cid: e for e in catalog.entries("thorough") + catalog.siblings()}
    out: Dict[str, Any] = {}
    for cid in cids:
        try:
            out[cid] = digest(ents[cid].build(), seed)
        except Exception as ex:  # noqa: BLE001
            out[cid] = f"{type(ex).__name__}: {ex}"
    return out
