"""Catalogue of environment configurations for the environment-independent properties (C01-C03, C11, C13-C15).
Every entry: (config id, class name, builder, meta).  meta: time_limit (if the class takes one), multi (multi-agent
reward), reward_shape, trunc_ok (documented truncation with non-zero discount), heavy (skip in quick tier where noted)."""
from __future__ import annotations

from typing import Any, Callable, Dict, List, NamedTuple, Optional


class Entry(NamedTuple):
    cid: str
    cls: str
    build: Callable[..., Any]      # build(**overrides) -> Environment
    meta: Dict[str, Any]


def _mk() -> List[Entry]:
    import jumanji.environments as E
    from jumanji.environments.logic.graph_coloring.generator import RandomGenerator as GCGen
    from jumanji.environments.logic.minesweeper.generator import UniformSamplingGenerator as MSGen
    from jumanji.environments.logic.rubiks_cube.generator import ScramblingGenerator as RCGen
    from jumanji.environments.logic.sliding_tile_puzzle.generator import RandomWalkGenerator as STGen
    from jumanji.environments.packing.bin_pack.generator import RandomGenerator as BPGen, ToyGenerator as BPToy
    from jumanji.environments.packing.flat_pack.generator import RandomFlatPackGenerator as FPGen
    from jumanji.environments.packing.job_shop.generator import RandomGenerator as JSGen
    from jumanji.environments.packing.knapsack.generator import RandomGenerator as KSGen
    from jumanji.environments.routing.cleaner.generator import RandomGenerator as CLGen
    from jumanji.environments.routing.connector.generator import RandomWalkGenerator as CNGen, UniformRandomGenerator as CNUni
    from jumanji.environments.routing.cvrp.generator import UniformGenerator as CVGen
    from jumanji.environments.routing.lbf.generator import RandomGenerator as LBFGen
    from jumanji.environments.routing.maze.generator import RandomGenerator as MZGen
    from jumanji.environments.routing.mmst.generator import SplitRandomGenerator as MMGen
    from jumanji.environments.routing.multi_cvrp.generator import UniformRandomGenerator as MCGen
    from jumanji.environments.routing.robot_warehouse.generator import RandomGenerator as RWGen
    from jumanji.environments.routing.sokoban.generator import SimpleSolveGenerator as SKGen, ToyGenerator as SKToy
    from jumanji.environments.routing.tsp.generator import UniformGenerator as TSGen

    out: List[Entry] = []

    def add(cid, cls, build, **meta):
        out.append(Entry(cid, cls, build, meta))

    add("game2048-4", "Game2048", lambda **k: E.Game2048(**k))
    add("game2048-3", "Game2048", lambda **k: E.Game2048(board_size=3, **k))
    add("graphcoloring-8", "GraphColoring", lambda **k: E.GraphColoring(generator=GCGen(num_nodes=8, edge_probability=0.5), **k))
    add("graphcoloring-default", "GraphColoring", lambda **k: E.GraphColoring(**k), heavy=True)
    add("minesweeper-5x6", "Minesweeper", lambda **k: E.Minesweeper(generator=MSGen(num_rows=5, num_cols=6, num_mines=4), **k))
    add("minesweeper-default", "Minesweeper", lambda **k: E.Minesweeper(**k), heavy=True)
    add("rubikscube-3", "RubiksCube", lambda time_limit=12, **k: E.RubiksCube(generator=RCGen(cube_size=3, num_scrambles_on_reset=5), time_limit=time_limit, **k), time_limit=12)
    add("rubikscube-2", "RubiksCube", lambda time_limit=7, **k: E.RubiksCube(generator=RCGen(cube_size=2, num_scrambles_on_reset=3), time_limit=time_limit, **k), time_limit=7)
    add("slidingtile-3", "SlidingTilePuzzle", lambda time_limit=15, **k: E.SlidingTilePuzzle(generator=STGen(grid_size=3, num_random_moves=20), time_limit=time_limit, **k), time_limit=15)
    add("sudoku-default", "Sudoku", lambda **k: E.Sudoku(**k))
    def _sudoku_shared_db(**k):
        # a database the CALLER holds (one writable NumPy array shared by every instance built from this entry): constructing or
        # resetting an environment must not change it, and a second instance built from it must behave like the first
        import os

        import numpy as np
        import jumanji.environments.logic.sudoku as pkg
        from jumanji.environments.logic.sudoku.data import DATABASES
        from jumanji.environments.logic.sudoku.generator import DatabaseGenerator

        if "sudoku_db" not in SHARED_ARGS:
            arr = np.array(np.load(os.path.join(os.path.dirname(os.path.abspath(pkg.__file__)), "data", DATABASES["very-easy"]))[:48])
            SHARED_ARGS["sudoku_db"] = (arr, arr.copy())
        return E.Sudoku(generator=DatabaseGenerator(database=SHARED_ARGS["sudoku_db"][0]), **k)

    add("sudoku-shared-db", "Sudoku", _sudoku_shared_db, shared_args=True)

    def _sudoku_dummy(**k):
        from jumanji.environments.logic.sudoku.generator import DummyGenerator
        return E.Sudoku(generator=DummyGenerator(), **k)

    # the shipped fixed-board generator: every instance (the first and every later one of a process) must hand out the same board
    add("sudoku-dummy", "Sudoku", _sudoku_dummy, constant_generator=True)
    add("binpack-toy", "BinPack", lambda **k: E.BinPack(generator=BPToy(), obs_num_ems=10, **k), constant_generator=True)
    def _binpack_csv(**k):
        # CSVGenerator over an instance written by the library's own save_instance_to_csv (kept under /verif/.cache, not /tmp)
        import os

        import jax
        from jumanji.environments.packing.bin_pack.generator import CSVGenerator, save_instance_to_csv

        d = os.path.join(os.path.dirname(os.path.dirname(os.path.abspath(__file__))), ".cache")
        os.makedirs(d, exist_ok=True)
        path = os.path.join(d, "binpack_instance.csv")
        if not os.path.exists(path):
            save_instance_to_csv(BPGen(max_num_items=6, max_num_ems=15)(jax.random.PRNGKey(3)), path)
        return E.BinPack(generator=CSVGenerator(path, max_num_ems=15), obs_num_ems=8, **k)

    add("binpack-csv", "BinPack", _binpack_csv, constant_generator=True)
    add("binpack-random", "BinPack", lambda **k: E.BinPack(generator=BPGen(max_num_items=8, max_num_ems=20), obs_num_ems=8, **k), heavy=True)
    add("flatpack-2x2", "FlatPack", lambda **k: E.FlatPack(generator=FPGen(num_row_blocks=2, num_col_blocks=2), **k))
    add("jobshop-3x3", "JobShop", lambda **k: E.JobShop(generator=JSGen(num_jobs=3, num_machines=3, max_num_ops=3, max_op_duration=3), **k))
    add("knapsack-8", "Knapsack", lambda **k: E.Knapsack(generator=KSGen(num_items=8, total_budget=2.0), **k))
    add("tetris-6x5", "Tetris", lambda time_limit=9, **k: E.Tetris(num_rows=6, num_cols=5, time_limit=time_limit, **k), time_limit=9)
    add("tetris-default", "Tetris", lambda time_limit=400, **k: E.Tetris(time_limit=time_limit, **k), time_limit=400, heavy=True)
    add("cleaner-5x7x2", "Cleaner", lambda time_limit=11, **k: E.Cleaner(generator=CLGen(num_rows=5, num_cols=7, num_agents=2), time_limit=time_limit, **k), time_limit=11)
    add("cleaner-none", "Cleaner", lambda time_limit=None, **k: E.Cleaner(generator=CLGen(num_rows=4, num_cols=5, num_agents=1), time_limit=time_limit, **k), time_limit=None, default_limit=20)
    add("connector-6x3", "Connector", lambda time_limit=9, **k: E.Connector(generator=CNGen(grid_size=6, num_agents=3), time_limit=time_limit, **k), time_limit=9, multi=True)
    add("connector-uniform", "Connector", lambda time_limit=5, **k: E.Connector(generator=CNUni(grid_size=5, num_agents=2), time_limit=time_limit, **k), time_limit=5, multi=True)
    add("cvrp-6", "CVRP", lambda **k: E.CVRP(generator=CVGen(num_nodes=6, max_capacity=10, max_demand=5), **k))
    add("lbf-6x2", "LevelBasedForaging", lambda time_limit=8, **k: E.LevelBasedForaging(generator=LBFGen(grid_size=6, num_agents=2, num_food=2, fov=2), time_limit=time_limit, **k), time_limit=8, multi=True, trunc_ok=True)
    add("lbf-grid", "LevelBasedForaging", lambda time_limit=6, **k: E.LevelBasedForaging(generator=LBFGen(grid_size=7, num_agents=3, num_food=2, fov=7), time_limit=time_limit, grid_observation=True, **k), time_limit=6, multi=True, trunc_ok=True)
    add("maze-5x7", "Maze", lambda time_limit=9, **k: E.Maze(generator=MZGen(num_rows=5, num_cols=7), time_limit=time_limit, **k), time_limit=9)
    add("maze-none-3x5", "Maze", lambda time_limit=None, **k: E.Maze(generator=MZGen(num_rows=3, num_cols=5), time_limit=time_limit, **k), time_limit=None, default_limit=15)
    add("cleaner-none-3x6", "Cleaner", lambda time_limit=None, **k: E.Cleaner(generator=CLGen(num_rows=3, num_cols=6, num_agents=1), time_limit=time_limit, **k), time_limit=None, default_limit=18)
    add("maze-none", "Maze", lambda time_limit=None, **k: E.Maze(generator=MZGen(num_rows=4, num_cols=4), time_limit=time_limit, **k), time_limit=None, default_limit=16)
    add("mmst-small", "MMST", lambda time_limit=9, **k: E.MMST(generator=MMGen(num_nodes=12, num_edges=18, max_degree=5, num_agents=2, num_nodes_per_agent=3, max_step=time_limit), time_limit=time_limit, **k), time_limit=9, multi=True, trunc_ok=True)
    add("multicvrp-6x2", "MultiCVRP", lambda **k: E.MultiCVRP(generator=MCGen(num_customers=6, num_vehicles=2), **k))
    add("pacman", "PacMan", lambda time_limit=12, **k: E.PacMan(time_limit=time_limit, **k), time_limit=12)
    add("robotwarehouse-small", "RobotWarehouse", lambda time_limit=9, **k: E.RobotWarehouse(generator=RWGen(shelf_rows=1, shelf_columns=3, column_height=2, num_agents=2, sensor_range=1, request_queue_size=2), time_limit=time_limit, **k), time_limit=9, multi=True, trunc_ok=True)
    add("snake-5x6", "Snake", lambda time_limit=10, **k: E.Snake(num_rows=5, num_cols=6, time_limit=time_limit, **k), time_limit=10)
    add("sokoban-simple", "Sokoban", lambda time_limit=9, **k: E.Sokoban(generator=SKGen(), time_limit=time_limit, **k), time_limit=9, constant_generator=True)
    add("sokoban-toy", "Sokoban", lambda time_limit=6, **k: E.Sokoban(generator=SKToy(), time_limit=time_limit, **k), time_limit=6, constant_generator=True)
    add("tsp-6", "TSP", lambda **k: E.TSP(generator=TSGen(num_cities=6), **k))
    return out


# constructor arguments held by the caller and shared between instances: name -> (the object handed to the constructors, a private copy)
SHARED_ARGS: Dict[str, Any] = {}


def shared_args_modified() -> List[str]:
    """names of the shared constructor arguments whose contents no longer equal the private copy taken when they were created"""
    import numpy as np

    return [k for k, (obj, snap) in SHARED_ARGS.items() if not (np.asarray(obj).dtype == snap.dtype and np.array_equal(np.asarray(obj), snap))]


def siblings() -> List[Entry]:
    """extra configurations used by C02's call-history check only: pairs of configurations of one class that share derived quantities (the same
    grid size reached by different parameters, transposed dimensions, swapped counts) — the collisions a cache or a memo keyed by a
    derived quantity would confuse"""
    import jumanji.environments as E
    from jumanji.environments.logic.minesweeper.generator import UniformSamplingGenerator as MSGen
    from jumanji.environments.packing.flat_pack.generator import RandomFlatPackGenerator as FPGen
    from jumanji.environments.packing.job_shop.generator import RandomGenerator as JSGen
    from jumanji.environments.routing.cleaner.generator import RandomGenerator as CLGen
    from jumanji.environments.routing.maze.generator import RandomGenerator as MZGen
    from jumanji.environments.routing.robot_warehouse.generator import RandomGenerator as RWGen

    out: List[Entry] = []

    def add(cid, cls, build, **meta):
        out.append(Entry(cid, cls, build, meta))

    def rw(r, h):
        return lambda **k: E.RobotWarehouse(generator=RWGen(shelf_rows=r, shelf_columns=3, column_height=h, num_agents=2, sensor_range=1, request_queue_size=2), time_limit=9, **k)
    add("robotwarehouse-r1h5", "RobotWarehouse", rw(1, 5))     # (5 + 1) * 1 + 2 = 8 rows
    add("robotwarehouse-r2h2", "RobotWarehouse", rw(2, 2))     # (2 + 1) * 2 + 2 = 8 rows, another floor plan
    add("maze-7x5", "Maze", lambda **k: E.Maze(generator=MZGen(num_rows=7, num_cols=5), time_limit=9, **k))
    add("cleaner-7x5x2", "Cleaner", lambda **k: E.Cleaner(generator=CLGen(num_rows=7, num_cols=5, num_agents=2), time_limit=11, **k))
    add("snake-6x5", "Snake", lambda **k: E.Snake(num_rows=6, num_cols=5, time_limit=10, **k))
    add("minesweeper-6x5", "Minesweeper", lambda **k: E.Minesweeper(generator=MSGen(num_rows=6, num_cols=5, num_mines=4), **k))
    add("flatpack-2x3", "FlatPack", lambda **k: E.FlatPack(generator=FPGen(num_row_blocks=2, num_col_blocks=3), **k))
    add("flatpack-3x2", "FlatPack", lambda **k: E.FlatPack(generator=FPGen(num_row_blocks=3, num_col_blocks=2), **k))
    add("jobshop-3x4", "JobShop", lambda **k: E.JobShop(generator=JSGen(num_jobs=3, num_machines=4, max_num_ops=3, max_op_duration=3), **k))
    add("jobshop-4x3", "JobShop", lambda **k: E.JobShop(generator=JSGen(num_jobs=4, num_machines=3, max_num_ops=3, max_op_duration=3), **k))
    return out


SPEC_ONLY_PREFIX = "spec-only-"


def spec_only() -> List[Entry]:
    """SPEC-ONLY configurations: instantiated by `translators.gen_specs` only, to walk their declared spec objects into
    Gen/Specs.lean (ids prefixed `spec-only-`); they take part in no sweep.  For every environment class at least one
    configuration whose constructor parameters the specs depend on are pairwise distinct and non-degenerate (and differ from
    the catalogue configuration of the class), so that the Lean tie `<env>_obsSpec_generated` tells a symbolic spec with two
    parameters swapped, or `n + 6` for `2 * n`, from the right one (audit r4 #3, r5 #2, r6 #3 and #7)."""
    import jumanji.environments as E
    from jumanji.environments.logic.graph_coloring.generator import RandomGenerator as GCGen
    from jumanji.environments.logic.minesweeper.generator import UniformSamplingGenerator as MSGen
    from jumanji.environments.logic.rubiks_cube.generator import ScramblingGenerator as RCGen
    from jumanji.environments.logic.sliding_tile_puzzle.generator import RandomWalkGenerator as STGen
    from jumanji.environments.logic.sudoku.generator import DummyGenerator as SDDummy
    from jumanji.environments.packing.bin_pack.generator import RandomGenerator as BPGen
    from jumanji.environments.packing.flat_pack.generator import RandomFlatPackGenerator as FPGen
    from jumanji.environments.packing.job_shop.generator import RandomGenerator as JSGen
    from jumanji.environments.packing.knapsack.generator import RandomGenerator as KSGen
    from jumanji.environments.routing.cleaner.generator import RandomGenerator as CLGen
    from jumanji.environments.routing.connector.generator import RandomWalkGenerator as CNGen
    from jumanji.environments.routing.cvrp.generator import UniformGenerator as CVGen
    from jumanji.environments.routing.lbf.generator import RandomGenerator as LBFGen
    from jumanji.environments.routing.maze.generator import RandomGenerator as MZGen
    from jumanji.environments.routing.mmst.generator import SplitRandomGenerator as MMGen
    from jumanji.environments.routing.multi_cvrp.generator import UniformRandomGenerator as MCGen
    from jumanji.environments.routing.robot_warehouse.generator import RandomGenerator as RWGen
    from jumanji.environments.routing.sokoban.generator import ToyGenerator as SKToy
    from jumanji.environments.routing.tsp.generator import UniformGenerator as TSGen

    out: List[Entry] = []

    def add(cid, cls, build, **meta):
        out.append(Entry(SPEC_ONLY_PREFIX + cid, cls, build, dict(meta, spec_only=True)))

    add("game2048-5", "Game2048", lambda **k: E.Game2048(board_size=5, **k))
    add("graphcoloring-5", "GraphColoring", lambda **k: E.GraphColoring(generator=GCGen(num_nodes=5, edge_probability=0.5), **k))
    add("minesweeper-3x4x5", "Minesweeper", lambda **k: E.Minesweeper(generator=MSGen(num_rows=3, num_cols=4, num_mines=5), **k))
    add("rubikscube-4", "RubiksCube", lambda **k: E.RubiksCube(generator=RCGen(cube_size=4, num_scrambles_on_reset=3), time_limit=11, **k))
    add("slidingtile-5", "SlidingTilePuzzle", lambda **k: E.SlidingTilePuzzle(generator=STGen(grid_size=5, num_random_moves=5), time_limit=13, **k))
    add("sudoku-dummy", "Sudoku", lambda **k: E.Sudoku(generator=SDDummy(), **k))
    add("binpack-random-6x12x5", "BinPack", lambda **k: E.BinPack(generator=BPGen(max_num_items=6, max_num_ems=12), obs_num_ems=5, **k))
    add("flatpack-2x4", "FlatPack", lambda **k: E.FlatPack(generator=FPGen(num_row_blocks=2, num_col_blocks=4), **k))
    add("jobshop-4x3x6x7", "JobShop", lambda **k: E.JobShop(generator=JSGen(num_jobs=4, num_machines=3, max_num_ops=6, max_op_duration=7), **k))
    add("knapsack-5", "Knapsack", lambda **k: E.Knapsack(generator=KSGen(num_items=5, total_budget=2.0), **k))
    add("tetris-7x5", "Tetris", lambda **k: E.Tetris(num_rows=7, num_cols=5, time_limit=11, **k))
    add("cleaner-3x8x5", "Cleaner", lambda **k: E.Cleaner(generator=CLGen(num_rows=3, num_cols=8, num_agents=5), time_limit=13, **k))
    add("connector-9x2", "Connector", lambda **k: E.Connector(generator=CNGen(grid_size=9, num_agents=2), time_limit=11, **k))
    add("cvrp-3", "CVRP", lambda **k: E.CVRP(generator=CVGen(num_nodes=3, max_capacity=10, max_demand=5), **k))
    # vector observer with num_agents * max_agent_level = 9 > grid_size = 7 (the maximum of the `agents_view` leaf is max(A*L, L, grid))
    add("lbf-7x3x2-l3", "LevelBasedForaging", lambda **k: E.LevelBasedForaging(generator=LBFGen(grid_size=7, num_agents=3, num_food=2, fov=2, max_agent_level=3), time_limit=11, **k))
    # grid observer: agents_view (2, 3, 7, 7) in [0, 8], again A*L = 8 > grid_size = 6
    add("lbf-grid-6x2x1-l4", "LevelBasedForaging", lambda **k: E.LevelBasedForaging(generator=LBFGen(grid_size=6, num_agents=2, num_food=1, fov=3, max_agent_level=4), time_limit=9, grid_observation=True, **k))
    add("maze-6x9", "Maze", lambda **k: E.Maze(generator=MZGen(num_rows=6, num_cols=9), time_limit=11, **k))
    add("mmst-10x3x2", "MMST", lambda **k: E.MMST(generator=MMGen(num_nodes=10, num_edges=14, max_degree=4, num_agents=3, num_nodes_per_agent=2, max_step=11), time_limit=11, **k))
    add("multicvrp-20x3", "MultiCVRP", lambda **k: E.MultiCVRP(generator=MCGen(num_customers=20, num_vehicles=3), **k))
    # the 100-customer scenario: map_max 20, max_capacity 300, max_start_window 40 (window maximum 60) — unlike the 6- and 20-customer
    # scenarios, where map_max = max_start_window = 10
    add("multicvrp-100x3", "MultiCVRP", lambda **k: E.MultiCVRP(generator=MCGen(num_customers=100, num_vehicles=3), **k))
    add("pacman-default", "PacMan", lambda **k: E.PacMan(**k))
    add("robotwarehouse-3a-r2", "RobotWarehouse", lambda **k: E.RobotWarehouse(generator=RWGen(shelf_rows=1, shelf_columns=3, column_height=2, num_agents=3, sensor_range=2, request_queue_size=4), time_limit=11, **k))
    add("snake-3x7", "Snake", lambda **k: E.Snake(num_rows=3, num_cols=7, time_limit=13, **k))
    add("sokoban-toy", "Sokoban", lambda **k: E.Sokoban(generator=SKToy(), time_limit=7, **k))
    add("tsp-4", "TSP", lambda **k: E.TSP(generator=TSGen(num_cities=4), **k))
    return out


_CACHE: Optional[List[Entry]] = None


def entries(tier: str = "quick") -> List[Entry]:
    global _CACHE
    if _CACHE is None:
        _CACHE = _mk()
    if tier == "quick":
        return [e for e in _CACHE if not e.meta.get("heavy")]
    return list(_CACHE)


def reward_shape(env: Any) -> Optional[int]:
    sh = tuple(env.reward_spec.shape)
    return None if sh == () else int(sh[0])


def one_per_class(tier: str, seed: int) -> List[Entry]:
    """quick tier: one configuration per environment class (which one rotates with the seed); thorough: all"""
    es = entries(tier)
    if tier != "quick":
        return es
    by: Dict[str, List[Entry]] = {}
    for e in es:
        by.setdefault(e.cls, []).append(e)
    return [v[seed % len(v)] for v in by.values()]
