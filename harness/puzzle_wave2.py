"""Wave-2 correspondence checks shared by the RubiksCube and SlidingTilePuzzle adapters (called from their `synthetic` hooks,
i.e. on every C09 / C12 / C17 sweep).  They tie to the implementation the model definitions added for the audit r3 theorems:

  * `<name>.spec`   : the model's `obsSpec cfg`, `actionSpec`, reward and discount spec (Env/<Name>/Episode.lean) against the real
                      spec objects of EVERY configuration of the adapter (leaf by leaf: kind, shape, dtype, name, bounds), and
                      `action_spec.generate_value()`;
  * `<name>.state`  : `reset_ts` = the timestep the model's `reset` builds for a state (FIRST, reward 0, discount 1, observation)
                      against `env.reset`; `nvalue` = the model observation as spec-level arrays (`toNValue`: shape, dtype, data)
                      against the implementation's observation arrays; `obs_in_spec` = `(obsSpec cfg).valid` against the real
                      `observation_spec.validate`;
  * `<name>.run`    : the L1 episode `run cfg s actions` (iterated step, continuing through LAST) against the implementation's
                      episode, the index of the first LAST (must be <= time_limit, == time_limit if not completed earlier) and, for
                      SlidingTilePuzzle, the episode return.
"""
from __future__ import annotations

from typing import Any, Dict, List

import numpy as np

import speclib
from common import DriverError, ser_rats
from envlib import diff_json


def _num(x: Any) -> Any:
    """[num, den] pairs -> floats, recursively (for comparing spec / array JSON)"""
    if isinstance(x, list):
        if len(x) == 2 and all(isinstance(e, int) and not isinstance(e, bool) for e in x) and x[1] > 0:
            return x[0] / x[1]
        return [_num(e) for e in x]
    if isinstance(x, dict):
        return {k: _num(v) for k, v in x.items()}
    return x


def _leaf_eq(model: Dict[str, Any], impl: Dict[str, Any]) -> List[str]:
    bad = []
    for k in sorted(set(model) | set(impl)):
        if k not in model or k not in impl:
            bad.append(f"{k}: missing")
        elif k in ("min", "max"):
            if [_num(e) for e in model[k]] != [_num(e) for e in impl[k]]:
                bad.append(f"{k}: {model[k]} != {impl[k]}")
        elif model[k] != impl[k]:
            bad.append(f"{k}: {model[k]} != {impl[k]}")
    return bad


def check_specs(ctx, ad, cfg, env, drv) -> None:
    info = {"env": ad.name, "config": cfg.cid}
    ctx.evaluations += 1
    m = drv.batch([dict(op=f"{ad.lean}.spec", cfg=cfg.cfg)])[0]
    if isinstance(m, DriverError):
        ctx.disagree(ad.name, f"spec op fails: {m}", info)
        return
    impl_obs = [(k, speclib.leaf_json(v)) for k, v in speclib.flatten_spec(env.observation_spec)]
    model_obs = [(e["key"], e["spec"]) for e in m["observation_spec"]]
    if [k for k, _ in impl_obs] != [k for k, _ in model_obs]:
        ctx.fail(ad.name, "spec_vs_model", f"observation_spec fields {[k for k, _ in impl_obs]} differ from the model's obsSpec {[k for k, _ in model_obs]}", info)
    else:
        for (k, a), (_, b) in zip(model_obs, impl_obs):
            d = _leaf_eq(a, b)
            if d:
                ctx.fail(ad.name, "spec_vs_model", f"observation_spec.{k} differs from the model's obsSpec (theorems *_obs_valid speak about the latter): {d[:3]}", dict(info, field=k))
    for nm in ("action_spec", "reward_spec", "discount_spec"):
        d = _leaf_eq(m[nm], speclib.leaf_json(getattr(env, nm)))
        if d:
            ctx.fail(ad.name, "spec_vs_model", f"{nm} differs from the model's: {d[:3]}", dict(info, field=nm))
    gv = env.action_spec.generate_value()
    impl_gv = speclib.arr_json(gv)
    if _num(m["generate_value"]) != _num(impl_gv) or not m["action_spec_wf"] or not m["generate_value_legal"]:
        ctx.fail(ad.name, "generate_value", f"action_spec.generate_value() = {impl_gv}, model {m['generate_value']} (wf {m['action_spec_wf']}, legal {m['generate_value_legal']})", info)
    try:
        env.action_spec.validate(gv)
    except Exception as ex:  # noqa: BLE001
        ctx.fail(ad.name, "generate_value", f"generate_value() rejected by action_spec: {str(ex)[:120]}", info)


def _obs_checks(ctx, ad, cfg, env, drv, items, label) -> None:
    """items: (state, timestep whose observation belongs to that state, is_reset)"""
    reps = drv.batch([dict(op=f"{ad.lean}.state", cfg=cfg.cfg, state=ad.ser_state(env, s)) for s, _, _ in items])
    ospec = env.observation_spec
    for (s, ts, is_reset), m in zip(items, reps):
        ctx.evaluations += 1
        info = {"env": ad.name, "config": cfg.cid, "state": ad.ser_state(env, s), "where": label}
        if isinstance(m, DriverError):
            ctx.disagree(ad.name, f"state op rejects an implementation state: {m}", info)
            continue
        if is_reset:
            d = diff_json(m["reset_ts"], ad.ser_ts(env, ts), path="reset_ts")
            if d:
                ctx.fail(ad.name, "reset_vs_model", f"env.reset timestep differs from the model's reset (restart(observe state)) at {d[:4]}", info)
        vals = dict(speclib.flatten_value(ospec, ts.observation))
        model_vals = {e["key"]: e["value"] for e in m["nvalue"]}
        if list(model_vals) != [k for k, _ in speclib.flatten_spec(ospec)]:
            ctx.fail(ad.name, "obs_arrays", f"observation fields {sorted(vals)} differ from the model's toNValue {list(model_vals)}", info)
        else:
            for k, mv in model_vals.items():
                iv = speclib.arr_json(vals[k])
                if mv["shape"] != iv["shape"] or mv["dtype"] != iv["dtype"] or _num(mv["data"]) != _num(iv["data"]):
                    ctx.fail(ad.name, "obs_arrays", f"observation field {k}: implementation array (shape {iv['shape']}, {iv['dtype']}) differs from the model's toNValue "
                             f"(shape {mv['shape']}, {mv['dtype']})", dict(info, field=k))
        try:
            ospec.validate(ts.observation)
            ok = True
        except Exception:  # noqa: BLE001
            ok = False
        if ok != m["obs_in_spec"]:
            ctx.disagree(ad.name, f"observation_spec.validate says {ok}, the model's (obsSpec cfg).valid says {m['obs_in_spec']}", info)
        ctx.nontrivial.add((ad.name, "w2obs", cfg.cid, label, int(np.asarray(s.step_count))))


def check_reset_and_obs(ctx, ad, cfg, env, runner, rng, drv, resets: int, steps: int) -> None:
    import jax

    items = []
    for _ in range(resets):
        s, ts = runner.reset(jax.random.PRNGKey(int(rng.integers(1 << 31))))
        items.append((s, ts, True))
        for t in range(steps):
            a = ad.choose_action(env, s, ts, "uniform", rng, t)
            s, ts = runner.step(s, a)
            items.append((s, ts, False))
            if int(ts.step_type) == 2:
                break
    _obs_checks(ctx, ad, cfg, env, drv, items, "wave2")


def check_run(ctx, ad, cfg, env, runner, rng, drv, completed, with_return: bool = False) -> None:
    """one episode of time_limit + 2 steps (continuing after LAST, no reset) through the implementation vs the L1 `run`"""
    import jax

    T = int(env.time_limit)
    if T > 60:
        return
    s0, ts = runner.reset(jax.random.PRNGKey(int(rng.integers(1 << 31))))
    s, acts, steps = s0, [], []
    for t in range(T + 2):
        a = ad.choose_action(env, s, ts, "masked" if t % 3 else "uniform", rng, t)
        s, ts = runner.step(s, a)
        acts.append(ad.ser_action(env, a))
        steps.append((s, ts))
    ctx.evaluations += 1
    info = {"env": ad.name, "config": cfg.cid, "state": ad.ser_state(env, s0), "actions": acts}
    m = drv.batch([dict(op=f"{ad.lean}.run", cfg=cfg.cfg, state=ad.ser_state(env, s0), actions=acts)])[0]
    if isinstance(m, DriverError):
        ctx.disagree(ad.name, f"run op fails: {m}", info)
        return
    if len(m["steps"]) != len(steps):
        ctx.disagree(ad.name, f"run lists {len(m['steps'])} steps for {len(steps)} actions", info)
        return
    for t, ((s, ts), ms) in enumerate(zip(steps, m["steps"])):
        d = diff_json(ms["state"], ad.ser_state(env, s), path=f"run[{t}].state") + diff_json(ms["ts"], ad.ser_ts(env, ts), path=f"run[{t}].ts")
        if d:
            ctx.fail(ad.name, "run_vs_model", f"episode differs from the L1 run (iterated step) at {d[:4]}", dict(info, t=t))
            return
    lasts = [t + 1 for t, (_, ts) in enumerate(steps) if int(ts.step_type) == 2]
    first = lasts[0] if lasts else None
    if m["first_last"] != first:
        ctx.disagree(ad.name, f"first LAST at {first}, model says {m['first_last']}", info)
    if first is None or first > T:
        ctx.fail(ad.name, "episode_limit", f"no LAST within time_limit = {T} steps (first LAST: {first})", info)
    elif first < T and not completed(env, steps[first - 1][0], steps[first - 1][1]):
        ctx.fail(ad.name, "episode_limit", f"LAST at step {first} < time_limit = {T} without completion", info)
    if with_return and first is not None:
        ret = float(sum(float(np.asarray(ts.reward)) for _, ts in steps[:first]))
        mr = _num(m["episode_return"])
        if abs(ret - mr) > 1e-6:
            ctx.fail(ad.name, "run_return", f"episode return {ret} differs from the model's {mr}", info)
    ctx.nontrivial.add((ad.name, "w2run", cfg.cid, first))
