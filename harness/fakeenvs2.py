"""A second module with fake environment classes UNDER THE SAME CLASS NAMES as fakeenvs.py: an entry point is `module:Class`, and two
entry points that differ only in the module are different classes (C18: make builds the registered class)."""


class E1:
    def __init__(self, *args, **kw):
        self.args, self.kw = args, kw


class E2(E1):
    pass
