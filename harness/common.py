"""Shared plumbing of the /verif checks: paths, the Lean driver process, Lean build + audit,
serialisation of JAX/NumPy values for the line protocol, evidence/replay/known-findings handling.

Run with /venv/bin/python; jumanji is imported from /repo's working tree (REPO on sys.path first).
"""
from __future__ import annotations

import json
import os
import re
import subprocess
import sys
import threading
import time
from fractions import Fraction
from pathlib import Path
from typing import Any, Dict, Iterable, List, Optional, Tuple

VERIF = Path(__file__).resolve().parent.parent
REPO = Path(os.environ.get("JUMANJI_REPO", "/repo"))
LEAN_DIR = VERIF / "lean"
DRIVER_BIN = LEAN_DIR / ".lake" / "build" / "bin" / "driver"
# VERIF_EVIDENCE_DIR: used by tools/seedtest.py so that runs against patched scratch trees never touch the committed evidence
EVIDENCE_DIR = Path(os.environ["VERIF_EVIDENCE_DIR"]) if os.environ.get("VERIF_EVIDENCE_DIR") else VERIF / "evidence"
REPLAY_DIR = VERIF / "replays"
KNOWN_FINDINGS = VERIF / "known_findings.json"
GEN_DIR = LEAN_DIR / "JumanjiModel" / "Gen"

os.environ.setdefault("HF_HUB_OFFLINE", "1")
os.environ.setdefault("JAX_PLATFORMS", "cpu")
os.environ.setdefault("XLA_PYTHON_CLIENT_PREALLOCATE", "false")
os.environ.setdefault("MPLBACKEND", "Agg")
if str(REPO) not in sys.path:
    sys.path.insert(0, str(REPO))

ALLOWED_AXIOMS = {"propext", "Classical.choice", "Quot.sound"}
TRUSTED_BASE = [
    "Lean 4.33.0 kernel (and `lake env leanchecker` re-check in the thorough tier)",
    "axioms of every property theorem audited on each run: subset of {propext, Classical.choice, Quot.sound}; "
    "no sorry/admit/native_decide/bv_decide/own axioms",
    "hand-written Lean model (L0 JAX primitives, L1 transliteration, L2 rules) tied to /repo by the "
    "correspondence harness (harness/*.py, Driver.lean, Bridge/*.lean) and by the source translators "
    "(harness/translators.py -> lean/JumanjiModel/Gen/*.lean)",
    "modelled, not verified: float32 arithmetic (exact rationals + tolerance), threefry PRNG (draws / free key "
    "algebra), JAX/XLA program transformations, int32 range (unbounded integers), third-party libraries "
    "(gymnasium, dm_env, dm-tree, chex)",
]


# --------------------------------------------------------------------------------------
# serialisation
# --------------------------------------------------------------------------------------

def rat(x: float) -> List[int]:
    """exact dyadic rational of a float as [num, den]"""
    f = Fraction(float(x))
    return [f.numerator, f.denominator]


def ser(x: Any) -> Any:
    """NumPy / JAX array (or python scalar) -> nested JSON lists; floats as exact [num, den]."""
    import numpy as np

    a = np.asarray(x)
    if a.dtype == np.bool_:
        return a.tolist()
    if np.issubdtype(a.dtype, np.integer):
        return a.tolist()
    if np.issubdtype(a.dtype, np.floating):
        if a.ndim == 0:
            return rat(float(a))
        return [ser(e) for e in a]
    raise TypeError(f"cannot serialise dtype {a.dtype}")


def ser_rats(x: Any) -> Any:
    """always a flat list of [num, den] (reward/discount: scalar -> length-1 list)"""
    import numpy as np

    a = np.asarray(x, dtype=np.float64).reshape(-1)
    return [rat(float(e)) for e in a]


def unrat(j: Any) -> float:
    if isinstance(j, list) and len(j) == 2 and all(isinstance(t, int) for t in j):
        return j[0] / j[1]
    return float(j)


def close(a: float, b: float, tol: float = 1e-5) -> bool:
    return abs(a - b) <= tol * (1.0 + max(abs(a), abs(b)))


# --------------------------------------------------------------------------------------
# the Lean driver
# --------------------------------------------------------------------------------------

class DriverError(Exception):
    pass


class Driver:
    """Line-protocol client of the compiled Lean driver (lean/.lake/build/bin/driver)."""

    def __init__(self) -> None:
        if not DRIVER_BIN.exists():
            ok, log = lake_build(["driver"])
            if not ok:
                raise DriverError("driver does not build:\n" + log[-3000:])
        self.p = subprocess.Popen(
            [str(DRIVER_BIN)], stdin=subprocess.PIPE, stdout=subprocess.PIPE, text=True, bufsize=1 << 20
        )
        self.calls = 0

    def batch(self, reqs: List[Dict[str, Any]]) -> List[Any]:
        """send all requests, return the list of replies: value of "ok", or DriverError instances"""
        if not reqs:
            return []
        lines = [json.dumps(r, separators=(",", ":")) for r in reqs]

        def writer() -> None:
            assert self.p.stdin
            for ln in lines:
                self.p.stdin.write(ln + "\n")
            self.p.stdin.flush()

        t = threading.Thread(target=writer, daemon=True)
        t.start()
        out: List[Any] = []
        assert self.p.stdout
        for _ in lines:
            ln = self.p.stdout.readline()
            if not ln:
                raise DriverError("driver died (stack overflow or crash?)")
            rep = json.loads(ln)
            if "ok" in rep:
                out.append(rep["ok"])
            else:
                out.append(DriverError(rep.get("err", "?")))
        t.join()
        self.calls += len(reqs)
        return out

    def call(self, op: str, **kw: Any) -> Any:
        r = self.batch([dict(op=op, **kw)])[0]
        if isinstance(r, DriverError):
            raise r
        return r

    def close(self) -> None:
        try:
            assert self.p.stdin
            self.p.stdin.close()
            self.p.wait(timeout=5)
        except Exception:
            self.p.kill()


# --------------------------------------------------------------------------------------
# Lean build and audit
# --------------------------------------------------------------------------------------

def lake_build(targets: List[str], timeout: int = 3000) -> Tuple[bool, str]:
    try:
        r = subprocess.run(
            ["lake", "build", *targets], cwd=LEAN_DIR, capture_output=True, text=True, timeout=timeout
        )
    except subprocess.TimeoutExpired:
        return False, "lake build timed out"
    return r.returncode == 0, r.stdout + r.stderr


_FORBIDDEN = re.compile(
    r"\bsorry\b|\badmit\b|^\s*axiom\s|native_decide|bv_decide|implemented_by|\bunsafe\s|maxHeartbeats\s+0\b",
    re.M,
)


def _strip_comments(src: str) -> str:
    src = re.sub(r"/-.*?-/", "", src, flags=re.S)
    src = re.sub(r"--.*", "", src)
    return src


def grep_forbidden() -> List[str]:
    hits = []
    for p in sorted((LEAN_DIR / "JumanjiModel").rglob("*.lean")):
        txt = _strip_comments(p.read_text())
        for m in _FORBIDDEN.finditer(txt):
            hits.append(f"{p.relative_to(LEAN_DIR)}: {m.group(0).strip()}")
    return hits


def _props_files(pid: str) -> List[Path]:
    """Props/<pid>.lean and every JumanjiModel.Props.* module it imports (transitively)"""
    root = LEAN_DIR / "JumanjiModel" / "Props" / f"{pid}.lean"
    seen: List[Path] = []
    todo = [root]
    while todo:
        p = todo.pop()
        if p in seen or not p.exists():
            continue
        seen.append(p)
        for m in re.finditer(r"^import\s+(JumanjiModel\.Props\.[\w.]+)", p.read_text(), re.M):
            todo.append(LEAN_DIR / (m.group(1).replace(".", "/") + ".lean"))
    return seen


def theorems_of(pid: str) -> List[str]:
    """fully qualified names of the property theorems of <pid>: every `theorem` inside a
    `namespace Props.<pid> ... end Props.<pid>` section of Props/<pid>.lean or a Props module it imports"""
    names: List[str] = []
    for p in _props_files(pid):
        txt = _strip_comments(p.read_text())
        for sec in re.finditer(rf"namespace Props\.{pid}\b(.*?)end Props\.{pid}\b", txt, re.S):
            for m in re.finditer(r"^\s*theorem\s+([^\s:({\[]+)", sec.group(1), re.M):
                names.append(f"Props.{pid}.{m.group(1)}")
    return names


def audit(pid: str) -> Dict[str, Any]:
    """#print axioms for every theorem of Props/<pid>.lean; returns {theorem: [axioms]}, bad list"""
    names = theorems_of(pid)
    src = f"import JumanjiModel.Props.{pid}\n" + "".join(f"#print axioms {n}\n" for n in names)
    tmp = LEAN_DIR / f".audit_{pid}_{os.getpid()}.lean"
    tmp.write_text(src)
    try:
        r = subprocess.run(["lake", "env", "lean", str(tmp)], cwd=LEAN_DIR, capture_output=True, text=True, timeout=1200)
    finally:
        tmp.unlink(missing_ok=True)
    out = r.stdout + r.stderr
    res: Dict[str, List[str]] = {}
    for m in re.finditer(r"^'(\S+)' depends on axioms: \[([^\]]*)\]", out, re.S | re.M):
        res[m.group(1)] = [a.strip() for a in m.group(2).replace("\n", " ").split(",") if a.strip()]
    for m in re.finditer(r"^'(\S+)' does not depend on any axioms", out, re.M):
        res[m.group(1)] = []
    bad = [n for n in names if n not in res or not set(res[n]) <= ALLOWED_AXIOMS]
    return {"theorems": names, "axioms": res, "bad": bad, "raw": out if bad else ""}


# --------------------------------------------------------------------------------------
# known findings, violations, evidence
# --------------------------------------------------------------------------------------

def load_known() -> List[Dict[str, Any]]:
    if KNOWN_FINDINGS.exists():
        return json.loads(KNOWN_FINDINGS.read_text()).get("findings", [])
    return []


class Failure:
    """a concrete failing input of a property against the real code"""

    def __init__(self, pid: str, env: str, kind: str, what: str, replay: Dict[str, Any], sig: Optional[Dict[str, Any]] = None):
        self.pid, self.env, self.kind, self.what, self.replay = pid, env, kind, what, replay
        self.sig = dict(sig or {})
        self.sig.update({"env": env, "kind": kind})

    def matches(self, entry: Dict[str, Any]) -> bool:
        if entry.get("status") != "known" or entry.get("property") != self.pid:
            return False
        return all(self.sig.get(k) == v for k, v in entry.get("match", {}).items())


class Ctx:
    """state of one check run"""

    def __init__(self, pid: str, tier: str, seed: int):
        self.pid, self.tier, self.seed = pid, tier, seed
        self.t0 = time.time()
        self.failures: List[Failure] = []          # concrete property failures on the real code
        self.disagreements: List[Dict[str, Any]] = []  # model vs implementation (correspondence)
        self.broken: List[str] = []                # theorems / obligations / translators that no longer check
        self.stats: Dict[str, Any] = {}
        self.samples: List[Any] = []
        self.evaluations = 0
        self.nontrivial: set = set()
        self.assumptions: List[str] = []
        self.coverage_extra: Dict[str, Any] = {}
        self.obligations = 0
        self.discharged = 0
        self.driver: Optional[Driver] = None

    @property
    def quick(self) -> bool:
        return self.tier == "quick"

    def count(self, key: str, n: int = 1) -> None:
        self.stats[key] = self.stats.get(key, 0) + n

    def sample(self, s: Any, cap: int = 6) -> None:
        if len(self.samples) < cap:
            self.samples.append(s)

    def fail(self, env: str, kind: str, what: str, replay: Dict[str, Any], sig: Optional[Dict[str, Any]] = None) -> None:
        # cap per (env, kind) so that a flood of one (possibly known) failure cannot crowd out a different one
        n = sum(1 for f in self.failures if f.env == env and f.kind == kind)
        if n < 40 and len(self.failures) < 2000:
            self.failures.append(Failure(self.pid, env, kind, what, replay, sig))

    def disagree(self, env: str, what: str, case: Dict[str, Any]) -> None:
        if len(self.disagreements) < 200:
            self.disagreements.append({"env": env, "what": what, "case": case})

    def get_driver(self) -> Driver:
        if self.driver is None:
            self.driver = Driver()
        return self.driver


def _jsonable(x: Any) -> Any:
    import numpy as np

    if isinstance(x, dict):
        return {str(k): _jsonable(v) for k, v in x.items()}
    if isinstance(x, (list, tuple)):
        return [_jsonable(v) for v in x]
    if isinstance(x, (np.generic,)):
        return x.item()
    if hasattr(x, "tolist") and hasattr(x, "dtype"):
        return np.asarray(x).tolist()
    if isinstance(x, (str, int, float, bool)) or x is None:
        return x
    return repr(x)


def finish(ctx: Ctx, level: str = "proof", checker_cmd: str = "") -> int:
    """classify, write replay + evidence files, print the verdict lines; returns the exit code"""
    known = load_known()
    exit_code = 0
    printed_known = set()
    nviol = 0
    rdir = REPLAY_DIR / ctx.pid
    unlisted: List[Failure] = []
    for f in ctx.failures:
        ent = next((e for e in known if f.matches(e)), None)
        if ent is not None:
            key = ent.get("id", ent.get("what"))
            if key not in printed_known:
                printed_known.add(key)
                print(f"KNOWN-FINDING: property={ctx.pid} {ent.get('what')}")
        else:
            unlisted.append(f)
    if unlisted:
        rdir.mkdir(parents=True, exist_ok=True)
        seen = set()
        for f in unlisted:
            k = (f.env, f.kind)
            if k in seen:
                continue
            seen.add(k)
            nviol += 1
            path = rdir / f"{ctx.tier}-{ctx.seed}-{len(seen)}.json"
            path.write_text(json.dumps(_jsonable({
                "property": ctx.pid, "env": f.env, "kind": f.kind, "what": f.what, "replay": f.replay,
                "signature": f.sig, "broken_obligations": ctx.broken,
            }), indent=1))
            print(f"VIOLATION property={ctx.pid} replay={path.relative_to(VERIF)}")
        exit_code = 1
    elif ctx.broken or ctx.disagreements:
        # proof obligation or correspondence no longer checks, and no concrete failing input was found
        rdir.mkdir(parents=True, exist_ok=True)
        path = rdir / f"{ctx.tier}-{ctx.seed}-unproved.json"
        path.write_text(json.dumps(_jsonable({
            "property": ctx.pid,
            "no_failing_input_found": True,
            "broken_obligations": ctx.broken,
            "correspondence_disagreements": ctx.disagreements[:20],
            "note": "the property is no longer shown to hold: the named theorem(s)/correspondence do not check "
                    "against the current source; the search over the implementation found no concrete failing input",
        }), indent=1))
        nviol += 1
        print(f"VIOLATION property={ctx.pid} replay={path.relative_to(VERIF)} no-failing-input-found")
        exit_code = 1

    cov: Dict[str, Any] = {
        "obligations": ctx.obligations,
        "discharged": ctx.discharged,
        "checker_cmd": checker_cmd or f"cd lean && lake build JumanjiModel.Props.{ctx.pid} && lake env lean <audit: #print axioms of every theorem in Props/{ctx.pid}.lean>",
        "trusted_base": TRUSTED_BASE,
        "evaluations": ctx.evaluations,
        "distinct_nontrivial": len(ctx.nontrivial),
        "rule": ctx.coverage_extra.pop("rule", "see DESIGN.md section of this property"),
        "samples": ctx.samples or ["(none)"],
        "broken_obligations": ctx.broken,
        "correspondence_disagreements": len(ctx.disagreements),
        "concrete_failures": len(ctx.failures),
        "known_findings_hit": sorted(printed_known),
        "distribution": ctx.stats,
    }
    cov.update(ctx.coverage_extra)
    ev = {
        "property_id": ctx.pid,
        "tier": ctx.tier,
        "seed": ctx.seed,
        "level": level,
        "coverage": _jsonable(cov),
        "assumptions": ctx.assumptions,
        "wall_s": round(time.time() - ctx.t0, 2),
        "violations": nviol,
    }
    EVIDENCE_DIR.mkdir(exist_ok=True)
    (EVIDENCE_DIR / f"{ctx.pid}.json").write_text(json.dumps(ev, indent=1))
    if ctx.driver:
        ctx.driver.close()
    print(f"[{ctx.pid}] tier={ctx.tier} seed={ctx.seed} obligations={ctx.obligations} discharged={ctx.discharged} "
          f"evaluations={ctx.evaluations} nontrivial={len(ctx.nontrivial)} failures={len(ctx.failures)} "
          f"disagreements={len(ctx.disagreements)} broken={len(ctx.broken)} wall={ev['wall_s']}s exit={exit_code}")
    return exit_code
