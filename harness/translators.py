"""Source translators: regenerate lean/JumanjiModel/Gen/*.lean from /repo's working tree (DESIGN.md section 4 step 1).
Each translator returns a list of notes about source shapes it could not recognise (these become broken obligations)."""
from __future__ import annotations

from typing import Callable, Dict, List

TRANSLATORS: Dict[str, List[Callable[[], List[str]]]] = {}


def regenerate(pid: str) -> List[str]:
    notes: List[str] = []
    for fn in TRANSLATORS.get(pid, []):
        notes += fn()
    return notes
