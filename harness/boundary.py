"""Boundary transitions for C02: states one move away from completion, for a range of sizes (completion tests written on float quantities such as a
"fraction correctly placed" behave differently under compilation only for particular sizes)."""
from __future__ import annotations

from typing import Any, Iterator, Tuple

import numpy as np


def cases(quick: bool, rng: np.random.Generator) -> Iterator[Tuple[str, Any, Any, Any]]:
    """(label, env, state, action): every action from a state that is one move from solved"""
    import jax
    import jax.numpy as jnp
    from jumanji.environments import RubiksCube, SlidingTilePuzzle
    from jumanji.environments.logic.rubiks_cube.generator import ScramblingGenerator
    from jumanji.environments.logic.sliding_tile_puzzle.generator import RandomWalkGenerator

    for n in (range(2, 13) if quick else range(2, 17)):
        env = SlidingTilePuzzle(generator=RandomWalkGenerator(grid_size=n, num_random_moves=1), time_limit=50)
        s, _ = jax.jit(env.reset)(jax.random.PRNGKey(int(rng.integers(1 << 30))))
        for a in range(4):
            yield f"SlidingTilePuzzle-{n}:a{a}", env, s, jnp.asarray(a, jnp.int32)
    for n in ((2, 3) if quick else (2, 3, 4, 5)):
        env = RubiksCube(generator=ScramblingGenerator(cube_size=n, num_scrambles_on_reset=1), time_limit=20)
        s, _ = jax.jit(env.reset)(jax.random.PRNGKey(int(rng.integers(1 << 30))))
        nv = np.asarray(env.action_spec.num_values)
        for f in range(int(nv[0])):
            for d in range(int(nv[1])):
                for t in range(int(nv[2])):
                    yield f"RubiksCube-{n}:a{f}{d}{t}", env, s, jnp.asarray([f, d, t], jnp.int32)
