"""Knapsack adapter (exemplar).  Lean: Env/Knapsack/Model.lean, Bridge/Knapsack.lean."""
from __future__ import annotations

import numpy as np

from common import rat, ser, ser_rats
from envlib import Adapter, Config


class A(Adapter):
    name = "knapsack"
    lean = "knapsack"
    serves = {"C01", "C04", "C05", "C06", "C08", "C09", "C10", "C11", "C12"}
    ops = ("state", "step", "judge", "bounds", "instance")
    terminate_on_invalid = True
    max_steps = 60

    def configs(self, tier):
        from jumanji.environments.packing.knapsack import Knapsack
        from jumanji.environments.packing.knapsack.generator import RandomGenerator
        from jumanji.environments.packing.knapsack.reward import DenseReward, SparseReward

        out = []
        sizes = [(5, 1.0), (12, 2.0), (50, 12.5)] if tier == "quick" else [(3, 0.5), (5, 1.0), (12, 2.0), (30, 5.0), (50, 12.5)]
        for n, b in sizes:
            for dense in (True, False):
                def build(n=n, b=b, dense=dense):
                    return Knapsack(generator=RandomGenerator(num_items=n, total_budget=b),
                                    reward_fn=DenseReward() if dense else SparseReward())
                def partner(n=n, b=b, dense=dense):
                    return Knapsack(generator=RandomGenerator(num_items=n, total_budget=b),
                                    reward_fn=SparseReward() if dense else DenseReward())
                out.append(Config(f"knapsack-n{n}-{'dense' if dense else 'sparse'}", build,
                                  {"dense": dense, "f32": True, "budget": rat(b), "tol": rat(1e-4), "num_items": n},
                                  dense=dense, n=n, budget=b, partner=partner))
        # item weights on a coarse grid (multiples of 1/16): an item that fills the bag EXACTLY (weight == remaining budget) is legal
        # by the rules and by the mask; with uniform float weights that boundary is never met
        import jax.numpy as jnp

        class Quantised(RandomGenerator):
            def __call__(self, key):
                s = super().__call__(key)
                return s.replace(weights=jnp.maximum(jnp.ceil(s.weights * 16), 1) / 16)

        for n, b in [(8, 1.5), (12, 2.0)]:
            for dense in (True, False):
                def buildq(n=n, b=b, dense=dense):
                    return Knapsack(generator=Quantised(num_items=n, total_budget=b), reward_fn=DenseReward() if dense else SparseReward())
                def partnerq(n=n, b=b, dense=dense):
                    return Knapsack(generator=Quantised(num_items=n, total_budget=b), reward_fn=SparseReward() if dense else DenseReward())
                out.append(Config(f"knapsack-q16-n{n}-{'dense' if dense else 'sparse'}", buildq,
                                  {"dense": dense, "f32": True, "budget": rat(b), "tol": rat(1e-4), "num_items": n},
                                  dense=dense, n=n, budget=b, partner=partnerq))
        # near-exact fits: weights k/16 + e/2^14 with e in {-1, 0, 1}; all sums are exact in float32, so the budget test is decided
        # without any tolerance (an item 2^-14 heavier than what is left does NOT fit, one 2^-14 lighter does)
        class NearFit(RandomGenerator):
            def __call__(self, key):
                import jax
                s = super().__call__(key)
                e = jax.random.randint(jax.random.fold_in(key, 7), s.weights.shape, -1, 2)
                return s.replace(weights=jnp.clip(jnp.ceil(s.weights * 16), 1, 15) / 16 + e / 16384.0)

        for n, b in [(8, 1.5), (12, 2.0)]:
            for dense in (True, False):
                def buildn(n=n, b=b, dense=dense):
                    return Knapsack(generator=NearFit(num_items=n, total_budget=b), reward_fn=DenseReward() if dense else SparseReward())
                def partnern(n=n, b=b, dense=dense):
                    return Knapsack(generator=NearFit(num_items=n, total_budget=b), reward_fn=SparseReward() if dense else DenseReward())
                out.append(Config(f"knapsack-nearfit-n{n}-{'dense' if dense else 'sparse'}", buildn,
                                  {"dense": dense, "f32": True, "budget": rat(b), "tol": rat(0.0), "num_items": n},
                                  dense=dense, n=n, budget=b, partner=partnern))
        return out

    def ser_state(self, env, s):
        return {"weights": ser(s.weights), "values": ser(s.values), "packed_items": ser(s.packed_items),
                "remaining_budget": ser(s.remaining_budget)}

    def ser_obs(self, env, o):
        return {"weights": ser(o.weights), "values": ser(o.values), "packed_items": ser(o.packed_items),
                "action_mask": ser(o.action_mask)}

    def ser_action(self, env, a):
        return int(a)

    def reaction_invalid(self, env, s, a, s2, ts):
        """did the environment treat `a` as an invalid move?  (a valid action always packs a new item)"""
        return bool(int(ts.step_type) == 2 and np.array_equal(np.asarray(s.packed_items), np.asarray(s2.packed_items)))

    def horizon(self, env):
        return env.num_items

    def completed(self, env, s, ts):
        """the episode ended because no item can be added any more (C06: the final packing must then be maximal)"""
        return not bool(np.any(np.asarray(ts.observation.action_mask)))
