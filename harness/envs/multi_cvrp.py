"""MultiCVRP adapter.  Lean: Env/MultiCVRP/Model.lean, Bridge/MultiCVRP.lean.

The serialised state carries, next to the implementation's own fields, two things the Lean model needs and the
state does not hold:
  * `dist`: the matrix of Euclidean distances between the coordinates, computed here in float32 NumPy exactly as
    `jnp.linalg.norm(a - b, axis=1)` does (the model never takes a square root; `multi_cvrp.instance` checks
    `dist[i][j]**2 ~ |p_i - p_j|**2`);
  * `demands0`: the demands of the instance as generated (the state overwrites a demand with 0 when the customer
    is served, so "load on a route" cannot be recomputed from a later state alone).  They are remembered per
    instance (keyed by the coordinate array) the first time a reset state (step_count == 1) is seen.

Actions: the documented range `[0, num_customers]` per vehicle (docs/environments/multi_cvrp.md).  The declared
`action_spec` has maximum `num_customers + 1`; set VERIF_MULTICVRP_SPEC_MAX=1 to include that value as well
(the environment then sends the vehicle to a non-existent node — see the work-package report)."""
from __future__ import annotations

import os

import numpy as np

from common import rat, ser, ser_rats
from envlib import Adapter, Config

SPEC_MAX = os.environ.get("VERIF_MULTICVRP_SPEC_MAX", "") == "1"


def _custom_generator(n, v, map_max, cap, dmax, max_start, full=False):
    """UniformRandomGenerator with free size parameters (the shipped constructor only accepts the paper's
    scenarios; `manual_settings=True` of the base class raises AttributeError: `_time_window_length` is unset)."""
    import jax.numpy as jnp
    from jumanji.environments.routing.multi_cvrp.generator import UniformRandomGenerator
    from jumanji.environments.routing.multi_cvrp.utils import create_action_mask

    class Custom(UniformRandomGenerator):
        def __init__(self):
            super().__init__(6, 2)
            self._num_customers, self._num_vehicles = n, v
            self._map_max, self._max_capacity, self._customer_demand_max = map_max, cap, dmax
            self._max_start_window = max_start
            self._max_end_window = max_start + self._time_window_length

        def __call__(self, key):
            s = super().__call__(key)
            if not full:
                return s
            # every customer fills a vehicle: each service must be followed by a return to the depot
            demands = jnp.full_like(s.nodes.demands, cap).at[0].set(0)
            s.nodes.demands = demands
            s.action_mask = create_action_mask(demands, s.vehicles.capacities)
            return s

    return Custom()


class A(Adapter):
    name = "multi_cvrp"
    lean = "multi_cvrp"
    float_additions = 20   # rewards and times are float32 sums over up to 5 vehicles x (two squares, a square root, an accumulation)
    serves = {"C01", "C04", "C05", "C06", "C08", "C09", "C10", "C11", "C12"}
    terminate_on_invalid = False
    max_steps = 110
    ops = ("state", "step", "judge", "instance", "bounds", "spec")
    state_fields = ["coordinates", "demands", "win_start", "win_end", "coef_early", "coef_late", "local_times",
                    "positions", "capacities", "distances", "time_penalties", "order", "step_count", "action_mask"]

    def __init__(self):
        self._d0 = {}

    # ---- configurations
    def configs(self, tier):
        from jumanji.environments.routing.multi_cvrp import MultiCVRP
        from jumanji.environments.routing.multi_cvrp.generator import UniformRandomGenerator
        from jumanji.environments.routing.multi_cvrp.reward import DenseReward, SparseReward
        from jumanji.environments.routing.multi_cvrp.utils import max_single_vehicle_distance

        # (tag, n, v, kind, rewards)   kind: "paper" = shipped scenario, else custom (map_max, cap, dmax, max_start, full)
        sizes = [("paper", 6, 3, "paper", (True,)), ("tiny", 3, 2, (5, 6, 4, 4.0, False), (False,)),
                 ("tight", 5, 3, (10, 4, 4, 10.0, False), (True,)), ("full", 4, 2, (10, 5, 5, 10.0, True), (False,)),
                 ("default", 20, 2, "paper", (True,))]
        if tier != "quick":
            sizes = [(t, n, v, k, (True, False)) for (t, n, v, k, _) in sizes]
            sizes += [("one", 1, 2, (10, 3, 3, 10.0, False), (True, False)), ("paper", 6, 2, "paper", (True, False)),
                      ("paper", 20, 3, "paper", (True, False)), ("four", 7, 4, (10, 12, 6, 10.0, False), (True, False)),
                      ("paper", 50, 5, "paper", (True,))]
        out = []
        for tag, n, v, kind, rewards in sizes:
            for dense in rewards:
                def gen(n=n, v=v, kind=kind):
                    if kind == "paper":
                        return UniformRandomGenerator(num_customers=n, num_vehicles=v)
                    return _custom_generator(n, v, *kind)

                def build(gen=gen, dense=dense):
                    g = gen()
                    cls = DenseReward if dense else SparseReward
                    return MultiCVRP(generator=g, reward_fn=cls(g._num_vehicles, g._num_customers, g._map_max))

                def partner(gen=gen, dense=dense):
                    g = gen()
                    cls = SparseReward if dense else DenseReward
                    return MultiCVRP(generator=g, reward_fn=cls(g._num_vehicles, g._num_customers, g._map_max))

                g = gen()
                cfg = {"num_customers": n, "num_vehicles": v, "max_capacity": int(g._max_capacity), "dense": dense,
                       "f32": True, "map_max": rat(float(g._map_max)), "demand_max": int(g._customer_demand_max),
                       "max_start_window": rat(float(g._max_start_window)),
                       "window_length": rat(float(g._time_window_length)),
                       "full_load": kind != "paper" and bool(kind[4]),
                       # read by multi_cvrp.bounds (C01) only: upper ends of the coefficient ranges and an upper bound on
                       # the float32 distance between two points of the map (float32(map_max * sqrt 2))
                       "coef_early_max": rat(float(np.float32(g._early_coef_rand[1]))),
                       "coef_late_max": rat(float(np.float32(g._late_coef_rand[1]))),
                       # read by multi_cvrp.instance when it replays the generator from the raw draw (C10): lower ends
                       "coef_early_min": rat(float(np.float32(g._early_coef_rand[0]))),
                       "coef_late_min": rat(float(np.float32(g._late_coef_rand[0]))),
                       "dist_max": rat(float(np.float32(float(g._map_max) * np.sqrt(2.0)))),
                       # read by multi_cvrp.spec / the membership keys of multi_cvrp.state (C01, wave 4): the declared maximum of
                       # vehicles.local_times, computed as the constructor does (a float32 product with sqrt 2)
                       "max_local_time": rat(float(np.float32(max_single_vehicle_distance(g._map_max, n))))}
                out.append(Config(f"multi_cvrp-{tag}-n{n}-v{v}-c{cfg['max_capacity']}-{'dense' if dense else 'sparse'}",
                                  build, cfg, dense=dense, n=n, v=v, partner=partner,
                                  constant_generator=False))
        return out

    # ---- serialisation
    @staticmethod
    def _dist(coords):
        c = np.asarray(coords, dtype=np.float32)
        d = c[:, None, :] - c[None, :, :]
        return np.sqrt((d * d).sum(-1, dtype=np.float32), dtype=np.float32)

    def _remember(self, s):
        key = np.asarray(s.nodes.coordinates).tobytes()
        if int(s.step_count) == 1:
            self._d0[key] = np.asarray(s.nodes.demands).copy()
            if len(self._d0) > 20000:
                self._d0.pop(next(iter(self._d0)))
        return key

    def ser_state(self, env, s):
        key = self._remember(s)
        if key not in self._d0:
            raise KeyError("multi_cvrp adapter: state of an instance whose reset state was never seen")
        v = s.vehicles
        return {"coordinates": ser(s.nodes.coordinates), "demands": ser(s.nodes.demands),
                "win_start": ser(s.windows.start), "win_end": ser(s.windows.end),
                "coef_early": ser(s.coeffs.early), "coef_late": ser(s.coeffs.late),
                "local_times": ser(v.local_times), "positions": ser(v.positions), "capacities": ser(v.capacities),
                "distances": ser(v.distances), "time_penalties": ser(v.time_penalties), "order": ser(s.order),
                "step_count": int(s.step_count), "action_mask": ser(s.action_mask),
                "dist": ser(self._dist(s.nodes.coordinates)), "demands0": ser(self._d0[key])}

    def ser_obs(self, env, o):
        return {"coordinates": ser(o.nodes.coordinates), "demands": ser(o.nodes.demands),
                "win_start": ser(o.windows.start), "win_end": ser(o.windows.end),
                "coef_early": ser(o.coeffs.early), "coef_late": ser(o.coeffs.late),
                "vehicle_coordinates": ser(o.vehicles.coordinates), "local_times": ser(o.vehicles.local_times),
                "capacities": ser(o.vehicles.capacities), "action_mask": ser(o.action_mask)}

    def ser_action(self, env, a):
        return [int(x) for x in np.asarray(a).reshape(-1)]

    # ---- wave 4 (hook of the C09 / C12 sweeps): declared specs vs the model's obsSpec / actionSpec and the hypothesis DeclOK of the
    # membership theorems on this configuration (`multi_cvrp.spec`), the reset timestep, the observation arrays (`toNValue` layout),
    # membership (`obs_in_spec` vs observation_spec.validate) and the invariant SpecInv on implementation states at reset, along
    # play and on the terminal step (harness/wave4_spec.py; theorems multicvrp_obsSpec_generated, multicvrp_*_obs_valid,
    # multicvrp_specInv_invariant)
    def synthetic(self, ctx, cfg, env, runner, rng, drv):
        import wave4_spec as w4
        from common import DriverError

        w4.check_specs(ctx, self, cfg, env, drv)
        m = drv.batch([dict(op="multi_cvrp.spec", cfg=cfg.cfg)])[0]
        ctx.evaluations += 1
        if isinstance(m, DriverError) or m.get("decl_ok") is not True:
            ctx.fail(self.name, "spec_decl", "observation spec: the hypothesis DeclOK of the membership theorems (customer_demand_max <= "
                     "max_capacity, early coefficient maximum <= late coefficient maximum, 2 N dist_max <= max_local_time) fails on "
                     f"this configuration: {m}", {"env": self.name, "config": cfg.cid})
        n = cfg.meta["n"]
        steps = (2 * n + 2) if n <= 6 else (12 if ctx.quick else 2 * n + 2)
        w4.check_reset_and_obs(ctx, self, cfg, env, runner, rng, drv, 3 if ctx.quick else 6, steps,
                               policies=("masked", "uniform", "masked_high"), extra="spec_inv")

    # ---- C10: replay of the generator from the raw random numbers
    @staticmethod
    def _raw_draw(env, sd):
        """the numbers `UniformRandomGenerator.__call__(PRNGKey(sd))` gets from the PRNG, with the generator's own key
        plumbing: `problem_key, _ = split(key)`, `coord, demand, window, early, late = split(problem_key, 5)`; the unit
        uniforms `jax.random.uniform(k, shape)` are the `u` of `uniform(k, shape, minval, maxval) = max(minval,
        u * (maxval - minval) + minval)` (same key, same shape => same bits)."""
        import jax

        g = env._generator
        n = g._num_customers
        problem_key, _ = jax.random.split(jax.random.PRNGKey(sd))
        ck, dk, wk, ek, lk = jax.random.split(problem_key, 5)
        return {"u_coords": ser(jax.random.uniform(ck, (n + 1, 2))),
                "raw_demands": ser(jax.random.randint(dk, (n + 1,), minval=0, maxval=g._customer_demand_max)),
                "u_win": ser(jax.random.uniform(wk, (n + 1,))), "u_early": ser(jax.random.uniform(ek, (n + 1,))),
                "u_late": ser(jax.random.uniform(lk, (n + 1,)))}

    def instance_extra(self, ctx, cfg, env, runner, rng, drv, seeds):
        """`multi_cvrp.instance` with the raw draw: the implementation's reset state must equal the Lean transliteration
        `generateRaw roundF32 cfg raw` field by field (float32 values exactly), and the raw draw must satisfy `validRaw`
        (the hypothesis of the generator theorems).  Not for the adapter's own "full load" test generator."""
        import jax
        from common import DriverError

        if cfg.cfg.get("full_load"):
            return
        sds = seeds[: (12 if ctx.quick else 80)]
        reqs = []
        for sd in sds:
            s = runner.reset(jax.random.PRNGKey(sd))[0]
            reqs.append(dict(op="multi_cvrp.instance", cfg=cfg.cfg, state=self.ser_state(env, s), raw=self._raw_draw(env, sd)))
        for sd, rq, v in zip(sds, reqs, drv.batch(reqs)):
            ctx.evaluations += 1
            info = {"env": self.name, "config": cfg.cid, "reset_seed": sd, "state": rq["state"], "raw": rq["raw"]}
            if isinstance(v, DriverError) or "generator_replay" not in v or "raw_valid" not in v:
                ctx.disagree(self.name, f"multi_cvrp.instance gives no verdict on the generator replay: {v}",
                             {"config": cfg.cid, "seed": sd})
                continue
            for name in ("raw_valid", "generator_replay"):
                if v[name] is not True:
                    ctx.fail(self.name, f"instance:{name}",
                             f"reset state is not the Lean generator applied to its raw draw ({name}; differs in "
                             f"{v.get('generator_replay_diff')})", info, {"certificate": name})
                ctx.count(f"{self.name}.{name}")

    # ---- joint actions (one node index per vehicle)
    def _num_values(self, env):
        return env._num_customers + (2 if SPEC_MAX else 1)

    def all_actions(self, env):
        k, v = self._num_values(env), env._num_vehicles
        if k ** v > 50000:
            return None
        grids = np.stack(np.meshgrid(*[np.arange(k) for _ in range(v)], indexing="ij"), -1)
        return grids.reshape(-1, v).astype(np.int32)

    def flat_mask(self, env, s, obs):
        return np.asarray(obs.action_mask).reshape(-1)

    def choose_action(self, env, s, ts, policy, rng, t):
        self._remember(s)
        mask = np.asarray(ts.observation.action_mask).astype(bool)       # (V, n + 1)
        nv, k = mask.shape[0], self._num_values(env)
        out = []
        bad_agents = set()
        if policy == "adversarial" and rng.random() < min(0.9, 0.15 + 0.1 * t):
            bad_agents = set(int(i) for i in rng.choice(nv, int(rng.integers(1, nv + 1)), replace=False))
        for i in range(nv):
            good = np.flatnonzero(mask[i])
            cust = good[good > 0]
            if policy == "uniform":
                out.append(int(rng.integers(k)))
            elif policy == "adversarial" and i in bad_agents:
                bad = np.setdiff1d(np.arange(k), good)
                out.append(int(rng.choice(bad)) if len(bad) else int(rng.integers(k)))
            elif policy == "masked_low":
                # the lowest masked-in customer (all vehicles tend to pick the same one), else the depot
                out.append(int(cust[0]) if len(cust) else 0)
            elif policy == "masked_high":
                # lazy fleet: only vehicle 0 works (highest masked-in customer, every other step), the others idle
                # at the depot -> episodes run into the step limit or complete exactly at it
                # (every 2nd or every 3rd step, depending on the instance: period 3 leaves customers unserved at the limit)
                period = 2 + int(np.asarray(s.nodes.coordinates)[0, 0] * 1000) % 2
                out.append(int(cust[-1]) if len(cust) and i == 0 and t % period == 0 else 0)
            else:   # "masked" and the legal part of "adversarial": any masked-in node, customers preferred
                out.append(int(rng.choice(cust)) if len(cust) and rng.random() < 0.8 else int(rng.choice(good)))
        return np.asarray(out, dtype=np.int32)

    def fan_actions(self, env, s, ts, rng, cap=4096):
        """all joint actions when they fit under `cap` in the thorough tier; otherwise (and always for the small caps
        of the quick tier: slicing one case out of a batched JAX result costs milliseconds) a structured sample:
        every single-vehicle deviation (vehicle i -> node a, the others -> depot), every "all vehicles pick node a",
        then random joint actions, half of them with masked-in choices only."""
        acts = self._acts(env)
        limit = cap if cap > 1000 else (40 if cap == 512 else min(cap, 64))
        if acts is not None and len(acts) <= limit:
            return acts
        k, v = self._num_values(env), env._num_vehicles
        mask = np.asarray(ts.observation.action_mask).astype(bool)
        rows = []
        for i in range(v):
            for a in range(1, k):
                r = [0] * v
                r[i] = a
                rows.append(r)
        rows += [[a] * v for a in range(k)]
        if len(rows) > limit * 3 // 4:
            rows = [rows[j] for j in rng.choice(len(rows), limit * 3 // 4, replace=False)]
        while len(rows) < limit:
            if len(rows) % 2:
                rows.append([int(rng.choice(np.flatnonzero(mask[i]))) for i in range(v)])
            else:
                rows.append([int(x) for x in rng.integers(k, size=v)])
        return np.asarray(rows, dtype=np.int32)

    # ---- reactions
    def reaction_invalid(self, env, s, a, s2, ts):
        """per vehicle: it asked for a customer but was sent to the depot"""
        a = np.asarray(a).reshape(-1)
        return [bool(x) for x in ((a != 0) & (np.asarray(s2.vehicles.positions) == 0))]

    def horizon(self, env):
        return 2 * env._num_customers

    def completed(self, env, s, ts):
        return bool((np.asarray(s.nodes.demands) == 0).all() and (np.asarray(s.vehicles.positions) == 0).all())

    def counts_for_return(self, env, s, ts):
        """episodes ended by completion before the step limit (at the limit both reward functions replace the
        reward by `worst_case_remaining_reward`, which is not the objective and differs between them)"""
        return self.completed(env, s, ts) and int(s.step_count) <= 2 * env._num_customers
