"""TSP adapter.  Lean: Env/TSP/Model.lean, Bridge/TSP.lean.

The Lean model does not compute square roots: the state JSON carries the matrix D of pairwise Euclidean
distances, computed here in float32 with jnp.linalg.norm exactly as reward.py does, and cfg carries the float32
penalty -num_cities*sqrt(2)."""
from __future__ import annotations

import numpy as np

from common import rat, ser
from envlib import Adapter, Config


class A(Adapter):
    name = "tsp"
    lean = "tsp"
    serves = {"C01", "C04", "C05", "C06", "C08", "C09", "C10", "C11", "C12"}
    ops = ("state", "step", "judge", "instance", "bounds")
    terminate_on_invalid = True
    max_steps = 60
    state_fields = ["coordinates", "position", "visited_mask", "trajectory", "num_visited"]

    def configs(self, tier):
        import jax.numpy as jnp
        from jumanji.environments.routing.tsp import TSP
        from jumanji.environments.routing.tsp.generator import UniformGenerator
        from jumanji.environments.routing.tsp.reward import DenseReward, SparseReward

        sizes = [20, 5, 1, 2, 11] if tier == "quick" else [20, 5, 1, 2, 3, 11, 50]
        out = []
        for n in sizes:
            pen = float(jnp.array(-n * jnp.sqrt(2), float))
            for dense in (True, False):
                def build(n=n, dense=dense):
                    return TSP(generator=UniformGenerator(num_cities=n),
                               reward_fn=DenseReward() if dense else SparseReward())
                def partner(n=n, dense=dense):
                    return TSP(generator=UniformGenerator(num_cities=n),
                               reward_fn=SparseReward() if dense else DenseReward())
                out.append(Config(f"tsp-n{n}-{'dense' if dense else 'sparse'}", build,
                                  {"n": n, "dense": dense, "penalty": rat(pen), "tol": rat(1e-4)},
                                  n=n, dense=dense, partner=partner))
        return out

    _dcache = (None, None)

    def _D(self, coords):
        import jax.numpy as jnp

        c = np.asarray(coords)
        k = c.tobytes()
        if self._dcache[0] != k:
            cj = jnp.asarray(c)
            d = jnp.linalg.norm(cj[:, None, :] - cj[None, :, :], axis=-1)
            self._dcache = (k, ser(np.asarray(d)))
        return self._dcache[1]

    def ser_state(self, env, s):
        return {"coordinates": ser(s.coordinates), "position": int(s.position), "visited_mask": ser(s.visited_mask),
                "trajectory": ser(s.trajectory), "num_visited": int(s.num_visited), "D": self._D(s.coordinates)}

    def ser_obs(self, env, o):
        return {"coordinates": ser(o.coordinates), "position": int(o.position), "trajectory": ser(o.trajectory),
                "action_mask": ser(o.action_mask)}

    def ser_action(self, env, a):
        return int(a)

    def reaction_invalid(self, env, s, a, s2, ts):
        """an accepted move always visits one more city; a rejected one ends the episode and visits nothing"""
        return bool(int(ts.step_type) == 2 and int(s2.num_visited) == int(s.num_visited))

    def _acts(self, env):
        # not cached: envlib caches the action list by id(env), and ids are reused once an environment is freed
        return np.arange(env.num_cities, dtype=np.int32)

    def horizon(self, env):
        return env.num_cities

    def completed(self, env, s, ts):
        """C06 asks this only for mask-respecting play, where an episode can end in no other way than by completion:
        every terminal state of such play must be a complete tour (an early end is a failure, not an exemption)"""
        return True

    def counts_for_return(self, env, s, ts):
        return int(s.num_visited) == env.num_cities
