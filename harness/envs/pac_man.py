"""PacMan adapter.  Lean: Env/PacMan/Model.lean, Bridge/PacMan.lean.

R model: the ghost policy is a draw.  The draw of a step (`ghost_paths`, `ghost_actions`) is obtained by calling
the implementation's own `ghost_move` on the predecessor state (it is a deterministic function of `state.key`);
the model checks it against the relation "stay / walkable neighbour" and computes everything else itself
(player move, wall test, ghost collisions and resets, pellets, power-ups, score, termination)."""
from __future__ import annotations

import os

import numpy as np

from common import ser
from envlib import Adapter, Config

# 9 x 11, a horizontal tunnel (row 4) and a vertical one (column 5), both with two open ends
SMALL_MAZE = [
    "XXXXX XXXXX",
    "XO S   S OX",
    "X XX   XX X",
    "X T G G T X",
    "     X     ",
    "X T G G T X",
    "X XX   XX X",
    "XO S P S OX",
    "XXXXX XXXXX",
]

# the same maze with the left end of the horizontal tunnel and the top end of the vertical one walled up
# (only used with VERIF_PACMAN_ONESIDED=1: the mask clamps at the border where `step` wraps around)
ONE_SIDED_MAZE = [
    "XXXXXXXXXXX",
    "XO S   S OX",
    "X XX   XX X",
    "X T G G T X",
    "X    X     ",
    "X T G G T X",
    "X XX   XX X",
    "XO S P S OX",
    "XXXXX XXXXX",
]


def _pairs(a):
    return np.asarray(a).astype(np.int64).reshape(-1, 2).tolist()


class A(Adapter):
    name = "pac_man"
    lean = "pac_man"
    serves = {"C01", "C04", "C05", "C07", "C10", "C12"}
    terminate_on_invalid = False
    max_steps = 70
    ops = ("state", "step", "judge", "instance", "bounds", "spec")

    def configs(self, tier):
        from jumanji.environments.routing.pac_man import PacMan
        from jumanji.environments.routing.pac_man.constants import DEFAULT_MAZE
        from jumanji.environments.routing.pac_man.generator import AsciiGenerator

        items = [("default", DEFAULT_MAZE, None), ("small", SMALL_MAZE, None), ("small", SMALL_MAZE, 7)]
        if tier != "quick":
            items += [("default", DEFAULT_MAZE, 3), ("small", SMALL_MAZE, 1)]
        if os.environ.get("VERIF_PACMAN_ONESIDED"):
            items += [("onesided", ONE_SIDED_MAZE, None)]
        out = []
        for (nm, maze, tl) in items:
            def build(maze=maze, tl=tl, nm=nm):
                if nm == "default" and tl is None:
                    return PacMan()              # the shipped environment itself (default generator, default time limit)
                return PacMan(generator=AsciiGenerator(maze), time_limit=tl)
            env = build()
            cj = {"time_limit": int(env.time_limit), "maze": list(env.generator.maze)}
            if nm == "default":
                # Gen/PacManMaze.lean (harness/translators_pacman.py) tabulates the reset of the default environment;
                # `pac_man.instance` compares the generated table and diagram with the real reset state (C10 / C07)
                cj["generated_default"] = True
            out.append(Config(f"pacman-{nm}-t{tl}", build, cj, constant_generator=True, max_instances=3))
        return out

    def ser_state(self, env, s):
        return {"grid": ser(s.grid), "pellets": int(s.pellets), "frightened_state_time": int(s.frightened_state_time),
                "pellet_locations": _pairs(s.pellet_locations), "power_up_locations": _pairs(s.power_up_locations),
                "player_locations": {"x": int(s.player_locations.x), "y": int(s.player_locations.y)},
                "ghost_locations": _pairs(s.ghost_locations), "initial_ghost_positions": _pairs(s.initial_ghost_positions),
                "old_ghost_locations": _pairs(s.old_ghost_locations), "ghost_init_steps": ser(s.ghost_init_steps),
                "ghost_actions": ser(s.ghost_actions), "last_direction": int(s.last_direction), "dead": bool(s.dead),
                "ghost_starts": ser(s.ghost_starts), "step_count": int(s.step_count), "ghost_eaten": ser(s.ghost_eaten),
                "score": int(s.score), "scatter_targets": _pairs(s.scatter_targets)}

    def ser_obs(self, env, o):
        return {"grid": ser(o.grid), "player_locations": {"x": int(o.player_locations.x), "y": int(o.player_locations.y)},
                "ghost_locations": _pairs(o.ghost_locations), "power_up_locations": _pairs(o.power_up_locations),
                "frightened_state_time": int(o.frightened_state_time), "pellet_locations": _pairs(o.pellet_locations),
                "action_mask": ser(o.action_mask), "score": int(o.score)}

    def ser_action(self, env, a):
        return int(a)

    def draw(self, env, s, a, s2, ts):
        import jax
        import jax.numpy as jnp
        from jumanji.environments.routing.pac_man.utils import ghost_move

        if getattr(self, "_gm", (None, None))[0] is not env:
            # `_update_state` stores the action in `last_direction` before the ghosts move (the pink ghost aims at it)
            self._gm = (env, jax.jit(lambda st, act: ghost_move(
                st.replace(last_direction=jnp.array(act, jnp.int32)), env.x_size, env.y_size)[:2]))
        paths, acts = self._gm[1](s, jnp.asarray(a))
        return {"paths": _pairs(paths), "actions": [int(x) for x in np.asarray(acts)]}

    # ---- wave 3 (hook of the C12 sweep; PacMan has no C09 sweep): declared specs vs the model's obsSpec, reset timestep,
    # observation arrays, membership and the invariant SpecInv on implementation states (harness/wave3_routing.py; theorems
    # pacman_obsSpec_generated, pacman_*_obs_valid, pacman_specInv_invariant, pacman_reset_obs_faithful)
    def synthetic(self, ctx, cfg, env, runner, rng, drv):
        import wave3_routing as w3

        w3.check_specs(ctx, self, cfg, env, drv)
        w3.check_reset_and_obs(ctx, self, cfg, env, runner, rng, drv, 2 if ctx.quick else 5, 10 if ctx.quick else 40,
                               policies=("masked", "uniform"), extra="spec_inv")
        self._last_pellet(ctx, cfg, env, runner, rng, drv)

    def _last_pellet(self, ctx, cfg, env, runner, rng, drv):
        """the termination cause "no pellet left" (theorem pacman_last_iff), which play never reaches in a sweep: a reset state
        whose pellet list is cut down to one pellet on the cell the player is about to enter (LAST expected) and to two pellets,
        the second one under the player (MID expected, counter 1); implementation vs the L1 step (observation / timestep / state)"""
        import jax
        import jax.numpy as jnp
        from common import DriverError
        from envlib import diff_json

        s0, ts0 = runner.reset(jax.random.PRNGKey(int(rng.integers(1 << 31))))
        mask = np.asarray(ts0.observation.action_mask).astype(bool)
        legal = np.flatnonzero(mask[:4])
        if not len(legal):
            return
        a = int(legal[0])
        x, y = int(s0.player_locations.x), int(s0.player_locations.y)
        dx, dy = [(-1, 0), (0, -1), (1, 0), (0, 1)][a]
        tx, ty = (x + dx) % int(env.x_size), (y + dy) % int(env.y_size)
        for n in (1, 2):
            pl = np.zeros_like(np.asarray(s0.pellet_locations))
            pl[0] = (ty, tx)                      # (column, row) of the cell the move leads to
            if n == 2:
                pl[1] = (y, x)                    # a pellet under the player: not eaten by moving away
            s = s0.replace(pellet_locations=jnp.asarray(pl, dtype=s0.pellet_locations.dtype),
                           pellets=jnp.asarray(n, dtype=jnp.asarray(s0.pellets).dtype))
            act = jnp.asarray(a, jnp.int32)
            s2, ts2 = runner.step(s, act)
            q = dict(op="pac_man.step", cfg=cfg.cfg, state=self.ser_state(env, s), action=a, draw=self.draw(env, s, act, s2, ts2))
            m = drv.batch([q])[0]
            ctx.evaluations += 1
            info = {"env": self.name, "config": cfg.cid, "pellets": n, "action": a}
            if isinstance(m, DriverError):
                ctx.fail(self.name, "last_pellet", f"observation/timestep check: the model rejects the last-pellet state: {m}", info)
                continue
            impl_state, impl_ts = self.ser_state(env, s2), self.ser_ts(env, ts2)
            d = diff_json({k: m["state"][k] for k in ("pellets", "pellet_locations", "player_locations", "step_count", "dead")},
                          impl_state, path="state")
            d += diff_json(m["ts"], impl_ts, path="ts")
            if d:
                ctx.fail(self.name, "last_pellet", f"observation/timestep after eating with {n} pellet(s) left: the L1 model predicts a "
                         f"different outcome at {d[:4]}", info)
            want = 2 if (n == 1 or int(env.time_limit) <= 1) else 1
            if m["ts"]["step_type"] != want:
                ctx.fail(self.name, "last_pellet", f"observation/timestep: model step type {m['ts']['step_type']} with {n} pellet(s) left, "
                         f"expected {want}", info)
            ctx.nontrivial.add((self.name, "w3lastpellet", cfg.cid, n))

    def consistent_states(self, env, runner, rng, n):
        """states play rarely reaches (C07 / C05 / C09 sweeps): the player relocated to free cells, the free BORDER cells first — the mouths
        of the tunnels, where a move leaves the grid on one side and must re-enter on the other"""
        import jax
        import jax.numpy as jnp
        from jumanji.environments.routing.pac_man.types import Position

        s0, _ = runner.reset(jax.random.PRNGKey(int(rng.integers(1 << 31))))
        g = np.asarray(s0.grid)
        free = [tuple(int(v) for v in c) for c in np.argwhere(g == 1)]
        border = [c for c in free if c[0] in (0, g.shape[0] - 1) or c[1] in (0, g.shape[1] - 1)]
        inner = [c for c in free if c not in border]
        rng.shuffle(border)
        picks = border[:max(2, n // 2)]
        picks += [inner[int(i)] for i in rng.choice(len(inner), size=min(len(inner), max(1, n - len(picks))), replace=False)] if inner else []
        dt = jnp.asarray(s0.player_locations.x).dtype
        return [s0.replace(player_locations=Position(x=jnp.asarray(c[0], dt), y=jnp.asarray(c[1], dt))) for c in picks[:n]]

    def reaction_invalid(self, env, s, a, s2, ts):
        """the move was not carried out: the player is where it was"""
        return bool(int(s2.player_locations.x) == int(s.player_locations.x)
                    and int(s2.player_locations.y) == int(s.player_locations.y))
