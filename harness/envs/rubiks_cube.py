"""RubiksCube adapter.  Lean: Env/RubiksCube/Model.lean, Bridge/RubiksCube.lean.

Generic sweeps: C07 (shape / colour counts / conservation), C08 (sparse return = 1 iff solved), C09 (L1 step),
C10 (`instance` certificates), C11 (time limit), C12 (observation = copy of the state).

The `synthetic` hook (run by the C09 sweep) carries the C17 checks on the implementation:
  * every one of the 18*floor(n/2) moves of the sizes 2..7 on a cube whose stickers are all distinct, through
    `utils.rotate_cube` and through `env.step` with (face, depth, direction) actions, against the L1 transliteration
    and the L2 physical model (`rubiks_cube.play`);
  * the group identities cw.ccw = id, half = cw.cw, cw^4 = id on the implementation's own permutations, and pairs
    of moves (a sample in quick tier, all pairs in thorough tier) against the composed model;
  * flatten_action / unflatten_action mutually inverse on the whole action space and equal to the model's;
  * is_solved on monochrome / almost monochrome cubes against the L2 predicate;
  * the generator replayed on its own scramble actions: state = fold of moves from the solved cube (L1 and L2), and the
    inverse move sequence played through env.step solves it (reward 1, LAST);
  * wave 2 (harness/puzzle_wave2.py): the model's obsSpec / actionSpec / reward / discount specs against the real spec objects,
    generate_value(), the reset timestep, observations as spec-level arrays (shape, dtype, data), observation_spec.validate
    against the model's `valid`, and whole episodes (time_limit + 2 steps, through LAST) against the L1 `run`.
"""
from __future__ import annotations

from typing import Any, Dict, List

import numpy as np

from common import ser, DriverError
from envlib import Adapter, Config, diff_json, tree_index


class A(Adapter):
    name = "rubiks_cube"
    lean = "rubiks_cube"
    serves = {"C01", "C07", "C08", "C09", "C10", "C11", "C12", "C17"}
    has_mask = False
    terminate_on_invalid = False
    max_steps = 30
    episode_cap = 260
    ops = ("state", "step", "judge", "instance", "play", "bounds", "spec", "run")
    state_fields = ["cube", "step_count"]

    def configs(self, tier):
        from jumanji.environments.logic.rubiks_cube import RubiksCube
        from jumanji.environments.logic.rubiks_cube.generator import ScramblingGenerator

        # (cube size, scrambles on reset, time limit)
        rows = [(2, 1, 5), (3, 2, 12), (3, 100, 200), (4, 3, 9), (5, 30, 6)]
        if tier != "quick":
            rows += [(2, 0, 3), (2, 40, 30), (3, 7, 20), (4, 60, 40), (6, 25, 5), (7, 10, 4), (3, 1, 1)]
        out = []
        for n, scr, tl in rows:
            def build(n=n, scr=scr, tl=tl):
                return RubiksCube(generator=ScramblingGenerator(cube_size=n, num_scrambles_on_reset=scr), time_limit=tl)
            out.append(Config(f"rubik-n{n}-s{scr}-t{tl}", build, {"n": n, "time_limit": tl},
                              n=n, scrambles=scr, time_limit=tl, constant_generator=(scr == 0)))
        return out

    # ---- serialisation: a cube travels as 6 flat faces of n*n stickers (row-major).  (Rows of the 2x2x2 cube are
    # length-2 integer lists, which envlib.diff_json would compare as exact rationals [num, den].)
    @staticmethod
    def ser_cube(c):
        a = np.asarray(c)
        return a.reshape(a.shape[0], -1).astype(int).tolist()

    def ser_state(self, env, s):
        return {"cube": self.ser_cube(s.cube), "step_count": int(s.step_count)}

    def ser_obs(self, env, o):
        return {"cube": self.ser_cube(o.cube), "step_count": int(o.step_count)}

    def ser_action(self, env, a):
        return [int(x) for x in np.asarray(a).reshape(-1)]

    # ---- policies: there is no mask; the "masked_*" policies play a solving move when the cube is one move from
    # solved (so that episodes ending by completion, reward 1, occur), otherwise a random move
    def _perms(self, n):
        """the implementation's moves as index tables (new.flat = old.flat[perm]), computed eagerly once per size"""
        import jax.numpy as jnp
        from jumanji.environments.logic.rubiks_cube.utils import generate_all_moves

        cache = self.__dict__.setdefault("_perm_cache", {})
        if n not in cache:
            lab = jnp.asarray(self._label(n))
            cache[n] = np.stack([np.asarray(mv(lab)).reshape(-1) for mv in generate_all_moves(n)])
        return cache[n]

    def _solving(self, env):
        n = int(env.generator.cube_size)
        perms = self._perms(n)

        def fn(cube):
            after = np.asarray(cube).reshape(-1)[perms].reshape(len(perms), 6, n * n)
            return (after.max(-1) == after.min(-1)).all(-1)
        return fn

    def choose_action(self, env, s, ts, policy, rng, t):
        acts = self._acts(env)
        if policy in ("masked", "masked_low", "masked_high") and rng.random() < 0.8:
            hit = np.flatnonzero(np.asarray(self._solving(env)(s.cube)))
            if len(hit):
                # flat index i of rotate_cube == row i of all_actions (face-major, then depth, then amount)
                return acts[int(hit[0] if policy != "masked_high" else hit[-1])]
        return acts[int(rng.integers(len(acts)))]

    def horizon(self, env):
        return int(env.time_limit)

    def completed(self, env, s, ts):
        c = np.asarray(s.cube)
        return bool((c.max(axis=(1, 2)) == c.min(axis=(1, 2))).all())

    def counts_for_return(self, env, s, ts):
        return True   # sparse: the return of an episode is 1 iff it ended on a solved cube

    # ---------------------------------------------------------------------------------------------------
    # C17 (hook of the C09 sweep)
    # ---------------------------------------------------------------------------------------------------
    def synthetic(self, ctx, cfg, env, runner, rng, drv):
        n = cfg.meta["n"]
        done = self.__dict__.setdefault("_synthetic_done", set())
        if ("sizes", ctx.seed, ctx.tier) not in done:
            done.add(("sizes", ctx.seed, ctx.tier))
            for m in range(2, 8):
                self._moves_of_size(ctx, m, rng, drv)
                self._encodings(ctx, m, drv)
            self._is_solved(ctx, rng, drv)
        self._env_level(ctx, cfg, env, runner, rng, drv)
        self._outside_action_space(ctx, cfg, env, runner, rng, drv)
        self._law_judges(ctx, cfg, env, runner, rng, drv)
        if cfg.meta["scrambles"] <= 40:
            self._scramble_replay(ctx, cfg, env, runner, rng, drv, 3 if ctx.quick else 12)
        # wave 2 (audit r3): declared specs vs the model's obsSpec / actionSpec, reset timestep, observation arrays, whole episodes
        import puzzle_wave2 as w2

        w2.check_specs(ctx, self, cfg, env, drv)
        w2.check_reset_and_obs(ctx, self, cfg, env, runner, rng, drv, 2 if ctx.quick else 6, 3 if ctx.quick else 8)
        w2.check_run(ctx, self, cfg, env, runner, rng, drv, self.completed)

    @staticmethod
    def _label(n):
        return np.arange(6 * n * n, dtype=np.int32).reshape(6, n, n)

    @staticmethod
    def _all_actions(n):
        return [[f, d, a] for f in range(6) for d in range(n // 2) for a in range(3)]

    def _play(self, drv, n, cube, actions, tl=1000):
        return drv.batch([dict(op="rubiks_cube.play", cfg={"n": n, "time_limit": tl}, cube=self.ser_cube(cube), actions=acts)
                          for acts in actions])

    def _moves_of_size(self, ctx, n, rng, drv):
        """utils.rotate_cube on the all-distinct cube: every move vs L1 and L2; identities; pairs"""
        import jax.numpy as jnp
        from jumanji.environments.logic.rubiks_cube.utils import generate_all_moves

        lab = self._label(n)
        acts = self._all_actions(n)
        moves = generate_all_moves(n)     # run eagerly (rotate_cube's lax.switch over them is covered by _env_level)
        if len(moves) != len(acts):
            ctx.fail(self.name, "move_count", f"size {n}: {len(moves)} moves, expected {len(acts)}", {"env": self.name, "cube_size": n})
            return
        outs = [p.reshape(6, n, n) for p in self._perms(n)]
        reps = self._play(drv, n, lab, [[a] for a in acts])
        for i, (a, out, m) in enumerate(zip(acts, outs, reps)):
            ctx.evaluations += 1
            info = {"env": self.name, "cube_size": n, "action": a, "flat": i, "cube": "arange(6 n n).reshape(6,n,n)"}
            if isinstance(m, DriverError):
                ctx.disagree(self.name, f"play op rejects a move: {m}", info)
                continue
            ctx.nontrivial.add((self.name, "move", n, i))
            if m["flat"] != [i]:
                ctx.fail(self.name, "flat_index", f"move {a} is number {i} of generate_all_moves but flatten_action gives {m['flat']}", info)
            if m["l2"] != self.ser_cube(out):
                ctx.fail(self.name, "move_vs_physical", f"size {n}: move {a} (flat {i}) is not the physical turn of that layer", dict(info, impl=out.tolist(), physical=m["l2"]))
            if m["l1"] != self.ser_cube(out):
                ctx.disagree(self.name, f"size {n}: L1 move {a} != implementation", dict(info, impl=out.tolist(), l1=m["l1"]))
            if sorted(out.reshape(-1).tolist()) != list(range(6 * n * n)):
                ctx.fail(self.name, "not_a_permutation", f"size {n}: move {a} does not permute the stickers", info)
        # identities on the implementation's own permutations: new = old[perm]
        perms = [o.reshape(-1) for o in outs]
        ident = np.arange(6 * n * n)
        for f in range(6):
            for d in range(n // 2):
                b = (f * (n // 2) + d) * 3
                cw, ccw, half = perms[b], perms[b + 1], perms[b + 2]
                ctx.evaluations += 3
                info = {"env": self.name, "cube_size": n, "face": f, "depth": d}
                if not (np.array_equal(cw[ccw], ident) and np.array_equal(ccw[cw], ident)):
                    ctx.fail(self.name, "cw_ccw", f"size {n} face {f} depth {d}: clockwise then anticlockwise is not the identity", info)
                if not np.array_equal(cw[cw], half):
                    ctx.fail(self.name, "half_turn", f"size {n} face {f} depth {d}: half turn != two clockwise turns", info)
                if not np.array_equal(cw[cw][cw][cw], ident):
                    ctx.fail(self.name, "cw_four", f"size {n} face {f} depth {d}: four clockwise turns are not the identity", info)
        # pairs of moves through the implementation (second move applied to the result of the first)
        pairs = [(i, j) for i in range(len(acts)) for j in range(len(acts))]
        if ctx.quick:
            pairs = [pairs[int(k)] for k in rng.choice(len(pairs), min(len(pairs), 40), replace=False)]
        seconds = [np.asarray(moves[j](jnp.asarray(outs[i]))) for i, j in pairs]
        reps = self._play(drv, n, lab, [[acts[i], acts[j]] for i, j in pairs])
        for (i, j), out, m in zip(pairs, seconds, reps):
            ctx.evaluations += 1
            info = {"env": self.name, "cube_size": n, "actions": [acts[i], acts[j]]}
            if isinstance(m, DriverError):
                ctx.disagree(self.name, f"play op rejects a pair: {m}", info)
                continue
            if m["l2"] != self.ser_cube(out):
                ctx.fail(self.name, "pair_vs_physical", f"size {n}: moves {acts[i]} then {acts[j]} differ from the physical turns", info)
            if m["l1"] != self.ser_cube(out):
                ctx.disagree(self.name, f"size {n}: L1 pair != implementation", info)
            if not m["undo_ok"]:
                ctx.disagree(self.name, "L2 inverse sequence does not undo the pair", info)

    def _encodings(self, ctx, n, drv):
        import jax.numpy as jnp
        from jumanji.environments.logic.rubiks_cube.utils import flatten_action, unflatten_action

        acts = self._all_actions(n)
        flats = [int(flatten_action(jnp.asarray(a, jnp.int32), n)) for a in acts]
        back = [[int(x) for x in np.asarray(unflatten_action(jnp.int32(i), n))] for i in range(len(acts))]
        ctx.evaluations += 2 * len(acts)
        info = {"env": self.name, "cube_size": n}
        if flats != list(range(len(acts))):
            ctx.fail(self.name, "flatten", f"size {n}: flatten_action is not the position in the action space", dict(info, flats=flats))
        if back != acts:
            ctx.fail(self.name, "unflatten", f"size {n}: unflatten_action(flatten_action(a)) != a", dict(info, back=back))
        m = self._play(drv, n, self._label(n), [acts])[0]
        if isinstance(m, DriverError):
            ctx.disagree(self.name, f"play op rejects the action list: {m}", info)
        elif m["flat"] != flats or not m["unflat_ok"]:
            ctx.disagree(self.name, "model flatten/unflatten != implementation", info)

    def _is_solved(self, ctx, rng, drv):
        """is_solved accepts exactly the cubes whose faces are of one colour"""
        import jax.numpy as jnp
        from jumanji.environments.logic.rubiks_cube.utils import is_solved, make_solved_cube

        cases = []
        for n in (2, 3, 4, 5):
            goal = np.asarray(make_solved_cube(n))
            cases.append((n, goal))
            cases.append((n, goal[rng.permutation(6)]))              # another assignment of colours to faces
            cases.append((n, np.zeros_like(goal)))                   # one colour everywhere
            for _ in range(6 if ctx.quick else 30):
                c = goal.copy()
                f, r, k = int(rng.integers(6)), int(rng.integers(n)), int(rng.integers(n))
                c[f, r, k] = (c[f, r, k] + int(rng.integers(1, 6))) % 6
                cases.append((n, c))
            c = goal.copy(); c[0, 0, 0] = 5; c[5, n - 1, n - 1] = 0   # extreme values at the corners of the array
            cases.append((n, c))
            stripes = np.broadcast_to((np.arange(n) % 6)[None, :, None], (6, n, n)).copy()
            cases.append((n, stripes))                               # every row of one colour, faces not
            cases.append((n, stripes.transpose(0, 2, 1).copy()))     # every column of one colour
            c = goal.copy(); c[3] = (np.arange(n * n).reshape(n, n) % 2) + 1   # one face of two colours, same max/min as others
            cases.append((n, c))
            c = np.zeros_like(goal); c[:, 0, 0] = 1                   # all faces alike but not of one colour
            cases.append((n, c))
        reps = drv.batch([dict(op="rubiks_cube.state", cfg={"n": n, "time_limit": 10}, state={"cube": self.ser_cube(c), "step_count": 0})
                          for n, c in cases])
        for (n, c), m in zip(cases, reps):
            ctx.evaluations += 1
            impl = bool(is_solved(jnp.asarray(c, jnp.int8)))
            mono = bool((c.reshape(6, -1) == c[:, :1, 0]).all())
            info = {"env": self.name, "cube_size": n, "cube": c.tolist()}
            if isinstance(m, DriverError):
                ctx.disagree(self.name, f"state op rejects a cube: {m}", info)
                continue
            if m["solved"] != mono:
                ctx.disagree(self.name, "L2 Monochrome != direct NumPy test", info)
            if impl != m["solved"]:
                ctx.fail(self.name, "solved_test", f"is_solved = {impl} but every-face-of-one-colour = {m['solved']}", info)
            if m["solved_l1"] != impl:
                ctx.disagree(self.name, "L1 isSolved != implementation", info)

    def _env_level(self, ctx, cfg, env, runner, rng, drv):
        """env.step with (face, depth, direction) actions on a state whose cube has all-distinct stickers"""
        import jax
        import jax.numpy as jnp

        n = cfg.meta["n"]
        template, _ = runner.reset(jax.random.PRNGKey(0))
        lab = self._label(n)
        if 6 * n * n <= 256:
            lab = (lab - 128).astype(np.int8)      # all distinct and of the state's own dtype (no retrace)
        s = template.replace(cube=jnp.asarray(lab))
        acts = self._acts(env)
        s2s, tss = runner.fan(s, acts)
        reps = self._play(drv, n, lab, [[[int(x) for x in a]] for a in acts], cfg.meta["time_limit"])
        for i, (a, m) in enumerate(zip(acts, reps)):
            ctx.evaluations += 1
            out = np.asarray(tree_index(s2s, i).cube)
            obs = np.asarray(tree_index(tss, i).observation.cube)
            info = {"env": self.name, "config": cfg.cid, "action": [int(x) for x in a], "cube": "arange(6 n n).reshape(6,n,n)"}
            if isinstance(m, DriverError):
                ctx.disagree(self.name, f"play op rejects an env-level move: {m}", info)
                continue
            if m["l2"] != self.ser_cube(out):
                ctx.fail(self.name, "step_vs_physical", f"env.step with action {info['action']} is not the physical turn", dict(info, impl=out.tolist(), physical=m["l2"]))
            if m["l1"] != self.ser_cube(out):
                ctx.disagree(self.name, "L1 env-level move != implementation", info)
            if not np.array_equal(out, obs):
                ctx.fail(self.name, "obs_vs_state", "observation cube differs from the state cube", info)

    def _outside_action_space(self, ctx, cfg, env, runner, rng, drv):
        """actions outside the action spec are not covered by any rule (lax.switch clamps the flat index, components
        alias); only the L1 transliteration is compared here (disagreements, never failures)"""
        import jax

        h = cfg.meta["n"] // 2
        s, _ = runner.reset(jax.random.PRNGKey(int(rng.integers(1 << 31))))
        weird = np.asarray([[6, 0, 0], [-1, 0, 0], [0, h, 0], [5, h - 1, 3], [2, -1, 1], [7, 3, 5], [0, 0, -1]], np.int32)
        outs = [runner.step(s, a) for a in weird]      # (the fan-out would be re-traced for this batch size)
        js = self.ser_state(env, s)
        reps = drv.batch([dict(op="rubiks_cube.step", cfg=cfg.cfg, state=js, action=self.ser_action(env, a)) for a in weird])
        for i, (a, m) in enumerate(zip(weird, reps)):
            ctx.evaluations += 1
            info = {"env": self.name, "config": cfg.cid, "state": js, "action": self.ser_action(env, a)}
            if isinstance(m, DriverError):
                ctx.disagree(self.name, f"step op rejects an out-of-space action: {m}", info)
                continue
            d = diff_json(m["state"], self.ser_state(env, outs[i][0]), path="state")
            d += diff_json({k: m["ts"][k] for k in ("step_type", "reward", "discount")}, self.ser_ts(env, outs[i][1]), path="ts")
            if d or m["valid"]:
                ctx.disagree(self.name, f"out-of-space action: L1 model != implementation at {d[:4]}", info)

    JUDGE_KEYS = ["conserved", "move_ok", "rules_ok", "solved_ok"]

    def _law_judges(self, ctx, cfg, env, runner, rng, drv):
        """Lean predicates (conservation, physical move, rule-level step, solved/LAST) on implementation transitions:
        all actions from a few states of a random walk, including states one move from solved"""
        import envprops
        import jax

        acts = self._acts(env)
        cases = []
        s, ts = runner.reset(jax.random.PRNGKey(int(rng.integers(1 << 31))))
        for t in range(3 if ctx.quick else 12):
            s2s, tss = runner.fan(s, acts)
            rec = {"state": s, "seed": None, "t": t, "policy": "law-walk"}
            for i in range(len(acts)):
                cases.append((rec, acts[i], tree_index(s2s, i), tree_index(tss, i)))
            a = self.choose_action(env, s, ts, "masked" if t % 2 else "uniform", rng, t)
            s, ts = runner.step(s, a)
        envprops._compare_step(ctx, self, cfg, env, cases, drv, "law-walk", as_failure=True)
        envprops._judge(ctx, self, cfg, env, cases, drv, self.JUDGE_KEYS, "law")

    def _scramble_replay(self, ctx, cfg, env, runner, rng, drv, keys):
        import jax
        import jax.numpy as jnp
        from jumanji.environments.logic.rubiks_cube.utils import make_solved_cube, unflatten_action

        n = cfg.meta["n"]
        for _ in range(keys):
            seed = int(rng.integers(1 << 31))
            key = jax.random.PRNGKey(seed)
            s, ts0 = runner.reset(key)
            # Generator.__call__: key, scramble_key = split(key); the actions are drawn from scramble_key
            _, scramble_key = jax.random.split(key)
            flats = np.asarray(env.generator.generate_actions_for_scramble(scramble_key)).astype(int).tolist()
            acts = [[int(x) for x in np.asarray(unflatten_action(jnp.int32(f), n))] for f in flats]
            ctx.evaluations += 1
            info = {"env": self.name, "config": cfg.cid, "reset_seed": seed, "scramble": acts}
            if len(flats) != cfg.meta["scrambles"] or any(not (0 <= f < 18 * (n // 2)) for f in flats):
                ctx.fail(self.name, "scramble_actions", "the scramble draws actions outside the action space or the wrong number of them", info)
                continue
            m = self._play(drv, n, np.asarray(make_solved_cube(n)), [acts], cfg.meta["time_limit"])[0]
            if isinstance(m, DriverError):
                ctx.disagree(self.name, f"play op rejects the scramble: {m}", info)
                continue
            ctx.nontrivial.add((self.name, "scramble", seed))
            cube = self.ser_cube(s.cube)
            if m["solved_cube"] != m["goal"] or m["goal"] != self.ser_cube(make_solved_cube(n)):
                ctx.fail(self.name, "goal", "make_solved_cube differs from the goal", info)
            if m["l2"] != cube:
                ctx.fail(self.name, "generator_vs_scramble", "reset cube is not the fold of the physical moves of its scramble over the solved cube", dict(info, impl=cube, model=m["l2"]))
            if m["l1"] != cube:
                ctx.disagree(self.name, "L1 scramble != generator output", info)
            if not m["undo_ok"]:
                ctx.disagree(self.name, "L2 inverse sequence does not undo the scramble", info)
            # solvable: play the inverse sequence through the implementation
            inv = [[f, d, {0: 1, 1: 0, 2: 2}[a]] for f, d, a in reversed(acts)]
            st, last = s, ts0
            solved_at = None
            for t, a in enumerate(inv):
                if int(st.step_count) >= cfg.meta["time_limit"] + 50:
                    break
                st, last = runner.step(st, np.asarray(a, np.int32))
                if self.completed(env, st, last):
                    solved_at = t
                    if float(last.reward) != 1.0 or int(last.step_type) != 2:
                        ctx.fail(self.name, "solved_reward", "solved cube reached but reward != 1 or step type != LAST", dict(info, undo=inv, t=t))
                    break
            if acts and solved_at is None and not self.completed(env, s, ts0):
                ctx.fail(self.name, "not_solvable_by_inverse", "playing the inverse scramble through env.step does not solve the reset cube", dict(info, undo=inv))
