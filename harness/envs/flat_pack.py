"""FlatPack adapter.  Lean: Env/FlatPack/Model.lean, Bridge/FlatPack.lean.

C10: `flat_pack.instance` checks on every generated instance that the blocks are well formed, that the reset state is
fresh (empty grid, mask = every legal action) and — by exact-cover search inside Lean — that the blocks tile the grid
(`blocks_tile_grid`: bounding boxes anywhere inside the grid).  `solvable_by_actions` is the stronger certificate
"the grid can be filled with the poses of the action space" (the 3 x 3 box of a block, empty margin included, has to
stay inside the grid); it is requested where `by_actions` is set in the configuration (small instances, see
SOLVABLE_BY_ACTIONS) and FAILS on the unchanged tree for the random generator: a genuine finding."""
from __future__ import annotations

import os

import numpy as np

from common import ser
from envlib import Adapter, Config

# GENUINE FINDING (C10): the random generator crops every block to the top-left corner of its 3 x 3 box
# (`_crop_nonzero`), while an action places the whole 3 x 3 box inside the grid.  A block that is only two cells wide
# (or high) and belongs to the last block column (or row) can therefore not be put back where it came from unless
# a rotation happens to help, and a large share of the generated instances cannot be completed through the action
# space at all (e.g. RandomFlatPackGenerator(2, 2), PRNGKey(6): best reachable return 0.8).  The certificate is
# evaluated on the small random configurations; VERIF_FLATPACK_BY_ACTIONS=0 switches it off.
SOLVABLE_BY_ACTIONS = os.environ.get("VERIF_FLATPACK_BY_ACTIONS", "1") == "1"


class A(Adapter):
    name = "flat_pack"
    lean = "flat_pack"
    serves = {"C01", "C04", "C05", "C06", "C08", "C09", "C10", "C11", "C12"}
    terminate_on_invalid = False
    max_steps = 30
    ops = ("state", "step", "judge", "instance", "bounds")

    quick = True

    def configs(self, tier):
        self.quick = tier == "quick"
        from jumanji.environments.packing.flat_pack import FlatPack
        from jumanji.environments.packing.flat_pack.generator import (
            RandomFlatPackGenerator, ToyFlatPackGeneratorNoRotation, ToyFlatPackGeneratorWithRotation)
        from jumanji.environments.packing.flat_pack.reward import BlockDenseReward, CellDenseReward

        # (generator name, row blocks, col blocks, cell dense)
        rows = [("random", 2, 2, False), ("random", 2, 3, True), ("random", 1, 1, False), ("random", 3, 3, True),
                ("toy_rot", 2, 2, False)]
        if tier != "quick":
            rows += [("random", 3, 2, False), ("toy_norot", 2, 2, True), ("random", 1, 3, True), ("random", 2, 2, True),
                     ("random", 3, 4, False), ("random", 4, 4, True)]
        out = []
        # generator-only configurations (C10): more rows of blocks than columns and vice versa, >= 3 rows of blocks
        c10_only = [("random", 3, 2, False), ("random", 2, 4, False)]
        rows += [r for r in c10_only if r not in rows]
        for gen, rb, cb, cell in rows:
            def build(gen=gen, rb=rb, cb=cb, cell=cell):
                g = {"random": lambda: RandomFlatPackGenerator(rb, cb), "toy_rot": ToyFlatPackGeneratorWithRotation,
                     "toy_norot": ToyFlatPackGeneratorNoRotation}[gen]()
                return FlatPack(generator=g, reward_fn=CellDenseReward() if cell else BlockDenseReward())
            R, C = 2 * rb + 1, 2 * cb + 1
            # (the exhaustive search through the action space is exponential in the number of blocks: 9 blocks took more than 50 minutes in the
            # thorough tier, so both tiers stop at 6 blocks; the larger configurations keep every other certificate)
            by_actions = SOLVABLE_BY_ACTIONS and rb * cb <= 6
            out.append(Config(f"flatpack-{gen}-{rb}x{cb}-{'cell' if cell else 'block'}", build,
                              {"num_rows": R, "num_cols": C, "num_blocks": rb * cb, "cell_dense": cell, "f32": True,
                               "by_actions": by_actions},
                              gen=gen, row_blocks=rb, col_blocks=cb, cell_dense=cell, partner=None,
                              constant_generator=(gen != "random" or rb * cb == 1),
                              # the search through the action space takes seconds per instance from 6 blocks on: the number of instances is capped
                              **({"max_instances": 48} if by_actions and rb * cb >= 6 else {"max_instances": 24} if rb * cb >= 9 else {}),
                              **({"only": {"C10"}} if (gen, rb, cb, cell) in c10_only and tier == "quick" else {})))
        return out

    # ---- serialisation
    def ser_state(self, env, s):
        return {"grid": ser(s.grid), "num_blocks": int(s.num_blocks), "blocks": ser(s.blocks),
                "action_mask": ser(s.action_mask), "placed_blocks": ser(s.placed_blocks),
                "step_count": int(s.step_count)}

    def ser_obs(self, env, o):
        return {"grid": ser(o.grid), "blocks": ser(o.blocks), "action_mask": ser(o.action_mask)}

    def ser_action(self, env, a):
        return [int(x) for x in np.asarray(a).reshape(-1)]

    def reaction_invalid(self, env, s, a, s2, ts):
        """the environment ignored the placement: no new block is marked as placed"""
        return bool(np.array_equal(np.asarray(s.placed_blocks), np.asarray(s2.placed_blocks)))

    def fan_actions(self, env, s, ts, rng, cap=4096):
        """a sample of the action space that always contains the masked-in actions' neighbourhood: up to `lim`
        actions, half of them legal ones when there are that many"""
        acts = self._acts(env)
        lim = min(cap, 64 if self.quick else 1024)
        if len(acts) <= lim:
            return acts
        mask = np.asarray(s.action_mask).reshape(-1)
        good, bad = np.flatnonzero(mask), np.flatnonzero(~mask)
        k = min(len(good), lim // 2)
        pick = np.concatenate([rng.choice(good, k, replace=False) if k else good[:0],
                               rng.choice(bad, min(len(bad), lim - k), replace=False)])
        return acts[np.sort(pick).astype(int)]

    def horizon(self, env):
        return int(env.num_blocks)

    def completed(self, env, s, ts):
        return bool(np.asarray(s.placed_blocks).all())

    def counts_for_return(self, env, s, ts):
        return True    # covered fraction / placed fraction of the final state, however the episode went
