"""Maze adapter.  Lean: Env/Maze/{Model,MazeGen}.lean, Bridge/Maze.lean."""
from __future__ import annotations

import numpy as np

from common import ser
from envlib import Adapter, Config


class A(Adapter):
    name = "maze"
    lean = "maze"
    serves = {"C01", "C04", "C05", "C07", "C08", "C09", "C10", "C11", "C12"}
    terminate_on_invalid = False
    max_steps = 60
    ops = ("state", "step", "judge", "instance", "bounds", "spec")
    state_fields = ["agent_position", "target_position", "walls", "action_mask", "step_count"]

    def configs(self, tier):
        from jumanji.environments.routing.maze import Maze
        from jumanji.environments.routing.maze.generator import RandomGenerator, ToyGenerator

        # (rows, cols, time_limit or None)
        sizes = [(10, 10, None), (5, 11, None), (11, 5, None), (6, 7, 7), (3, 3, 3), (2, 5, 1)]
        if tier != "quick":
            sizes += [(4, 4, 2), (7, 6, None), (15, 21, 50), (21, 8, None), (2, 2, None), (9, 3, 200)]
        out = []
        for nr, nc, tl in sizes:
            def build(nr=nr, nc=nc, tl=tl):
                return Maze(generator=RandomGenerator(num_rows=nr, num_cols=nc), time_limit=tl)
            out.append(Config(f"maze-{nr}x{nc}-t{tl or 'default'}", build,
                              {"num_rows": nr, "num_cols": nc, "time_limit": tl or nr * nc, "random_gen": True},
                              rows=nr, cols=nc))
        for tl in ([None] if tier == "quick" else [None, 4]):
            def build_toy(tl=tl):
                return Maze(generator=ToyGenerator(), time_limit=tl)
            out.append(Config(f"maze-toy-t{tl or 'default'}", build_toy,
                              {"num_rows": 5, "num_cols": 5, "time_limit": tl or 25, "random_gen": False},
                              rows=5, cols=5, constant_generator=True, max_instances=4))
        return out

    @staticmethod
    def _pos(p):
        return [int(p.row), int(p.col)]

    def ser_state(self, env, s):
        return {"agent_position": self._pos(s.agent_position), "target_position": self._pos(s.target_position),
                "walls": ser(s.walls), "action_mask": ser(s.action_mask), "step_count": int(s.step_count)}

    def ser_obs(self, env, o):
        return {"agent_position": self._pos(o.agent_position), "target_position": self._pos(o.target_position),
                "walls": ser(o.walls), "action_mask": ser(o.action_mask), "step_count": int(o.step_count)}

    def ser_action(self, env, a):
        return int(a)

    def reaction_invalid(self, env, s, a, s2, ts):
        """the environment treated `a` as a no-op: a move that is carried out always changes the position"""
        return bool(int(s.agent_position.row) == int(s2.agent_position.row)
                    and int(s.agent_position.col) == int(s2.agent_position.col))

    # ---- wave 4 (hook of the C09 / C12 sweeps): declared specs vs the model's obsSpec (all seven leaves, every configuration),
    # reset timestep, observation arrays (toNValue layout), (obsSpec cfg).valid vs observation_spec.validate and the invariant
    # SpecInv on implementation states at reset, along play and on the terminal step (harness/wave3_routing.py; theorems
    # maze_obsSpec_generated, maze_*_obs_valid, maze_specInv_invariant, maze_obs_valid_along)
    def synthetic(self, ctx, cfg, env, runner, rng, drv):
        import wave3_routing as w3

        w3.check_specs(ctx, self, cfg, env, drv)
        w3.check_reset_and_obs(ctx, self, cfg, env, runner, rng, drv, 2 if ctx.quick else 6, 12 if ctx.quick else 60,
                               policies=("uniform", "masked"), extra="spec_inv")

    def horizon(self, env):
        return int(env.time_limit)

    def completed(self, env, s, ts):
        return bool(int(s.agent_position.row) == int(s.target_position.row)
                    and int(s.agent_position.col) == int(s.target_position.col))

    def counts_for_return(self, env, s, ts):
        return True
