"""Game2048 adapter.  Lean: Env/Game2048/Model.lean, Bridge/Game2048.lean.

The random tile of a step is read off the successor board: the cell in which it differs from the board slid
by the rules (an independent NumPy slide below, not jumanji's `move`).  `synthetic` feeds whole families of
rows through jumanji's `move_left_row` / `can_move_left_row`, the L1 loops and the L2 spec (op game2048.row)."""
from __future__ import annotations

import itertools

import numpy as np

from common import DriverError, ser
from envlib import Adapter, Config


def slide_row(row):
    """the rule: drop the gaps, merge equal neighbours once starting at the wall, pad with zeros"""
    t = [int(x) for x in row if x != 0]
    out, i = [], 0
    while i < len(t):
        if i + 1 < len(t) and t[i] == t[i + 1]:
            out.append(t[i] + 1)
            i += 2
        else:
            out.append(t[i])
            i += 1
    return out + [0] * (len(row) - len(out))


def slide_board(board, a):
    """actions 0..3 = up, right, down, left"""
    b = np.asarray(board)
    k = {0: 1, 1: 2, 2: 3, 3: 0}[int(a)]          # rotate so that the move is towards the left
    r = np.rot90(b, k)
    r = np.array([slide_row(x) for x in r], dtype=b.dtype).reshape(r.shape)
    return np.rot90(r, -k)


def tile_sum(board):
    b = np.asarray(board).astype(np.int64)
    return int(np.where(b > 0, 2 ** b, 0).sum())


class A(Adapter):
    name = "game2048"
    lean = "game2048"
    serves = {"C01", "C04", "C05", "C07", "C08", "C09", "C10", "C12"}
    terminate_on_invalid = False
    max_steps = 60
    episode_cap = 1500
    ops = ("state", "step", "judge", "row", "bounds", "instance", "spec")
    state_fields = ["board", "step_count", "action_mask", "score"]

    def configs(self, tier):
        from jumanji.environments.logic.game_2048 import Game2048

        sizes = [4, 2, 3, 5] if tier == "quick" else [4, 1, 2, 3, 5, 6]
        out = []
        for n in sizes:
            def build(n=n):
                return Game2048(board_size=n)
            out.append(Config(f"game2048-n{n}", build, {"n": n}, n=n))
        return out

    def ser_state(self, env, s):
        return {"board": ser(s.board), "step_count": int(s.step_count), "action_mask": ser(s.action_mask),
                "score": ser(np.asarray(s.score, dtype=np.float64))}

    def ser_obs(self, env, o):
        return {"board": ser(o.board), "action_mask": ser(o.action_mask)}

    def ser_action(self, env, a):
        return int(a)

    def draw(self, env, s, a, s2, ts):
        """(flat cell, exponent) of the tile that appeared, None when the successor is exactly the slid board"""
        moved = slide_board(np.asarray(s.board), int(a))
        nb = np.asarray(s2.board)
        diff = np.flatnonzero((moved != nb).reshape(-1))
        if len(diff) == 0:
            return None
        i = int(diff[0])
        return {"idx": i, "val": int(nb.reshape(-1)[i])}

    def reaction_invalid(self, env, s, a, s2, ts):
        """the environment treated the move as valid iff it put a new tile on the board (the slide itself
        conserves the tile sum)"""
        return tile_sum(s2.board) == tile_sum(s.board)

    # ---- C08: the return is determined by the final board and the number of 4-tiles that were spawned
    def objective_extra(self, env, s0, s, actions):
        import jax

        if getattr(self, "_step_cache", (None, None))[0] is not env:
            self._step_cache = (env, jax.jit(env.step))
        step = self._step_cache[1]
        fours = int(tile_sum(s0.board) == 4)
        st = s0
        before = tile_sum(st.board)
        for a in actions:
            st, _ = step(st, np.asarray(a, dtype=np.int32))
            after = tile_sum(st.board)
            fours += int(after - before == 4)
            before = after
        return {"fours": fours}

    # ---- C09: synthetic rows
    def synthetic(self, ctx, cfg, env, runner, rng, drv):
        # wave 3 (C01 spec membership): declared specs vs the model's obsSpec / actionSpec, observations as spec-level arrays,
        # (obsSpec n).valid vs observation_spec.validate — every configuration
        import spec_wave3 as w3

        w3.check_specs(ctx, self, cfg, env, drv)
        w3.check_reset_and_obs(ctx, self, cfg, env, runner, rng, drv, 2 if ctx.quick else 6, 6 if ctx.quick else 40)
        if cfg.meta["n"] != 4:          # once per sweep
            return
        import jax
        import jax.numpy as jnp
        from jumanji.environments.logic.game_2048.utils import can_move_left_row, move_left_row

        families = []
        for L in (2, 3, 4, 5):
            rows = np.array(list(itertools.product(range(7), repeat=L)), dtype=np.int32)
            if ctx.quick and len(rows) > 400:
                rows = rows[rng.choice(len(rows), 400, replace=False)]
            families.append(rows)
        families.append(np.array([[0], [1], [5]], dtype=np.int32))
        extra = 60 if ctx.quick else 1500
        for L in (6, 7, 8, 11):
            r = rng.integers(0, 4 if L > 8 else 12, size=(extra, L)).astype(np.int32)
            r[rng.random(r.shape) < 0.3] = 0
            families.append(r)
        for rows in families:
            new_rows, rewards = jax.jit(jax.vmap(move_left_row))(jnp.asarray(rows))
            can = jax.jit(jax.vmap(can_move_left_row))(jnp.asarray(rows))
            new_rows, rewards, can = np.asarray(new_rows), np.asarray(rewards, dtype=np.float64), np.asarray(can)
            reps = drv.batch([{"op": "game2048.row", "row": r.tolist()} for r in rows])
            for r, nr, rew, cm, m in zip(rows, new_rows, rewards, can, reps):
                ctx.evaluations += 1
                case = {"env": self.name, "row": r.tolist(), "impl": {"row": nr.tolist(), "reward": float(rew), "can_move": bool(cm)}}
                if isinstance(m, DriverError):
                    ctx.disagree(self.name, f"row op rejects a row: {m}", case)
                    continue
                impl = {"row": nr.tolist(), "reward": int(rew) if float(rew).is_integer() else float(rew), "can_move": bool(cm)}
                case["model"] = m
                if m["l1"] != m["l2"]:
                    ctx.disagree(self.name, "L1 row loops != L2 slide spec inside the model (the refinement theorem would be false here)", case)
                if impl != m["l2"]:
                    ctx.fail(self.name, "row_vs_rules", f"row {r.tolist()}: implementation gives {impl}, the slide-and-merge rules give {m['l2']}", case)
                elif impl != m["l1"]:
                    ctx.disagree(self.name, "L1 row loops != implementation", case)
                if m["tile_sum"][0] != m["tile_sum"][1] or tile_sum(nr) != tile_sum(r):
                    ctx.fail(self.name, "row_tile_sum", f"row {r.tolist()}: tile sum changes across the slide", case)
                if impl["can_move"] != (nr.tolist() != r.tolist()):
                    ctx.fail(self.name, "row_can_move", f"row {r.tolist()}: can_move_left_row={impl['can_move']} but move_left_row changes the row: {nr.tolist() != r.tolist()}", case)
                if impl["can_move"]:
                    ctx.nontrivial.add((self.name, "row", tuple(r.tolist())))
            ctx.count(f"{self.name}.synthetic_rows", len(rows))
