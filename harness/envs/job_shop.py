"""JobShop adapter.  Lean: Env/JobShop/Model.lean, Bridge/JobShop.lean.

The action is one choice per machine (a job id, or num_jobs = no-op); the action space (J+1)^M is huge
for the default size, so policies choose per machine from the rows of the mask and fan-outs are
single-machine deviations from a mask-respecting base action (every (machine, choice) entry is
tried) plus random joint actions; tiny configurations are enumerated completely."""
from __future__ import annotations

import itertools

import numpy as np

from common import ser, ser_rats
from envlib import Adapter, Config


class A(Adapter):
    name = "job_shop"
    lean = "job_shop"
    serves = {"C01", "C04", "C05", "C06", "C08", "C09", "C10", "C11", "C12"}
    terminate_on_invalid = True
    max_steps = 70
    ops = ("state", "step", "judge", "instance", "bounds")
    episode_cap = 1200
    fan_limit = 64

    # ---- configurations
    def configs(self, tier):
        from jumanji.environments.packing.job_shop import JobShop
        from jumanji.environments.packing.job_shop.generator import RandomGenerator, ToyGenerator

        sizes = [(2, 2, 2, 2), (3, 5, 4, 3), (4, 1, 3, 2), (6, 3, 4, 5), (20, 10, 8, 6)]
        if tier != "quick":
            sizes += [(1, 1, 1, 2), (1, 3, 5, 4), (5, 2, 1, 3), (7, 4, 6, 1), (10, 5, 4, 4)]
        out = []
        for (J, M, O, D) in sizes:
            def build(J=J, M=M, O=O, D=D):
                return JobShop(generator=RandomGenerator(num_jobs=J, num_machines=M, max_num_ops=O, max_op_duration=D))
            out.append(Config(f"job_shop-j{J}-m{M}-o{O}-d{D}", build, {"J": J, "M": M, "O": O, "D": D},
                              max_instances=200 if J >= 20 else 400))
        out.append(Config("job_shop-toy", lambda: JobShop(generator=ToyGenerator()), {"J": 5, "M": 4, "O": 4, "D": 4},
                          constant_generator=True, max_instances=3, toy=True))
        return out

    # ---- serialisation
    def ser_state(self, env, s):
        return {"ops_machine_ids": ser(s.ops_machine_ids), "ops_durations": ser(s.ops_durations),
                "ops_mask": ser(s.ops_mask), "machines_job_ids": ser(s.machines_job_ids),
                "machines_remaining_times": ser(s.machines_remaining_times), "action_mask": ser(s.action_mask),
                "step_count": int(s.step_count), "scheduled_times": ser(s.scheduled_times)}

    def ser_obs(self, env, o):
        return {"ops_machine_ids": ser(o.ops_machine_ids), "ops_durations": ser(o.ops_durations),
                "ops_mask": ser(o.ops_mask), "machines_job_ids": ser(o.machines_job_ids),
                "machines_remaining_times": ser(o.machines_remaining_times), "action_mask": ser(o.action_mask)}

    def ser_action(self, env, a):
        return [int(x) for x in np.asarray(a).reshape(-1)]

    # ---- C10, the toy instance: the closed Lean term `toyState` (Props.C10.jobshop_toy_ok) is the implementation's ToyGenerator reset
    # state, and the documented optimal action sequence `toyActions` (Props.C10.jobshop_toy_makespan_achieved: legal, ends by completion
    # at step 8, return -8, complete feasible schedule of makespan 8) does on the implementation what it does in the model
    def instance_extra(self, ctx, cfg, env, runner, rng, drv, seeds):
        if not cfg.meta.get("toy"):
            return
        import jax
        import jax.numpy as jnp
        from fractions import Fraction
        from common import DriverError

        rep = drv.batch([dict(op="job_shop.toy", cfg=cfg.cfg)])[0]
        ctx.evaluations += 1
        info = {"env": self.name, "config": cfg.cid}
        if isinstance(rep, DriverError):
            ctx.disagree(self.name, f"job_shop.toy failed: {rep}", info)
            return
        s, ts = runner.reset(jax.random.PRNGKey(seeds[0] if seeds else 0))
        errs = []
        if self.ser_state(env, s) != rep["state"]:
            errs.append("the reset state of ToyGenerator differs from the Lean term toyState")
        ret, t = 0.0, 0
        for t, a in enumerate(rep["actions"]):
            mask = np.asarray(ts.observation.action_mask).astype(bool)
            if not all(mask[m][a[m]] for m in range(env.num_machines)):
                errs.append(f"step {t}: action {a} is not allowed by the mask")
            s, ts = runner.step(s, jnp.asarray(a, jnp.int32))
            ret += float(ts.reward)
            if int(ts.step_type) != (2 if t == len(rep["actions"]) - 1 else 1):
                errs.append(f"step {t}: step type {int(ts.step_type)}")
        if self.ser_state(env, s) != rep["final"]:
            errs.append("final state differs from the Lean replay")
        lean_ret = float(Fraction(rep["return"][0], rep["return"][1]))
        if ret != lean_ret or ret != -8.0 or rep["makespan"] != 8 or not rep["solution"]:
            errs.append(f"return {ret} vs Lean {lean_ret} (documented -8), Lean makespan {rep['makespan']}, solution {rep['solution']}")
        end = np.asarray(s.scheduled_times) + np.asarray(s.ops_durations)
        if int(end[np.asarray(s.ops_machine_ids) != -1].max()) != 8:
            errs.append("the implementation's final schedule does not have makespan 8")
        ctx.nontrivial.add((self.name, "toy"))
        ctx.count("job_shop.toy_replayed")
        if errs:
            ctx.fail(self.name, "instance:toy_optimal_schedule", "the toy instance / its documented optimal schedule differ between model and implementation: " + "; ".join(errs[:3]),
                     {**info, "actions": rep["actions"]}, {"certificate": "toy_optimal_schedule"})

    # ---- actions
    def _masked(self, env, mask, rng, mode, t):
        """a mask-respecting joint action, machine by machine"""
        M, J = env.num_machines, env.num_jobs
        a = np.full(M, J, dtype=np.int32)
        for m in range(M):
            jobs = np.flatnonzero(mask[m, :J])
            if not len(jobs):
                continue
            if mode == "low":
                a[m] = jobs[0]
            elif mode == "high":
                a[m] = jobs[-1] if t % 4 != 3 else J      # waits every fourth step
            else:
                a[m] = rng.choice(jobs) if rng.random() < 0.8 else J
        return a

    def choose_action(self, env, s, ts, policy, rng, t):
        M, J = env.num_machines, env.num_jobs
        mask = np.asarray(ts.observation.action_mask).astype(bool)
        if policy == "uniform":
            return rng.integers(0, J + 1, size=M).astype(np.int32)
        if policy == "masked_low":
            return self._masked(env, mask, rng, "low", t)
        if policy == "masked_high":
            return self._masked(env, mask, rng, "high", t)
        a = self._masked(env, mask, rng, "rand", t)
        if policy == "adversarial" and rng.random() < min(0.9, 0.05 + 0.03 * t):
            bad = np.argwhere(~mask)
            if len(bad):
                m, c = bad[rng.integers(len(bad))]
                a[m] = c
        return a

    def fan_actions(self, env, s, ts, rng, cap=4096):
        M, J = env.num_machines, env.num_jobs
        if (J + 1) ** M <= min(cap, 2 * self.fan_limit):
            return np.array(list(itertools.product(range(J + 1), repeat=M)), dtype=np.int32)
        mask = np.asarray(s.action_mask).astype(bool)
        acts = [np.full(M, J, dtype=np.int32), self._masked(env, mask, rng, "low", 0)]
        base = self._masked(env, mask, rng, "rand", 0)
        for m in range(M):
            for c in range(J + 1):
                b = base.copy()
                b[m] = c
                acts.append(b)
        while len(acts) < min(cap, M * (J + 1) + 40):
            acts.append(rng.integers(0, J + 1, size=M).astype(np.int32))
        acts = np.stack(acts)
        lim = min(cap, self.fan_limit)     # each case ships a whole state to the driver: keep sampled fans small
        if len(acts) > lim:
            keep = np.concatenate([[0, 1], 2 + rng.choice(len(acts) - 2, lim - 2, replace=False)])
            acts = acts[keep]
        return acts

    def flat_mask(self, env, s, obs):
        return np.asarray(obs.action_mask).astype(bool).reshape(-1)

    # ---- reading the environment's reaction
    def _penalty(self, env):
        return -float(env.num_jobs * env.max_num_ops * env.max_op_duration)

    def _all_idle(self, env, s2):
        return bool(np.all((np.asarray(s2.machines_job_ids) == env.num_jobs) & (np.asarray(s2.machines_remaining_times) == 0)))

    def reaction_invalid(self, env, s, a, s2, ts):
        """penalty + LAST although the machines are not all idle = the action was treated as invalid;
        reward -1 = treated as valid; penalty with all machines idle cannot be told apart"""
        r = float(ts.reward)
        if r == -1.0 and self._penalty(env) != -1.0:
            return False
        if int(ts.step_type) == 2 and r == self._penalty(env):
            return None if self._all_idle(env, s2) else True
        return None

    def completed(self, env, s, ts):
        """the episode ended by completion: LAST, and either no penalty was given (whatever else the reward is) or
        the state itself shows a finished schedule (used only under mask-respecting play, where the only other
        ending is all-machines-idle = penalty with ops still to schedule)"""
        if int(ts.step_type) != 2:
            return False
        finished = (not np.asarray(s.ops_mask).any()) and bool(np.all(np.asarray(s.machines_remaining_times) == 0))
        return float(ts.reward) != self._penalty(env) or finished

    def counts_for_return(self, env, s, ts):
        return self.completed(env, s, ts)

    def horizon(self, env):
        return env.num_jobs * env.max_num_ops * env.max_op_duration + 1
