"""Cleaner adapter (multi-agent, joint action).  Lean: Env/Cleaner/Model.lean, Env/Maze/MazeGen.lean, Bridge/Cleaner.lean."""
from __future__ import annotations

import numpy as np

from common import rat, ser
from envlib import Adapter, Config, choose


class A(Adapter):
    name = "cleaner"
    lean = "cleaner"
    serves = {"C01", "C04", "C05", "C07", "C08", "C09", "C10", "C11", "C12"}
    terminate_on_invalid = True
    max_steps = 60
    ops = ("state", "step", "judge", "instance", "bounds", "spec")
    state_fields = ["grid", "agents_locations", "action_mask", "step_count"]

    def configs(self, tier):
        from jumanji.environments.routing.cleaner import Cleaner
        from jumanji.environments.routing.cleaner.generator import RandomGenerator

        # (rows, cols, agents, time_limit or None, penalty)
        sizes = [(10, 10, 3, None, 0.5), (5, 11, 2, None, 0.5), (11, 5, 2, None, 0.25), (6, 7, 1, 7, 0.5),
                 (3, 4, 3, 3, 0.1), (2, 5, 2, 1, 1.0),
                 (4, 5, 2, 6, 0.0)]     # no step penalty at all (a falsy argument value is still the value asked for)
        if tier != "quick":
            sizes += [(4, 4, 2, 2, 0.5), (7, 6, 4, None, 0.0), (15, 21, 3, 60, 0.5), (21, 8, 1, None, 0.5),
                      (2, 2, 2, None, 0.5), (9, 3, 2, 200, 0.5)]
        out = []
        for nr, nc, na, tl, pen in sizes:
            def build(nr=nr, nc=nc, na=na, tl=tl, pen=pen):
                return Cleaner(generator=RandomGenerator(num_rows=nr, num_cols=nc, num_agents=na), time_limit=tl,
                               penalty_per_timestep=pen)
            out.append(Config(f"cleaner-{nr}x{nc}-a{na}-t{tl or 'default'}-p{pen}", build,
                              {"num_rows": nr, "num_cols": nc, "num_agents": na, "time_limit": tl or nr * nc,
                               "penalty": rat(pen)}, rows=nr, cols=nc, agents=na,
                              # the 2x5 and 2x2 recursive-division mazes are unique (all draws give the same walls)
                              constant_generator=(nr, nc) in ((2, 5), (2, 2))))
        return out

    def ser_state(self, env, s):
        return {"grid": ser(s.grid), "agents_locations": ser(s.agents_locations), "action_mask": ser(s.action_mask),
                "step_count": int(s.step_count)}

    def ser_obs(self, env, o):
        return {"grid": ser(o.grid), "agents_locations": ser(o.agents_locations), "action_mask": ser(o.action_mask),
                "step_count": int(o.step_count)}

    def ser_action(self, env, a):
        return [int(x) for x in np.asarray(a).reshape(-1)]

    # ---- joint actions
    def choose_action(self, env, s, ts, policy, rng, t):
        mask = np.asarray(ts.observation.action_mask).astype(bool)      # (n, 4)
        n = mask.shape[0]
        if policy == "adversarial":
            # legal for a while, then a random non-empty subset of the agents prefers masked-out moves
            bad_agents = set()
            if rng.random() < min(0.9, 0.15 + 0.1 * t):
                k = int(rng.integers(1, n + 1))
                bad_agents = set(int(i) for i in rng.choice(n, k, replace=False))
            out = []
            for i in range(n):
                bad = np.flatnonzero(~mask[i])
                good = np.flatnonzero(mask[i])
                if i in bad_agents and len(bad):
                    out.append(int(rng.choice(bad)))
                elif len(good):
                    out.append(int(rng.choice(good)))
                else:
                    out.append(int(rng.integers(4)))
            return np.asarray(out, dtype=np.int32)
        return np.asarray([choose(policy, rng, mask[i], 4, t) for i in range(n)], dtype=np.int32)

    def fan_actions(self, env, s, ts, rng, cap=4096):
        acts = self._acts(env)                                           # all 4**n joint actions
        if len(acts) <= cap:
            return acts
        return acts[rng.choice(len(acts), cap, replace=False)]

    def reaction_invalid(self, env, s, a, s2, ts):
        """per agent: the environment froze it (a move that is carried out always changes the location)"""
        return [bool(x) for x in (np.asarray(s.agents_locations) == np.asarray(s2.agents_locations)).all(axis=1)]

    # ---- wave 3 (hook of the C09 / C12 sweeps): declared specs vs the model's obsSpec, reset timestep, observation arrays and
    # membership (harness/wave3_routing.py; theorems cleaner_obsSpec_generated, cleaner_*_obs_valid, cleaner_reset_obs_faithful)
    def synthetic(self, ctx, cfg, env, runner, rng, drv):
        import wave3_routing as w3

        w3.check_specs(ctx, self, cfg, env, drv)
        w3.check_reset_and_obs(ctx, self, cfg, env, runner, rng, drv, 2 if ctx.quick else 6, 12 if ctx.quick else 40)

    def horizon(self, env):
        return int(env.time_limit)

    def completed(self, env, s, ts):
        return bool(not (np.asarray(s.grid) == 0).any())

    def counts_for_return(self, env, s, ts):
        return True
