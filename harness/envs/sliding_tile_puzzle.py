"""SlidingTilePuzzle adapter.  Lean: Env/SlidingTilePuzzle/Model.lean, Bridge/SlidingTilePuzzle.lean.

Besides the generic sweeps (C04, C05, C08, C09, C10, C11, C12) the `synthetic` hook (run by the C09 sweep) checks the
C17 laws on the implementation: the whole reachable state space of the 2x2 (quick) and 3x3 (thorough) puzzle x 4
actions against the L1 model and the Lean predicates conserved / slide_ok / rules_ok / solved_ok, opposite moves
cancel, and the generator replayed on its draw tape against the L1 `walk`."""
from __future__ import annotations

from typing import Any, Dict, List

import numpy as np

from common import ser, DriverError
from envlib import Adapter, Config, diff_json, tree_index


def _pos(p: Any) -> Dict[str, int]:
    a = np.asarray(p).reshape(-1)
    return {"r": int(a[0]), "c": int(a[1])}


class A(Adapter):
    name = "sliding_tile_puzzle"
    lean = "sliding_tile_puzzle"
    serves = {"C01", "C04", "C05", "C08", "C09", "C10", "C11", "C12", "C17"}
    terminate_on_invalid = False
    max_steps = 40
    episode_cap = 520
    ops = ("state", "step", "judge", "instance", "walk", "bounds", "spec", "run")
    state_fields = ["puzzle", "empty", "step_count"]

    def configs(self, tier):
        from jumanji.environments.logic.sliding_tile_puzzle import SlidingTilePuzzle
        from jumanji.environments.logic.sliding_tile_puzzle.generator import RandomWalkGenerator
        from jumanji.environments.logic.sliding_tile_puzzle.reward import DenseRewardFn, SparseRewardFn

        # (grid size, random moves, time limit, dense)
        rows = [(2, 3, 12, True), (2, 4, 9, False), (3, 6, 25, True), (3, 20, 30, False),
                (4, 30, 7, True), (5, 200, 500, True)]
        if tier != "quick":
            rows += [(3, 0, 5, True), (3, 1, 1, False), (4, 100, 60, False), (5, 200, 40, False),
                     (6, 50, 2, True), (7, 300, 3, False)]
        out = []
        for n, moves, tl, dense in rows:
            def build(n=n, moves=moves, tl=tl, dense=dense):
                return SlidingTilePuzzle(generator=RandomWalkGenerator(grid_size=n, num_random_moves=moves),
                                         reward_fn=DenseRewardFn() if dense else SparseRewardFn(), time_limit=tl)
            out.append(Config(f"slide-n{n}-m{moves}-t{tl}-{'dense' if dense else 'sparse'}", build,
                              {"n": n, "dense": dense, "time_limit": tl},
                              n=n, moves=moves, time_limit=tl, dense=dense,
                              constant_generator=(moves == 0)))
        return out

    # ---- serialisation
    def ser_state(self, env, s):
        return {"puzzle": ser(s.puzzle), "empty": _pos(s.empty_tile_position), "step_count": int(s.step_count)}

    def ser_obs(self, env, o):
        return {"puzzle": ser(o.puzzle), "empty": _pos(o.empty_tile_position), "action_mask": ser(o.action_mask),
                "step_count": int(o.step_count)}

    def ser_action(self, env, a):
        return int(a)

    def reaction_invalid(self, env, s, a, s2, ts):
        """the environment ignored the move: the blank did not move"""
        return bool(np.array_equal(np.asarray(s.empty_tile_position), np.asarray(s2.empty_tile_position)))

    def horizon(self, env):
        return int(env.time_limit)

    def completed(self, env, s, ts):
        return bool(np.array_equal(np.asarray(s.puzzle), np.asarray(env.solved_puzzle)))

    def counts_for_return(self, env, s, ts):
        return True   # dense: correct_final - correct_initial, sparse: 1 iff solved -- whatever ended the episode

    def objective_extra(self, env, s0, s, actions):
        return {"initial": self.ser_state(env, s0)}

    # ---- C17 laws + generator tape (hook of the C09 sweep)
    def synthetic(self, ctx, cfg, env, runner, rng, drv):
        import envprops

        n = cfg.meta["n"]
        self._random_walk_laws(ctx, cfg, env, runner, rng, drv, envprops)
        if n == 2 or (n == 3 and not ctx.quick):
            if not getattr(self, "_exhaustive_done", {}).get((n, cfg.meta["dense"])):
                self._exhaustive(ctx, cfg, env, runner, rng, drv, envprops)
                self.__dict__.setdefault("_exhaustive_done", {})[(n, cfg.meta["dense"])] = True
        if 0 < cfg.meta["moves"] <= 30:   # (a zero-length scan cannot run under disable_jit)
            self._tape(ctx, cfg, env, rng, drv, 3 if ctx.quick else 10)
        # wave 2 (audit r3): declared specs vs the model's obsSpec / actionSpec, reset timestep, observation arrays, whole episodes
        # and their returns (harness/puzzle_wave2.py)
        import puzzle_wave2 as w2

        w2.check_specs(ctx, self, cfg, env, drv)
        w2.check_reset_and_obs(ctx, self, cfg, env, runner, rng, drv, 2 if ctx.quick else 6, 3 if ctx.quick else 8)
        w2.check_run(ctx, self, cfg, env, runner, rng, drv, self.completed, with_return=True)

    JUDGE_KEYS = ["conserved", "slide_ok", "rules_ok", "solved_ok", "illegal_ok"]

    def _mk_state(self, env, template, puzzle, empty, step_count):
        import jax.numpy as jnp

        return template.replace(puzzle=jnp.asarray(puzzle, jnp.int32), empty_tile_position=jnp.asarray(empty, jnp.int32),
                                step_count=jnp.asarray(step_count, jnp.int32))

    def _laws_on(self, ctx, cfg, env, runner, drv, envprops, states, label):
        """all 4 actions of every state: L1 agreement, Lean judges, opposite moves cancel"""
        cases = []
        acts = np.arange(4, dtype=np.int32)
        for k, s in enumerate(states):
            s2s, tss = runner.fan(s, acts)
            rec = {"state": s, "seed": None, "t": k, "policy": label}
            js = self.ser_state(env, s)
            legal = drv.batch([dict(op="sliding_tile_puzzle.state", cfg=cfg.cfg, state=js)])[0]["legal"]
            for a in range(4):
                s2, ts2 = tree_index(s2s, a), tree_index(tss, a)
                cases.append((rec, acts[a], s2, ts2))
                if legal[a]:
                    s3, _ = runner.step(s2, np.int32((a + 2) % 4))
                    ctx.evaluations += 1
                    if not (np.array_equal(np.asarray(s3.puzzle), np.asarray(s.puzzle))
                            and np.array_equal(np.asarray(s3.empty_tile_position), np.asarray(s.empty_tile_position))):
                        ctx.fail(self.name, "opposite_cancel", f"move {a} followed by {(a + 2) % 4} does not restore the board",
                                 {"env": self.name, "config": cfg.cid, "state": js, "action": a})
                else:
                    ctx.evaluations += 1
                    if not (np.array_equal(np.asarray(s2.puzzle), np.asarray(s.puzzle))
                            and np.array_equal(np.asarray(s2.empty_tile_position), np.asarray(s.empty_tile_position))):
                        ctx.fail(self.name, "illegal_not_ignored", f"illegal move {a} changed the board",
                                 {"env": self.name, "config": cfg.cid, "state": js, "action": a})
        envprops._compare_step(ctx, self, cfg, env, cases, drv, label, as_failure=True)
        envprops._judge(ctx, self, cfg, env, cases, drv, self.JUDGE_KEYS, "law")

    def _random_walk_laws(self, ctx, cfg, env, runner, rng, drv, envprops):
        import jax

        states = []
        s, ts = runner.reset(jax.random.PRNGKey(int(rng.integers(1 << 31))))
        for t in range(6 if ctx.quick else 40):
            states.append(s)
            mask = np.asarray(ts.observation.action_mask)
            a = int(rng.choice(np.flatnonzero(mask))) if mask.any() else int(rng.integers(4))
            s, ts = runner.step(s, np.int32(a))
        self._laws_on(ctx, cfg, env, runner, drv, envprops, states, "random-walk laws")

    def _exhaustive(self, ctx, cfg, env, runner, rng, drv, envprops):
        """the entire state space reachable from the goal by the implementation's own step (2x2: 12, 3x3: 181440),
        breadth first, one vmapped call of env.step per level"""
        import jax
        import jax.numpy as jnp

        n = cfg.meta["n"]
        template, _ = runner.reset(jax.random.PRNGKey(0))
        step_all = jax.jit(jax.vmap(jax.vmap(env.step, in_axes=(None, 0)), in_axes=(0, None)))

        def expand(puzzles, empties):
            b = len(puzzles)
            st = template.replace(puzzle=jnp.asarray(puzzles, jnp.int32), empty_tile_position=jnp.asarray(empties, jnp.int32),
                                  key=jnp.broadcast_to(template.key, (b,) + tuple(template.key.shape)),
                                  step_count=jnp.zeros((b,), jnp.int32))
            s2, _ = step_all(st, jnp.arange(4, dtype=jnp.int32))
            return np.asarray(s2.puzzle), np.asarray(s2.empty_tile_position)

        p0 = np.asarray(env.solved_puzzle).astype(np.int32)
        seen = {p0.tobytes(): (p0, np.array([n - 1, n - 1], np.int32))}
        frontier = [seen[p0.tobytes()]]
        expected = {2: 12, 3: 181440}[n]
        while frontier and len(seen) <= expected:
            ps, es = expand(np.stack([f[0] for f in frontier]), np.stack([f[1] for f in frontier]))
            nxt = []
            for i in range(ps.shape[0]):
                for a in range(4):
                    k = ps[i, a].tobytes()
                    if k not in seen:
                        seen[k] = (ps[i, a].copy(), es[i, a].copy())
                        nxt.append(seen[k])
            frontier = nxt
        ctx.count(f"{self.name}.exhaustive_states_n{n}", len(seen))
        if len(seen) != expected:
            ctx.fail(self.name, "state_space", f"{n}x{n}: {len(seen)} boards reachable from the goal, expected {expected}",
                     {"env": self.name, "config": cfg.cid})
        boards = list(seen.values())
        if len(boards) > 3000:
            idx = rng.choice(len(boards), 3000, replace=False)
            boards = [boards[int(i)] for i in idx]
        states = [self._mk_state(env, template, p, e, 0) for (p, e) in boards]
        self._laws_on(ctx, cfg, env, runner, drv, envprops, states, f"exhaustive {n}x{n}")

    def _tape(self, ctx, cfg, env, rng, drv, keys):
        """run the generator eagerly with jax.random.choice wrapped to record which row of MOVES was drawn; the L1
        generator `walk` replays the tape"""
        import jax
        from jumanji.environments.logic.sliding_tile_puzzle.constants import MOVES

        moves = np.asarray(MOVES)
        orig = jax.random.choice
        for _ in range(keys):
            seed = int(rng.integers(1 << 31))
            tape: List[int] = []

            def rec(key, a, shape=(), replace=True, p=None, axis=0, **kw):
                out = orig(key, a, shape=shape, replace=replace, p=p, axis=axis, **kw)
                hit = np.flatnonzero((moves == np.asarray(out)).all(-1))
                tape.append(int(hit[0]) if len(hit) else -1)
                return out

            jax.random.choice = rec
            try:
                with jax.disable_jit():
                    s = env.generator(jax.random.PRNGKey(seed))
            finally:
                jax.random.choice = orig
            ctx.evaluations += 1
            info = {"env": self.name, "config": cfg.cid, "generator_seed": seed, "tape": tape}
            if len(tape) != cfg.meta["moves"] or any(d < 0 for d in tape):
                ctx.disagree(self.name, f"draw tape has {len(tape)} entries for num_random_moves={cfg.meta['moves']}", info)
                continue
            m = drv.batch([dict(op="sliding_tile_puzzle.walk", cfg=cfg.cfg, draws=tape)])[0]
            if isinstance(m, DriverError):
                ctx.disagree(self.name, f"walk op rejects the tape: {m}", info)
                continue
            ctx.nontrivial.add((self.name, "tape", seed))
            if not m["valid_draws"]:
                ctx.fail(self.name, "generator_invalid_draw", "the generator drew a move that is not possible on the board (zero weight)", info)
            d = diff_json(m["state"], self.ser_state(env, s), path="state")
            if d:
                ctx.fail(self.name, "generator_vs_walk", f"generator output differs from the random walk replayed on its draws at {d[:4]}", info)
            if m["goal"] != ser(env.solved_puzzle) or m["solved_puzzle"] != ser(env.solved_puzzle):
                ctx.fail(self.name, "goal", "env.solved_puzzle differs from the goal board", info)
