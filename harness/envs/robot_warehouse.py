"""RobotWarehouse adapter.  Lean: Env/RobotWarehouse/Model.lean, Bridge/RobotWarehouse.lean.

Multi-agent: an action is one entry per agent; masks / legality / reactions are per agent (flattened
(num_agents, 5)).  The random draw of a step (the shelf id that replaces a delivered one, per goal) is read off
the successor's request queue.  Random play almost never delivers a shelf, so two of the five policies are
replaced by a scripted courier (fetch a requested shelf, carry it along the highways to a goal)."""
from __future__ import annotations

import numpy as np

from common import ser
from envlib import Adapter, Config, choose

DIRS = {0: (-1, 0), 1: (0, 1), 2: (1, 0), 3: (0, -1)}      # up, right, down, left as (dx, dy); x = row


def _int01(a, what):
    a = np.asarray(a)
    r = np.rint(a).astype(np.int64)
    if not np.array_equal(r, a):
        raise ValueError(f"{what} is not integral: {a}")
    return r.tolist()


class A(Adapter):
    name = "robot_warehouse"
    lean = "robot_warehouse"
    serves = {"C01", "C04", "C05", "C07", "C10", "C11", "C12"}
    terminate_on_invalid = False
    max_steps = 70
    ops = ("state", "step", "judge", "instance", "bounds", "spec")

    # ---------------------------------------------------------------- configurations
    def configs(self, tier):
        from jumanji.environments.routing.robot_warehouse import RobotWarehouse
        from jumanji.environments.routing.robot_warehouse.generator import RandomGenerator

        # (shelf_rows, shelf_columns, column_height, num_agents, sensor_range, queue, time_limit)
        shapes = [(1, 3, 2, 1, 2, 3, 60), (2, 1, 2, 2, 1, 1, 7), (2, 3, 2, 4, 1, 5, 500)]
        if tier != "quick":
            shapes += [(1, 3, 1, 2, 1, 2, 500), (2, 3, 8, 4, 1, 8, 500), (1, 5, 3, 3, 2, 6, 100), (3, 3, 2, 3, 3, 4, 40), (1, 3, 1, 2, 1, 3, 3)]
        out = []
        for (sr, sc, ch, na, rng_, q, tl) in shapes:
            def build(sr=sr, sc=sc, ch=ch, na=na, rng_=rng_, q=q, tl=tl):
                return RobotWarehouse(generator=RandomGenerator(shelf_rows=sr, shelf_columns=sc, column_height=ch,
                                                                num_agents=na, sensor_range=rng_, request_queue_size=q),
                                      time_limit=tl)
            env = build()
            cfg = {"time_limit": int(env.time_limit), "sensor_range": int(env.sensor_range),
                   "highways": np.asarray(env.highways).astype(bool).tolist(),
                   "goals": np.asarray(env.goals).astype(int).tolist(),
                   # the generator's arguments (robot_warehouse.instance: draw support, layout transliteration)
                   "num_agents": na, "request_queue_size": q, "shelf_rows": sr, "shelf_columns": sc, "column_height": ch}
            out.append(Config(f"rware-{sr}x{sc}x{ch}-a{na}-r{rng_}-q{q}-t{tl}", build, cfg, num_agents=na))
        return out

    # ---------------------------------------------------------------- serialisation
    def ser_state(self, env, s):
        return {"grid": ser(s.grid),
                "agents": {"x": ser(s.agents.position.x), "y": ser(s.agents.position.y),
                           "direction": ser(s.agents.direction), "is_carrying": _int01(s.agents.is_carrying, "is_carrying")},
                "shelves": {"x": ser(s.shelves.position.x), "y": ser(s.shelves.position.y),
                            "is_requested": _int01(s.shelves.is_requested, "is_requested")},
                "request_queue": ser(s.request_queue), "step_count": int(s.step_count),
                "action_mask": ser(s.action_mask)}

    def ser_obs(self, env, o):
        return {"agents_view": ser(o.agents_view), "action_mask": ser(o.action_mask), "step_count": int(o.step_count)}

    def ser_action(self, env, a):
        return [int(x) for x in np.asarray(a).reshape(-1)]

    # ---------------------------------------------------------------- the draw, read off the successor
    def draw(self, env, s, a, s2, ts):
        sg = np.asarray(s2.grid)[0]
        q0 = [int(x) for x in np.asarray(s.request_queue)]
        q2 = [int(x) for x in np.asarray(s2.request_queue)]
        goals = [(int(g[0]), int(g[1])) for g in np.asarray(env.goals)]
        sids = [int(sg[x, y]) for (y, x) in goals]

        def run(first_candidates):
            # depth-first over the (few) candidate draws of each firing goal
            def rec(k, q, ds):
                if k == len(goals):
                    return ds if q == q2 else None
                sid = sids[k]
                if sid != 0 and (sid - 1) in q:
                    idx = q.index(sid - 1)
                    cands = [q2[idx]] + [x - 1 for x in sids[k + 1:] if x != 0] + first_candidates
                    for d in dict.fromkeys(cands):
                        r = rec(k + 1, q[:idx] + [d] + q[idx + 1:], ds + [d])
                        if r is not None:
                            return r
                    return None
                return rec(k + 1, q, ds + [0])
            return rec(0, q0, [])

        d = run([])
        if d is None:
            # not explainable by any draw: hand the successor's queue entries over, the model will reject them
            d = [q2[q0.index(sid - 1)] if sid != 0 and (sid - 1) in q0 else 0 for sid in sids]
        return d

    # ---------------------------------------------------------------- the environment's own reaction, per agent
    def reaction_invalid(self, env, s, a, s2, ts):
        """an action is treated as invalid when it is replaced by a no-op.  Only FORWARD can be invalid; a forward
        step that was accepted moves the agent unless it faces the border of the floor."""
        rows, cols = np.asarray(s.grid).shape[1:]
        out = []
        for i, act in enumerate(np.asarray(a).reshape(-1)):
            x, y, d = int(s.agents.position.x[i]), int(s.agents.position.y[i]), int(s.agents.direction[i])
            if int(act) != 1:
                out.append(False)
                continue
            dx, dy = DIRS[d]
            tx, ty = x + dx, y + dy
            if not (0 <= tx < rows and 0 <= ty < cols):
                out.append(False)          # facing the border: staying put is the accepted move
                continue
            moved = (int(s2.agents.position.x[i]), int(s2.agents.position.y[i])) != (x, y)
            out.append(not moved)
        return out

    # ---------------------------------------------------------------- C11: the structural horizon is the time limit
    # (Props.C11.rware_episode_last_by_limit / rware_episode_first_last; the only other cause of LAST is a collision)
    def horizon(self, env):
        return int(env.time_limit)

    # ---------------------------------------------------------------- wave 4 (C01; hook of the C12 sweep)
    # the declared specs against the model's obsSpec / actionSpec / reward / discount spec (robot_warehouse.spec), the reset
    # timestep, the observation arrays against `toNValue`, observation_spec.validate against (obsSpec cfg A).valid and the invariant
    # SpecInv of the membership theorems on every implementation state of a few episodes incl. the terminal one (collision or time
    # limit); theorems robot_warehouse_obsSpec_generated, robot_warehouse_*_obs_valid, robot_warehouse_specInv_invariant
    def synthetic(self, ctx, cfg, env, runner, rng, drv):
        import wave3_routing as w3

        w3.check_specs(ctx, self, cfg, env, drv)
        w3.check_reset_and_obs(ctx, self, cfg, env, runner, rng, drv, 3 if ctx.quick else 8, 14 if ctx.quick else 80,
                               policies=("uniform", "masked", "adversarial"), extra="spec_inv")

    # ---------------------------------------------------------------- policies
    def _courier(self, env, s, i, rng):
        hw = np.asarray(env.highways).astype(bool)
        rows, cols = hw.shape
        x, y, d = int(s.agents.position.x[i]), int(s.agents.position.y[i]), int(s.agents.direction[i])
        carrying = int(s.agents.is_carrying[i]) == 1
        mask = np.asarray(s.action_mask)[i]
        sx, sy = np.asarray(s.shelves.position.x), np.asarray(s.shelves.position.y)
        req = np.asarray(s.shelves.is_requested) > 0.5
        sid = int(np.asarray(s.grid)[0, x, y])

        def face(want):
            if d == want:
                return 1 if mask[1] else int(rng.choice(np.flatnonzero(mask)))
            return 3 if (want - d) % 4 in (1, 2) else 2

        if carrying and sid > 0 and req[sid - 1]:
            gcols = [cols // 2 - 1, cols // 2]
            if x == rows - 1:
                gy = min(gcols, key=lambda c: abs(c - y))
                if y == gy:
                    return 0
                return face(1 if gy > y else 3)
            if y % 3 == 0:
                return face(2)
            return face(3 if y % 3 == 1 else 1)
        if carrying:
            # an unrequested shelf on the back: put it down where allowed, else wander
            if not hw[x, y] and rng.random() < 0.5:
                return 4
            return int(rng.choice(np.flatnonzero(mask)))
        cand = [(abs(int(sx[k]) - x) + abs(int(sy[k]) - y), k) for k in range(len(sx)) if req[k] and int(sx[k]) != rows - 1]
        if not cand:
            return int(rng.choice(np.flatnonzero(mask)))
        _, k = min(cand)
        tx, ty = int(sx[k]), int(sy[k])
        if (tx, ty) == (x, y):
            return 4
        if tx != x:
            return face(2 if tx > x else 0)
        return face(1 if ty > y else 3)

    def choose_action(self, env, s, ts, policy, rng, t):
        n = env.num_agents
        mask = np.asarray(s.action_mask)
        if policy == "masked_low":
            return np.array([self._courier(env, s, i, rng) for i in range(n)], dtype=np.int32)
        if policy == "masked_high":
            rest = [int(rng.choice(np.flatnonzero(mask[i] & np.array([1, 0, 1, 1, 1], bool)))) for i in range(1, n)]
            return np.array([self._courier(env, s, 0, rng)] + rest, dtype=np.int32)
        if policy == "adversarial":
            out = []
            for i in range(n):
                bad = np.flatnonzero(~mask[i])
                out.append(int(rng.choice(bad)) if len(bad) and rng.random() < 0.8 else
                           int(rng.choice([1, 1, 4, 2, 3, 0])))
            return np.array(out, dtype=np.int32)
        out = []
        for i in range(n):
            on_shelf = int(np.asarray(s.grid)[0, int(s.agents.position.x[i]), int(s.agents.position.y[i])]) > 0
            if policy == "masked" and on_shelf and int(s.agents.is_carrying[i]) == 0 and rng.random() < 0.5:
                out.append(4)          # pick shelves up so that carrying agents are common
            else:
                out.append(choose(policy, rng, mask[i], 5, t))
        return np.array(out, dtype=np.int32)

    def fan_actions(self, env, s, ts, rng, cap=4096):
        acts = self._acts(env)
        if len(acts) <= min(cap, 125):
            return acts
        # every (agent, action) pair in random contexts; every agent whose FORWARD is masked out playing it;
        # everybody forward; some random joint actions
        n = env.num_agents
        mask = np.asarray(s.action_mask)
        rows = [np.full(n, 1)]
        blocked = np.flatnonzero(~mask[:, 1])
        for _ in range(8 if len(blocked) else 0):
            r = rng.integers(0, 5, size=n)
            r[blocked] = 1
            rows.append(r)
        for i in range(n):
            for a in range(5):
                for _ in range(3):
                    r = rng.integers(0, 5, size=n)
                    r[i] = a
                    rows.append(r)
        rows += list(acts[rng.choice(len(acts), 40, replace=False)])
        return np.array(rows, dtype=np.int32)[:cap]
