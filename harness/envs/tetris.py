"""Tetris adapter.  Lean: Env/Tetris/Model.lean, Bridge/Tetris.lean.

The piece drawn for the next step is read off the successor state (`tetromino_index`).  The `synthetic` hook
(run by the C09 sweep) compares the model's constant tables with `constants.py`, replays `reset` in the model and
plays every action from hand-made fields (nearly full lines up to the top row, overhangs, several lines at once)."""
from __future__ import annotations

import numpy as np

from common import DriverError, ser
from envlib import Adapter, Config, diff_json, tree_index


class A(Adapter):
    name = "tetris"
    lean = "tetris"
    serves = {"C01", "C04", "C05", "C07", "C09", "C11", "C12"}
    terminate_on_invalid = True
    max_steps = 60
    ops = ("state", "step", "judge", "reset", "table", "bounds")
    state_fields = ["grid_padded", "grid_padded_old", "tetromino_index", "old_tetromino_rotated", "new_tetromino",
                    "x_position", "y_position", "action_mask", "full_lines", "score", "reward", "is_reset",
                    "step_count"]

    def configs(self, tier):
        from jumanji.environments.packing.tetris import Tetris

        # (rows, cols, time limit)
        rows = [(10, 10, 400), (4, 4, 30), (6, 4, 40), (5, 9, 7), (8, 5, 3), (16, 6, 60)]  # 16 rows: padded height 19 > 16 (sort stability matters)
        if tier != "quick":
            rows += [(4, 7, 50), (12, 6, 100), (7, 7, 1), (20, 10, 400)]
        out = []
        for r, c, tl in rows:
            def build(r=r, c=c, tl=tl):
                return Tetris(num_rows=r, num_cols=c, time_limit=tl)
            out.append(Config(f"tetris-{r}x{c}-t{tl}", build, {"num_rows": r, "num_cols": c, "time_limit": tl},
                              rows=r, cols=c, time_limit=tl))
        return out

    # ---- serialisation
    def ser_state(self, env, s):
        return {"grid_padded": ser(s.grid_padded), "grid_padded_old": ser(s.grid_padded_old),
                "tetromino_index": int(s.tetromino_index), "old_tetromino_rotated": ser(s.old_tetromino_rotated),
                "new_tetromino": ser(s.new_tetromino), "x_position": int(s.x_position),
                "y_position": int(s.y_position), "action_mask": ser(s.action_mask), "full_lines": ser(s.full_lines),
                "score": ser(np.asarray(s.score, dtype=np.float64)), "reward": ser(np.asarray(s.reward, dtype=np.float64)),
                "is_reset": bool(s.is_reset), "step_count": int(s.step_count)}

    def ser_obs(self, env, o):
        return {"grid": ser(o.grid), "tetromino": ser(o.tetromino), "action_mask": ser(o.action_mask),
                "step_count": int(o.step_count)}

    def ser_action(self, env, a):
        a = np.asarray(a).reshape(-1)
        return [int(a[0]), int(a[1])]

    def draw(self, env, s, a, s2, ts):
        return int(s2.tetromino_index)

    def reaction_invalid(self, env, s, a, s2, ts):
        """an invalid move ends the episode without reward; the episode also ends when the time is up or no move is
        left, in which case the reaction cannot be told from the outside"""
        if int(ts.step_type) != 2:
            return False
        if int(s2.step_count) >= env.time_limit or not bool(np.asarray(s2.action_mask).any()):
            return None
        return True

    def horizon(self, env):
        return int(env.time_limit)

    # ---- C09: tables, reset, synthetic fields
    def synthetic(self, ctx, cfg, env, runner, rng, drv):
        import jax
        import jax.numpy as jnp
        from envprops import _compare_step, _judge
        from jumanji.environments.packing.tetris import constants

        R, C = cfg.meta["rows"], cfg.meta["cols"]
        if (R, C) == (10, 10):
            t = drv.batch([{"op": "tetris.table"}])[0]
            ctx.evaluations += 1
            impl = {"tetrominoes": np.asarray(constants.TETROMINOES_LIST).tolist(),
                    "reward_list": [[int(x), 1] for x in constants.REWARD_LIST]}
            if isinstance(t, DriverError) or t != impl:
                ctx.disagree(self.name, "the model's TETROMINOES_LIST / REWARD_LIST differ from constants.py", {"model": str(t)[:300]})
        # reset replayed in the model
        seeds = [int(x) for x in rng.integers(1 << 31, size=6 if ctx.quick else 30)]
        resets = [runner.reset(jax.random.PRNGKey(sd)) for sd in seeds]
        reps = drv.batch([{"op": "tetris.reset", "cfg": cfg.cfg, "draw": int(s.tetromino_index)} for s, _ in resets])
        for sd, (s, ts), m in zip(seeds, resets, reps):
            ctx.evaluations += 1
            if isinstance(m, DriverError):
                ctx.disagree(self.name, f"reset: model rejects the case: {m}", {"config": cfg.cid, "seed": sd})
                continue
            d = diff_json(m["state"], self.ser_state(env, s), path="state") + diff_json(m["ts"], self.ser_ts(env, ts), path="ts")
            if d:
                ctx.fail(self.name, "reset_vs_rules", f"reset differs from the model at {d[:4]}", {"config": cfg.cid, "reset_seed": sd})
        # synthetic fields: rows that are full except for a few cells, from the floor up to the top row
        base = resets[0][0]
        cases = []
        n_fields = 8 if ctx.quick else 60
        for k in range(n_fields):
            h = int(rng.integers(1, R + 1)) if k % 3 else R          # height of the stack (R: reaches the top row)
            g = np.zeros((R + 3, C + 3), dtype=np.int32)
            for r in range(R - h, R):
                row = (rng.random(C) < 0.85).astype(np.int32) * int(rng.integers(1, 5))
                holes = rng.choice(C, size=int(rng.integers(1, 3)), replace=False)
                if k % 2 == 0:
                    holes = holes[:1] * 0 + int(rng.integers(C))       # one aligned hole: an I piece clears several lines
                    row[:] = np.maximum(row, 1)
                row[holes] = 0
                g[r, :C] = row
            if k % 2 == 0:
                col = int(rng.integers(C))
                g[R - h:R, :C] = np.maximum(g[R - h:R, :C], 1)
                g[R - h:R, col] = 0
            idx = int(rng.integers(7)) if k % 2 else 0
            gp = jnp.asarray(g)
            mask = env._calculate_action_mask(jnp.clip(gp, a_max=1), idx)
            s = base.replace(grid_padded=gp, grid_padded_old=gp, tetromino_index=jnp.asarray(idx, jnp.int32),
                             new_tetromino=env.TETROMINOES_LIST[idx, 0], action_mask=mask,
                             step_count=jnp.asarray(int(rng.integers(0, max(1, env.time_limit - 1))), jnp.int32),
                             is_reset=jnp.asarray(False))
            fa = self._acts(env)
            s2s, tss = runner.fan(s, fa)
            rec = {"state": s, "seed": None, "t": None}
            for i, a in enumerate(fa):
                cases.append((rec, a, tree_index(s2s, i), tree_index(tss, i)))
        _compare_step(ctx, self, cfg, env, cases, drv, "synthetic field", as_failure=True)
        _judge(ctx, self, cfg, env, [c for c in cases if int(c[3].step_type) != 2], drv, ["conserved"], "conserved")
        _judge(ctx, self, cfg, env, cases, drv, ["illegal_ok"], "illegal")
        ctx.count(f"{self.name}.synthetic_transitions", len(cases))
        ctx.count(f"{self.name}.synthetic_line_clears", sum(1 for c in cases if float(c[3].reward) > 0))
