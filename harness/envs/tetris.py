"""Tetris adapter.  Lean: Env/Tetris/Model.lean, Bridge/Tetris.lean.

The piece drawn for the next step is read off the successor state (`tetromino_index`).  The `synthetic` hook
(run by the C09 sweep) compares the model's constant tables with `constants.py`, replays `reset` in the model and
plays every action from hand-made fields (nearly full lines up to the top row, overhangs, several lines at once)."""
from __future__ import annotations

import numpy as np

from common import DriverError, ser, unrat
from envlib import Adapter, Config, diff_json, tree_index


class A(Adapter):
    name = "tetris"
    lean = "tetris"
    serves = {"C01", "C04", "C05", "C07", "C09", "C10", "C11", "C12"}
    terminate_on_invalid = True
    max_steps = 60
    ops = ("state", "step", "judge", "reset", "table", "bounds", "instance", "episode")
    state_fields = ["grid_padded", "grid_padded_old", "tetromino_index", "old_tetromino_rotated", "new_tetromino",
                    "x_position", "y_position", "action_mask", "full_lines", "score", "reward", "is_reset",
                    "step_count"]

    def configs(self, tier):
        from jumanji.environments.packing.tetris import Tetris

        # (rows, cols, time limit)
        rows = [(10, 10, 400), (4, 4, 30), (6, 4, 40), (5, 9, 7), (8, 5, 3), (16, 6, 60)]  # 16 rows: padded height 19 > 16 (sort stability matters)
        if tier != "quick":
            rows += [(4, 7, 50), (12, 6, 100), (7, 7, 1), (20, 10, 400)]
        out = []
        for r, c, tl in rows:
            def build(r=r, c=c, tl=tl):
                return Tetris(num_rows=r, num_cols=c, time_limit=tl)
            out.append(Config(f"tetris-{r}x{c}-t{tl}", build, {"num_rows": r, "num_cols": c, "time_limit": tl},
                              rows=r, cols=c, time_limit=tl))
        return out

    # ---- serialisation
    def ser_state(self, env, s):
        return {"grid_padded": ser(s.grid_padded), "grid_padded_old": ser(s.grid_padded_old),
                "tetromino_index": int(s.tetromino_index), "old_tetromino_rotated": ser(s.old_tetromino_rotated),
                "new_tetromino": ser(s.new_tetromino), "x_position": int(s.x_position),
                "y_position": int(s.y_position), "action_mask": ser(s.action_mask), "full_lines": ser(s.full_lines),
                "score": ser(np.asarray(s.score, dtype=np.float64)), "reward": ser(np.asarray(s.reward, dtype=np.float64)),
                "is_reset": bool(s.is_reset), "step_count": int(s.step_count)}

    def ser_obs(self, env, o):
        return {"grid": ser(o.grid), "tetromino": ser(o.tetromino), "action_mask": ser(o.action_mask),
                "step_count": int(o.step_count)}

    def ser_action(self, env, a):
        a = np.asarray(a).reshape(-1)
        return [int(a[0]), int(a[1])]

    def draw(self, env, s, a, s2, ts):
        return int(s2.tetromino_index)

    def reaction_invalid(self, env, s, a, s2, ts):
        """an invalid move ends the episode without reward; the episode also ends when the time is up or no move is
        left, in which case the reaction cannot be told from the outside"""
        if int(ts.step_type) != 2:
            return False
        if int(s2.step_count) >= env.time_limit or not bool(np.asarray(s2.action_mask).any()):
            return None
        return True

    def horizon(self, env):
        return int(env.time_limit)

    # ---- C09: tables, reset, synthetic fields
    def synthetic(self, ctx, cfg, env, runner, rng, drv):
        import jax
        import jax.numpy as jnp
        from envprops import _compare_step, _judge
        from jumanji.environments.packing.tetris import constants

        R, C = cfg.meta["rows"], cfg.meta["cols"]
        if (R, C) == (10, 10):
            t = drv.batch([{"op": "tetris.table"}])[0]
            ctx.evaluations += 1
            impl = {"tetrominoes": np.asarray(constants.TETROMINOES_LIST).tolist(),
                    "reward_list": [[int(x), 1] for x in constants.REWARD_LIST]}
            if isinstance(t, DriverError) or t != impl:
                ctx.disagree(self.name, "the model's TETROMINOES_LIST / REWARD_LIST differ from constants.py", {"model": str(t)[:300]})
        # reset replayed in the model
        seeds = [int(x) for x in rng.integers(1 << 31, size=6 if ctx.quick else 30)]
        resets = [runner.reset(jax.random.PRNGKey(sd)) for sd in seeds]
        reps = drv.batch([{"op": "tetris.reset", "cfg": cfg.cfg, "draw": int(s.tetromino_index)} for s, _ in resets])
        for sd, (s, ts), m in zip(seeds, resets, reps):
            ctx.evaluations += 1
            if isinstance(m, DriverError):
                ctx.disagree(self.name, f"reset: model rejects the case: {m}", {"config": cfg.cid, "seed": sd})
                continue
            d = diff_json(m["state"], self.ser_state(env, s), path="state") + diff_json(m["ts"], self.ser_ts(env, ts), path="ts")
            if d:
                ctx.fail(self.name, "reset_vs_rules", f"reset differs from the model at {d[:4]}", {"config": cfg.cid, "reset_seed": sd})
        self._episodes(ctx, cfg, env, runner, rng, drv)
        # synthetic fields: rows that are full except for a few cells, from the floor up to the top row
        base = resets[0][0]
        cases = []
        n_fields = 8 if ctx.quick else 60
        for k in range(n_fields):
            h = int(rng.integers(1, R + 1)) if k % 3 else R          # height of the stack (R: reaches the top row)
            g = np.zeros((R + 3, C + 3), dtype=np.int32)
            for r in range(R - h, R):
                row = (rng.random(C) < 0.85).astype(np.int32) * int(rng.integers(1, 5))
                holes = rng.choice(C, size=int(rng.integers(1, 3)), replace=False)
                if k % 2 == 0:
                    holes = holes[:1] * 0 + int(rng.integers(C))       # one aligned hole: an I piece clears several lines
                    row[:] = np.maximum(row, 1)
                row[holes] = 0
                g[r, :C] = row
            if k % 2 == 0:
                col = int(rng.integers(C))
                g[R - h:R, :C] = np.maximum(g[R - h:R, :C], 1)
                g[R - h:R, col] = 0
            idx = int(rng.integers(7)) if k % 2 else 0
            gp = jnp.asarray(g)
            mask = env._calculate_action_mask(jnp.clip(gp, a_max=1), idx)
            s = base.replace(grid_padded=gp, grid_padded_old=gp, tetromino_index=jnp.asarray(idx, jnp.int32),
                             new_tetromino=env.TETROMINOES_LIST[idx, 0], action_mask=mask,
                             step_count=jnp.asarray(int(rng.integers(0, max(1, env.time_limit - 1))), jnp.int32),
                             is_reset=jnp.asarray(False))
            fa = self._acts(env)
            s2s, tss = runner.fan(s, fa)
            rec = {"state": s, "seed": None, "t": None}
            for i, a in enumerate(fa):
                cases.append((rec, a, tree_index(s2s, i), tree_index(tss, i)))
        _compare_step(ctx, self, cfg, env, cases, drv, "synthetic field", as_failure=True)
        _judge(ctx, self, cfg, env, [c for c in cases if int(c[3].step_type) != 2], drv, ["conserved"], "conserved")
        _judge(ctx, self, cfg, env, cases, drv, ["illegal_ok"], "illegal")
        ctx.count(f"{self.name}.synthetic_transitions", len(cases))
        ctx.count(f"{self.name}.synthetic_line_clears", sum(1 for c in cases if float(c[3].reward) > 0))

    # ---- whole episodes: theorems tetris_episode_return / tetris_cells_accounting
    def _episodes(self, ctx, cfg, env, runner, rng, drv):
        """Whole real episodes (mask-respecting play that now and then picks any action, so some end on an illegal move):
        (1) in NumPy from the raw states: return == sum over the placed pieces of REWARD_LIST[lines flagged full], and
        filled cells at the end + num_cols * lines == filled cells at the start + 4 * pieces (up to the last legal step);
        (2) the model's episode runner `play` (op tetris.episode) on the same start state, actions and next-piece draws
        (plus one surplus action) stops at the same step with the same state, return and lines per piece."""
        import jax
        from jumanji.environments.packing.tetris import constants

        R, C = cfg.meta["rows"], cfg.meta["cols"]
        n_ep = 3 if ctx.quick else 12
        reqs, recs = [], []
        for k in range(n_ep):
            seed = int(rng.integers(1 << 31))
            s, ts = runner.reset(jax.random.PRNGKey(seed))
            s0, good, actions, lines, ret, illegal = s, s, [], [], 0.0, False
            while int(ts.step_type) != 2 and len(actions) < 80:
                mask = np.asarray(s.action_mask)
                legal = np.argwhere(mask)
                if len(legal) == 0 or rng.random() < 0.04:
                    a = np.array([rng.integers(4), rng.integers(C)], dtype=np.int32)
                elif k % 3 == 2:
                    # a player that tries: the legal action with the best (reward, low and compact stack) among all successors
                    fa = self._acts(env)                                        # the whole action space: one compiled shape
                    s2s, tss = runner.fan(s, fa)
                    g = np.asarray(s2s.grid_padded)[:, :R, :C] != 0
                    top = np.where(g.any(axis=2), np.arange(R)[None, :], R).min(axis=1)        # first occupied row
                    holes = (np.cumsum(g, axis=1) > 0).sum(axis=(1, 2)) - g.sum(axis=(1, 2))     # empty cells under a filled one
                    score = np.asarray(tss.reward, dtype=np.float64) * 10 + top * 3 - holes * 2
                    score[~mask[fa[:, 0], fa[:, 1]]] = -np.inf
                    a = np.asarray(fa[int(np.argmax(score))], dtype=np.int32)
                else:
                    a = legal[int(rng.integers(len(legal)))].astype(np.int32)
                was_legal = bool(mask[int(a[0]), int(a[1])])
                s2, ts = runner.step(s, a)
                if not was_legal and int(ts.step_type) != 2:
                    ctx.fail(self.name, "episode_end", "an illegal action did not end the episode",
                             {"env": self.name, "config": cfg.cid, "reset_seed": seed, "actions": actions + [[int(a[0]), int(a[1])]]})
                ret += float(ts.reward)
                actions.append([int(a[0]), int(a[1]), int(s2.tetromino_index)])
                if was_legal:
                    lines.append(int(np.asarray(s2.full_lines).sum()))
                    good = s2
                else:
                    illegal = True
                s = s2
            ctx.evaluations += 1
            cells = lambda st: int((np.asarray(st.grid_padded)[:R, :C] != 0).sum())
            case = {"env": self.name, "config": cfg.cid, "reset_seed": seed, "actions": actions, "return": ret, "lines": lines}
            expected = float(sum(constants.REWARD_LIST[min(n, 4)] for n in lines))
            if abs(ret - expected) > 1e-3:
                ctx.fail(self.name, "episode_return", f"return {ret} != sum of REWARD_LIST[lines cleared] = {expected} over the placed pieces (lines {lines})", case)
            if cells(good) + C * sum(lines) != cells(s0) + 4 * len(lines):
                ctx.fail(self.name, "episode_cells", f"filled cells {cells(good)} + {C} * {sum(lines)} lines != {cells(s0)} + 4 * {len(lines)} pieces", case)
            if int(ts.step_type) != 2:
                continue          # cut off by the cap of this loop: nothing to compare with `play`
            ctx.nontrivial.add((self.name, "episode", seed, len(lines)))
            ctx.count(f"{self.name}.episode_" + ("illegal" if illegal else "last"))
            ctx.count(f"{self.name}.episode_lines", sum(lines))
            reqs.append({"op": "tetris.episode", "cfg": cfg.cfg, "state": self.ser_state(env, s0), "actions": actions + [[0, 0, 0]]})
            recs.append((case, good, ret, lines, illegal))
        for (case, good, ret, lines, illegal), m in zip(recs, drv.batch(reqs)):
            ctx.evaluations += 1
            if isinstance(m, DriverError):
                ctx.disagree(self.name, f"episode op rejects a real episode: {m}", case)
                continue
            d = diff_json(m["final"], self.ser_state(env, good), path="final")
            if d or m["lines"] != lines or m["ending"] != ("illegal" if illegal else "last"):
                ctx.fail(self.name, "episode_vs_model", f"the model's episode (play) differs: {d[:3]}, lines {m['lines']} vs {lines}, ending {m['ending']}", case)
            if abs(unrat(m["return"]) - ret) > 1e-3:
                ctx.fail(self.name, "episode_vs_model", f"the model's episode return {unrat(m['return'])} != {ret}", case)
            if (m["cells_final"] + C * sum(m["lines"]) != m["cells_initial"] + 4 * len(m["lines"]) or m["start_consistent"] is not True
                    or abs(sum(unrat(x) for x in m["line_rewards"]) - unrat(m["return"])) > 1e-9):
                ctx.disagree(self.name, "the proved accounting does not hold inside the model (theorem hypothesis violated?)", case)

