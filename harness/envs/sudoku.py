"""Sudoku adapter.  Lean: Env/Sudoku/Model.lean, Bridge/Sudoku.lean."""
from __future__ import annotations

import os

import numpy as np

from common import ser
from envlib import Adapter, Config


class A(Adapter):
    name = "sudoku"
    lean = "sudoku"
    serves = {"C01", "C04", "C05", "C06", "C09", "C10", "C11", "C12"}
    terminate_on_invalid = True
    max_steps = 90
    ops = ("state", "step", "judge", "instance", "bounds", "spec")
    state_fields = ["board", "action_mask"]

    def configs(self, tier):
        import jax.numpy as jnp

        import jumanji.environments.logic.sudoku as pkg
        from jumanji.environments.logic.sudoku import Sudoku
        from jumanji.environments.logic.sudoku.data import DATABASES
        from jumanji.environments.logic.sudoku.generator import DatabaseGenerator, DummyGenerator

        data = os.path.join(os.path.dirname(os.path.abspath(pkg.__file__)), "data")

        def db(level):
            return jnp.load(os.path.join(data, DATABASES[level]))

        out = [
            Config("sudoku-mixed-default", lambda: Sudoku(), {}, generator="mixed"),
            Config("sudoku-very-easy", lambda: Sudoku(generator=DatabaseGenerator(database=db("very-easy"))), {},
                   generator="very-easy"),
            Config("sudoku-dummy", lambda: Sudoku(generator=DummyGenerator()), {}, generator="dummy",
                   constant_generator=True),
            # user-supplied databases in other integer dtypes (the documented contract is only "0 = empty, 1-9 = filled")
            Config("sudoku-db-uint8", lambda: Sudoku(generator=DatabaseGenerator(database=np.asarray(db("very-easy"))[:64].astype(np.uint8))), {},
                   generator="very-easy-uint8", only={"C10", "C06", "C04"}),
            Config("sudoku-db-int32", lambda: Sudoku(generator=DatabaseGenerator(database=np.asarray(db("very-easy"))[64:128].astype(np.int32))), {},
                   generator="very-easy-int32", only={"C10"}),
        ]
        return out

    def ser_state(self, env, s):
        return {"board": ser(s.board), "action_mask": ser(s.action_mask)}

    def ser_obs(self, env, o):
        return {"board": ser(o.board), "action_mask": ser(o.action_mask)}

    def ser_action(self, env, a):
        return [int(x) for x in np.asarray(a).reshape(-1)]

    def reaction_invalid(self, env, s, a, s2, ts):
        """MID: the move was accepted.  LAST with moves still available: it can only have been rejected.
        LAST with no move left: cannot be told from outside (dead end / solved / rejected)."""
        if int(ts.step_type) != 2:
            return False
        if bool(np.asarray(s2.action_mask).any()):
            return True
        return None

    def fan_actions(self, env, s, ts, rng, cap=4096):
        """729 actions per state: the whole space when allowed, else a sample of whole cells (all 9 digits of a
        cell together), preferring a mix of empty and filled cells; at most 135 actions keep the quick sweeps fast"""
        acts = self._acts(env)
        cap = min(cap, 729 if cap >= 4096 else 135)
        if len(acts) <= cap:
            return acts
        ncell = max(1, cap // 9)
        board = np.asarray(s.board).reshape(-1)
        empty, filled = np.flatnonzero(board == -1), np.flatnonzero(board != -1)
        k_e = min(len(empty), (ncell + 1) // 2)
        k_f = min(len(filled), ncell - k_e)
        cells = np.concatenate([rng.choice(empty, k_e, replace=False) if k_e else np.zeros(0, int),
                                rng.choice(filled, k_f, replace=False) if k_f else np.zeros(0, int)]).astype(int)
        idx = (cells[:, None] * 9 + np.arange(9)[None, :]).reshape(-1)
        return acts[idx]

    # ---- wave 4 (hook of the C09 / C12 sweeps): declared specs vs the model's obsSpec (both leaves -- the 729-entry action_mask
    # leaf included; Gen/Specs.lean holds it too --, every configuration), reset timestep, observation arrays (toNValue layout),
    # obsSpec.valid vs observation_spec.validate and the invariant SpecInv on implementation states at reset, along play (legal
    # moves and arbitrary in-spec moves) and on the terminal step (harness/wave3_routing.py; theorems sudoku_obsSpec_generated,
    # sudoku_*_obs_valid, sudoku_specInv_invariant, sudoku_obs_valid_along)
    def synthetic(self, ctx, cfg, env, runner, rng, drv):
        import wave3_routing as w3

        w3.check_specs(ctx, self, cfg, env, drv)
        w3.check_reset_and_obs(ctx, self, cfg, env, runner, rng, drv, 2 if ctx.quick else 6, 6 if ctx.quick else 40,
                               policies=("masked", "uniform"), extra="spec_inv")

    def horizon(self, env):
        g = env._generator
        if hasattr(g, "_boards"):
            return int((np.asarray(g._boards) == 0).sum(axis=(1, 2)).max())
        return int((np.asarray(g._board) == -1).sum())

    def completed(self, env, s, ts):
        return bool((np.asarray(s.board) != -1).all())
