"""Snake adapter.  Lean: Env/Snake/Model.lean, Bridge/Snake.lean."""
from __future__ import annotations

import os

import numpy as np

from common import DriverError, ser
from envlib import Adapter, Config, diff_json, tree_index


class A(Adapter):
    name = "snake"
    lean = "snake"
    serves = {"C01", "C04", "C05", "C07", "C08", "C09", "C10", "C11", "C12"}
    ops = ("state", "step", "judge", "instance", "bounds", "spec")
    terminate_on_invalid = True
    max_steps = 60
    episode_cap = 450

    def configs(self, tier):
        from jumanji.environments.routing.snake import Snake

        # (rows, cols, time_limit): default board, non-square both ways, tiny (the board gets filled), one row
        sizes = [(12, 12, 4000), (3, 5, 40), (5, 3, 40), (2, 2, 12), (1, 4, 9), (6, 7, 25)]
        if tier != "quick":
            sizes += [(4, 4, 60), (2, 7, 50), (7, 2, 50), (8, 8, 300), (3, 3, 5)]
        out = []
        for r, c, tl in sizes:
            def build(r=r, c=c, tl=tl):
                return Snake(num_rows=r, num_cols=c, time_limit=tl)
            cj = {"rows": r, "cols": c, "time_limit": tl, "f32": True}
            if os.environ.get("VERIF_SNAKE_STRICT_HEAD"):
                cj["strict_head"] = True   # also compare the head plane of terminal states whose head left the board
            out.append(Config(f"snake-{r}x{c}-tl{tl}", build, cj, rows=r, cols=c, time_limit=tl))
        return out

    # ---- serialisation
    def ser_state(self, env, s):
        return {"body": ser(s.body), "body_state": ser(s.body_state),
                "head_position": {"row": int(s.head_position.row), "col": int(s.head_position.col)},
                "tail": ser(s.tail),
                "fruit_position": {"row": int(s.fruit_position.row), "col": int(s.fruit_position.col)},
                "length": int(s.length), "step_count": int(s.step_count), "action_mask": ser(s.action_mask)}

    def ser_obs(self, env, o):
        g = np.asarray(o.grid)
        return {"body": ser(g[..., 0]), "head": ser(g[..., 1]), "tail": ser(g[..., 2]), "fruit": ser(g[..., 3]),
                "norm": ser(g[..., 4]), "step_count": int(o.step_count), "action_mask": ser(o.action_mask)}

    def ser_action(self, env, a):
        return int(a)

    def draw(self, env, s, a, s2, ts):
        """flat index of the fruit cell of the successor (used by the model only when the fruit was eaten)"""
        return int(s2.fruit_position.row) * env.num_cols + int(s2.fruit_position.col)

    def reaction_invalid(self, env, s, a, s2, ts):
        """MID: accepted.  LAST although neither the board is full nor the time is up: treated as invalid."""
        if int(ts.step_type) != 2:
            return False
        if bool(np.all(np.asarray(s2.body))) or int(s2.step_count) >= env.time_limit:
            return None
        return True

    def horizon(self, env):
        return env.time_limit

    def completed(self, env, s, ts):
        return bool(np.all(np.asarray(s.body)))

    def counts_for_return(self, env, s, ts):
        return True

    # ---- synthetic states and the L2 successor (C09)
    def _random_state(self, env, rng):
        """a consistent state with a long snake: a random self-avoiding walk, fruit on a random free cell"""
        import jax
        import jax.numpy as jnp
        from jumanji.environments.routing.snake.types import Position, State

        R, C = env.num_rows, env.num_cols
        for _ in range(50):
            L = int(rng.integers(1, R * C)) if R * C > 1 else 1
            cells = [(int(rng.integers(R)), int(rng.integers(C)))]
            while len(cells) < L:
                r, c = cells[-1]
                nb = [(r + dr, c + dc) for dr, dc in ((-1, 0), (0, 1), (1, 0), (0, -1))
                      if 0 <= r + dr < R and 0 <= c + dc < C and (r + dr, c + dc) not in cells]
                if not nb:
                    break
                cells.append(nb[int(rng.integers(len(nb)))])
            free = [(r, c) for r in range(R) for c in range(C) if (r, c) not in cells]
            if not free:
                continue
            bs = np.zeros((R, C), np.int32)
            for i, (r, c) in enumerate(cells):
                bs[r, c] = i + 1
            fr = free[int(rng.integers(len(free)))]
            head = Position(row=jnp.array(cells[-1][0], jnp.int32), col=jnp.array(cells[-1][1], jnp.int32))
            bsj = jnp.asarray(bs)
            return State(key=jax.random.PRNGKey(int(rng.integers(1 << 30))), body=bsj > 0, body_state=bsj,
                         head_position=head, tail=bsj == 1,
                         fruit_position=Position(row=jnp.array(fr[0], jnp.int32), col=jnp.array(fr[1], jnp.int32)),
                         length=jnp.array(len(cells), jnp.int32),
                         step_count=jnp.array(int(rng.integers(0, max(1, env.time_limit - 1))), jnp.int32),
                         action_mask=env._get_action_mask(head, bsj))
        return None

    def synthetic(self, ctx, cfg, env, runner, rng, drv):
        from envlib import rollouts

        # wave 4 (C01 spec membership): declared specs vs the model's obsSpec (every configuration), reset timestep, observation
        # arrays (toNValue: the five planes stacked on the last axis), (obsSpec cfg).valid vs observation_spec.validate and
        # the invariant SpecInv on implementation states at reset, along play (uniform play ends on invalid moves; masked play
        # reaches the time limit of the small configurations) and on the terminal step (harness/wave3_routing.py; theorems
        # snake_obsSpec_generated, snake_*_obs_valid, snake_specInv_invariant, snake_obs_valid_along)
        import wave3_routing as w3

        w3.check_specs(ctx, self, cfg, env, drv)
        w3.check_reset_and_obs(ctx, self, cfg, env, runner, rng, drv, 3 if ctx.quick else 8, 14 if ctx.quick else 60,
                               policies=("masked", "uniform", "masked"), extra="spec_inv")
        # the terminal observation AT the time limit (step_count == time_limit, the value the original DiscreteArray(time_limit)
        # excluded; play in a sweep rarely gets there): a reset state with the counter moved to time_limit - 1, one step
        import jax
        import jax.numpy as jnp

        s0, _ = runner.reset(jax.random.PRNGKey(int(rng.integers(1 << 31))))
        s1 = s0.replace(step_count=jnp.array(env.time_limit - 1, jnp.int32))
        legal = np.flatnonzero(np.asarray(s1.action_mask))
        s2, ts2 = runner.step(s1, jnp.array(int(legal[0]) if len(legal) else 0, jnp.int32))
        if int(ts2.step_type) != 2 or int(ts2.observation.step_count) != env.time_limit:
            ctx.fail(self.name, "obs_at_limit", "observation check: the step that reaches the time limit is not LAST with step_count == time_limit",
                     {"config": cfg.cid, "state": self.ser_state(env, s1)})
        w3._obs_checks(ctx, self, cfg, env, drv, [(s2, ts2, False)], "limit", "spec_inv")

        states = []
        for _ in range(12 if ctx.quick else 60):
            s = self._random_state(env, rng)
            if s is not None:
                states.append(s)
        for r in rollouts(self, env, runner, rng, 2 if ctx.quick else 8, policies=["masked"], max_steps=40):
            if not r["reset"] and int(r["ts_prev"].step_type) != 2:
                states.append(r["state"])
        acts = self._acts(env)
        for s in states:
            js = self.ser_state(env, s)
            st = drv.batch([dict(op="snake.state", cfg=cfg.cfg, state=js)])[0]
            if isinstance(st, DriverError) or not st["consistent"]:
                ctx.disagree(self.name, f"synthetic/visited state is not Consistent for the model: {st}", {"state": js})
                continue
            s2s, tss = runner.fan(s, acts)
            reqs = [dict(op="snake.step", cfg=cfg.cfg, state=js, action=int(a),
                         draw=self.draw(env, s, a, tree_index(s2s, i), tree_index(tss, i))) for i, a in enumerate(acts)]
            for i, (q, m) in enumerate(zip(reqs, drv.batch(reqs))):
                ctx.evaluations += 1
                if isinstance(m, DriverError):
                    ctx.disagree(self.name, f"model rejects a synthetic case: {m}", {"request": q})
                    continue
                s2, ts2 = tree_index(s2s, i), tree_index(tss, i)
                impl_state, impl_ts = self.ser_state(env, s2), self.ser_ts(env, ts2)
                info = {"env": self.name, "config": cfg.cid, "request": q, "impl_state": impl_state,
                        "impl_ts": {k: impl_ts[k] for k in ("step_type", "reward", "discount")}}
                d = diff_json(m["state"], impl_state, path="state")
                d += diff_json({k: m["ts"][k] for k in ("step_type", "reward", "discount")}, impl_ts, path="ts")
                d += diff_json(m["ts"]["obs"], impl_ts["obs"], path="ts.obs")
                if d:
                    ctx.fail(self.name, "transition_vs_rules", f"synthetic state: the model of the rules predicts a different outcome at {d[:4]}", info)
                ctx.nontrivial.add((self.name, "syn", str(js["body_state"]), q["action"]))
                if m["valid"]:
                    if m["spec"] is None:
                        ctx.disagree(self.name, "L2 stepSpec undefined on a consistent state and legal move", info)
                    else:
                        d2 = diff_json(m["spec"], impl_state, path="spec")
                        if d2:
                            ctx.fail(self.name, "transition_vs_rules", f"chain-growth rule (L2) predicts a different successor at {d2[:4]}", info)
                        if diff_json(m["spec"], m["state"], path="spec"):
                            ctx.disagree(self.name, "L1 step != L2 stepSpec inside the model", info)
                    if int(ts2.step_type) != 2 or self.completed(env, s2, ts2):
                        pass
                if m["draw_valid"] is False and not bool(np.all(np.asarray(s2.body))):
                    ctx.fail(self.name, "fruit_on_body", "the new fruit was placed on the snake or outside the board", info)
