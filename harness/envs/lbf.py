"""LevelBasedForaging adapter.  Lean: Env/LBF/Model.lean, Bridge/LBF.lean.

Multi-agent: actions are vectors (num_agents,), the mask is (num_agents, 6) and is compared flattened; `valid`
and `reaction_invalid` are per-agent lists.  Policies: the "masked*" policies are mask-respecting foragers (walk to
a food, load when next to it) so that episodes really end by collecting all food; "uniform" and "adversarial"
play arbitrary / preferably masked-out actions."""
from __future__ import annotations

import os
from typing import Any, Dict, List

import numpy as np

from common import rat, ser
from envlib import Adapter, Config

MOVES = np.array([[0, 0], [-1, 0], [1, 0], [0, -1], [0, 1], [0, 0]])


class A(Adapter):
    name = "lbf"
    lean = "lbf"
    serves = {"C01", "C04", "C05", "C07", "C08", "C09", "C10", "C11", "C12"}
    terminate_on_invalid = False
    max_steps = 30
    episode_cap = 260
    ops = ("state", "step", "judge", "instance", "bounds", "spec")
    state_fields = ["agents", "foods", "step_count"]

    def configs(self, tier):
        from jumanji.environments.routing.lbf import LevelBasedForaging
        from jumanji.environments.routing.lbf.generator import RandomGenerator

        # (grid, fov, agents, food, max_level, force_coop, time_limit, grid_obs, normalize, penalty)
        rows = [
            (8, 8, 2, 2, 2, True, 100, False, True, 0.0),     # the registered default
            (5, 1, 1, 1, 2, False, 7, True, True, 0.0),       # tiny, one agent, fov 1
            (6, 2, 3, 2, 3, False, 60, True, False, 0.5),     # grid observer, fov < grid, raw reward + penalty
            (7, 7, 2, 2, 2, True, 80, True, True, 1.0),       # grid observer, fov = grid, penalty, normalised
            (8, 3, 2, 3, 2, False, 120, False, True, 0.0),    # vector observer, fov < grid
            (9, 2, 4, 3, 4, True, 3, False, False, 0.0),      # four agents, tiny time limit
            (6, 3, 2, 2, 2, False, 9, False, False, 1),       # raw reward with the penalty given as a Python int (nothing else makes the reward a float)
        ]
        if tier != "quick":
            rows += [
                (5, 5, 2, 1, 2, True, 1, False, True, 0.25),
                (6, 1, 2, 2, 5, True, 40, False, True, 0.0),
                (10, 4, 5, 4, 2, False, 200, True, True, 0.0),
                (12, 12, 3, 6, 3, False, 150, False, False, 2.0),
                (7, 3, 6, 2, 2, True, 25, True, False, 0.0),
                (15, 5, 2, 8, 2, False, 2, True, True, 0.0),
            ]
        # crowded sizes (C10 only): before the 'fix: lbf generator masks the food cells' commit the agent mask could run out here and
        # an agent was placed on a food cell, e.g. RandomGenerator(8, 20 agents, 3 food)(PRNGKey(225))
        crowded = [(9, 9, 28, 4, 2, False, 5, False, True, 0.0), (8, 8, 20, 3, 2, False, 5, False, True, 0.0)]
        rows += crowded
        out = []
        for (g, fov, na, nf, ml, coop, tl, grid, norm, pen) in rows:
            def build(g=g, fov=fov, na=na, nf=nf, ml=ml, coop=coop, tl=tl, grid=grid, norm=norm, pen=pen):
                gen = RandomGenerator(grid_size=g, fov=fov, num_agents=na, num_food=nf, max_agent_level=ml, force_coop=coop)
                return LevelBasedForaging(generator=gen, time_limit=tl, grid_observation=grid, normalize_reward=norm, penalty=pen)
            cid = f"lbf-g{g}-fov{fov}-a{na}-f{nf}-l{ml}-{'coop' if coop else 'free'}-t{tl}-{'grid' if grid else 'vec'}-{'norm' if norm else 'raw'}-p{pen}"
            out.append(Config(cid, build,
                              {"grid_size": g, "fov": fov, "time_limit": tl, "grid_obs": grid, "normalize": norm,
                               "penalty": rat(pen), "max_agent_level": ml, "force_coop": coop, "num_agents": na, "num_food": nf},
                              grid_size=g, fov=fov, num_agents=na, num_food=nf, time_limit=tl, grid_obs=grid,
                              normalize=norm, penalty=pen, force_coop=coop,
                              **({"only": {"C10"}} if (g, fov, na, nf, ml, coop, tl, grid, norm, pen) in crowded else {})))
        return out

    # ---- serialisation (entities as objects: a bare [x, y] pair would be mistaken for a rational by diff_json)
    def ser_state(self, env, s):
        ag, fd = s.agents, s.food_items
        ap, fp = np.asarray(ag.position), np.asarray(fd.position)
        agents = [{"id": int(i), "x": int(p[0]), "y": int(p[1]), "level": int(l), "loading": bool(b)}
                  for i, p, l, b in zip(np.asarray(ag.id), ap, np.asarray(ag.level), np.asarray(ag.loading))]
        foods = [{"id": int(i), "x": int(p[0]), "y": int(p[1]), "level": int(l), "eaten": bool(b)}
                 for i, p, l, b in zip(np.asarray(fd.id), fp, np.asarray(fd.level), np.asarray(fd.eaten))]
        return {"agents": agents, "foods": foods, "step_count": int(s.step_count)}

    def ser_obs(self, env, o):
        return {"agents_view": ser(o.agents_view), "action_mask": ser(o.action_mask), "step_count": int(o.step_count)}

    def ser_action(self, env, a):
        return [int(x) for x in np.asarray(a).reshape(-1)]

    # ---- the environment's own reaction, per agent
    def reaction_invalid(self, env, s, a, s2, ts):
        """a move was rejected when the agent stayed although nobody else aimed at the same cell (then the collision
        rule, not the validity test, may have kept it); a no-op is never invalid; a load that earned a reward was
        accepted.  Anything else cannot be told from the outside -> None for the whole joint action."""
        a = np.asarray(a).reshape(-1)
        p = np.asarray(s.agents.position)
        p2 = np.asarray(s2.agents.position)
        tgt = p + MOVES[a]
        rew = np.asarray(ts.reward).reshape(-1)
        out: List[bool] = []
        for i, ai in enumerate(a):
            if ai == 0:
                out.append(False)
            elif 1 <= ai <= 4:
                if not np.array_equal(p[i], p2[i]):
                    out.append(False)
                    continue
                shared = any(j != i and 1 <= a[j] <= 4 and np.array_equal(tgt[j], tgt[i]) for j in range(len(a)))
                if shared:
                    return None
                out.append(True)
            else:
                if rew[i] > 0:
                    out.append(False)
                else:
                    return None
        return out

    # ---- action space
    def all_actions(self, env):
        n = env.num_agents
        if 6 ** n > 8000:
            raise NotImplementedError
        grids = np.stack(np.meshgrid(*[np.arange(6)] * n, indexing="ij"), -1)
        return grids.reshape(-1, n).astype(np.int32)

    def fan_actions(self, env, s, ts, rng, cap=4096):
        n = env.num_agents
        cap = min(cap, 160)       # joint actions per fanned state (every per-agent action still occurs many times)
        if 6 ** n <= cap:
            return self._acts(env)
        base = [np.full(n, k, dtype=np.int32) for k in range(6)]          # everybody the same (collisions, joint load)
        rnd = rng.integers(0, 6, size=(max(1, cap - len(base)), n)).astype(np.int32)
        return np.concatenate([np.stack(base), rnd], 0)

    def choose_action(self, env, s, ts, policy, rng, t):
        mask = np.asarray(ts.observation.action_mask).astype(bool)
        n = mask.shape[0]
        if policy == "uniform":
            return rng.integers(0, 6, size=n).astype(np.int32)
        if policy == "late_adversarial":
            # forage by the mask; late in the episode one agent plays a masked-out action now and then
            out = self.choose_action(env, s, ts, "masked", rng, t)
            if t >= 4 and rng.random() < 0.25:
                i = int(rng.integers(n))
                bad = np.flatnonzero(~mask[i])
                if len(bad):
                    out = np.array(out)
                    out[i] = rng.choice(bad)
            return out
        if policy == "adversarial":
            out = np.zeros(n, np.int32)
            for i in range(n):
                bad = np.flatnonzero(~mask[i])
                good = np.flatnonzero(mask[i])
                if len(bad) and rng.random() < min(0.9, 0.3 + 0.05 * t):
                    out[i] = rng.choice(bad)
                else:
                    out[i] = rng.choice(good) if len(good) else rng.integers(6)
            return out
        # mask-respecting foragers
        pos = np.asarray(s.agents.position)
        fpos = np.asarray(s.food_items.position)
        left = np.flatnonzero(~np.asarray(s.food_items.eaten))
        eps = {"masked": 0.2, "masked_low": 0.1, "masked_high": 0.35}[policy]
        out = np.zeros(n, np.int32)
        for i in range(n):
            good = np.flatnonzero(mask[i])
            if len(left) == 0 or rng.random() < eps:
                out[i] = rng.choice(good) if len(good) else 0
                continue
            if policy == "masked_low":      # everybody walks to the first remaining food
                k = left[0]
            elif policy == "masked_high":   # ... to the last one
                k = left[-1]
            else:                           # ... to the first one; a third of the time to the nearest
                k = left[0] if rng.random() < 0.67 else left[int(np.argmin(np.abs(fpos[left] - pos[i]).sum(-1)))]
            d = np.abs(fpos[k] - pos[i]).sum()
            if d == 1 and mask[i, 5]:
                out[i] = 5
                continue
            better = [m for m in good if 1 <= m <= 4 and 1 <= np.abs(fpos[k] - (pos[i] + MOVES[m])).sum() < d]
            if better:
                out[i] = rng.choice(better)
            else:
                moves = [m for m in good if 1 <= m <= 4]
                out[i] = rng.choice(moves) if moves and rng.random() < 0.7 else 0
        return out

    def horizon(self, env):
        return int(env.time_limit)

    def completed(self, env, s, ts):
        return bool(np.asarray(s.food_items.eaten).all())

    def counts_for_return(self, env, s, ts):
        # the per-agent return is compared with the rules replayed in Lean whatever ended the episode; when all food
        # was collected (normalised, no penalty) the op additionally insists that the shares add up to one
        return True

    def objective_extra(self, env, s0, s, actions):
        return {"initial": self.ser_state(env, s0), "actions": actions}

    # ---- synthetic states (hook of the C09 sweep): dense random consistent configurations -- agents and foods packed
    # into a small window so that collisions, contested cells, joint loading and blocked moves are frequent; late
    # step counts; some foods already eaten (agents may stand on those cells)
    def synthetic(self, ctx, cfg, env, runner, rng, drv):
        import envprops
        import jax
        import jax.numpy as jnp
        import wave3_routing as w3

        # wave 4 (C01; runs inside the C09 / C12 sweeps): the declared specs of the configured observer against the model's obsSpec /
        # actionSpec / reward / discount spec (lbf.spec — incl. the grid observer's agents_view leaf, for every adapter configuration), the
        # reset timestep, the observation arrays against `toNValue`, observation_spec.validate against (obsSpec cfg A F L).valid and
        # the invariant SpecInv of the membership theorems on every implementation state of a few episodes incl. the terminal one
        # (theorems lbf_obsSpec_generated, lbf_*_obs_valid, lbf_specInv_invariant)
        w3.check_specs(ctx, self, cfg, env, drv)
        w3.check_reset_and_obs(ctx, self, cfg, env, runner, rng, drv, 2 if ctx.quick else 6, 12 if ctx.quick else 60,
                               policies=("uniform", "masked", "adversarial"), extra="spec_inv")

        template, _ = runner.reset(jax.random.PRNGKey(int(rng.integers(1 << 31))))
        g, na, nf, tl = env.grid_size, env.num_agents, env.num_food, int(env.time_limit)
        n_states = 25 if ctx.quick else 150
        cases = []
        for k in range(n_states):
            w = int(min(g, max(3, int(np.ceil(np.sqrt(2 * (na + nf)))))))
            ox, oy = int(rng.integers(0, g - w + 1)), int(rng.integers(0, g - w + 1))
            cells = [(ox + i, oy + j) for i in range(w) for j in range(w)]
            pick = rng.choice(len(cells), size=na + nf, replace=False)
            apos = np.array([cells[i] for i in pick[:na]], np.int32)
            fpos = np.array([cells[i] for i in pick[na:]], np.int32)
            eaten = rng.random(nf) < 0.3
            # an eaten food's cell may be occupied: move some agent onto it now and then
            if eaten.any() and rng.random() < 0.3:
                apos[int(rng.integers(na))] = fpos[int(np.flatnonzero(eaten)[0])]
                if len({tuple(p) for p in apos.tolist()}) < na:
                    continue
            alev = rng.integers(1, 4, size=na).astype(np.int32)
            flev = rng.integers(1, 1 + int(alev.sum()), size=nf).astype(np.int32)
            sc = int(rng.choice([0, max(0, tl - 2), max(0, tl - 1), int(rng.integers(0, tl))]))
            s = template.replace(
                agents=template.agents.replace(position=jnp.asarray(apos), level=jnp.asarray(alev),
                                               loading=jnp.asarray(rng.random(na) < 0.5)),
                food_items=template.food_items.replace(position=jnp.asarray(fpos), level=jnp.asarray(flev),
                                                       eaten=jnp.asarray(eaten)),
                step_count=jnp.asarray(sc, jnp.int32))
            rec = {"state": s, "seed": None, "t": k, "policy": "synthetic"}
            for _ in range(4):
                a = rng.integers(0, 6, size=na).astype(np.int32)
                if rng.random() < 0.3:
                    a[:] = a[0]                      # everybody the same: contested cells / joint load
                s2, ts2 = runner.step(s, a)
                cases.append((rec, a, s2, ts2))
        envprops._compare_step(ctx, self, cfg, env, cases, drv, "synthetic dense state", as_failure=True)
        envprops._judge(ctx, self, cfg, env, cases, drv, ["illegal_ok", "conserved"], "synthetic")
        reps = drv.batch([dict(op="lbf.state", cfg=cfg.cfg, state=self.ser_state(env, s2)) for (_, _, s2, _) in cases])
        for (r, a, s2, ts2), st in zip(cases, reps):
            ctx.evaluations += 1
            if isinstance(st, Exception):
                ctx.disagree(self.name, f"model rejects a synthetic successor: {st}", {"config": cfg.cid})
                continue
            if st["consistent"] is False:
                ctx.fail(self.name, "consistent:synthetic", "a step from a consistent state gave an inconsistent one",
                         {"env": self.name, "config": cfg.cid, "state": self.ser_state(env, r["state"]),
                          "action": self.ser_action(env, a), "next": self.ser_state(env, s2)})
            d = envprops.diff_json(st["obs"], self.ser_obs(env, ts2.observation), path="obs")
            if d:
                ctx.fail(self.name, "obs_vs_state:synthetic", f"observation differs from the documented function of the state at {d[:4]}",
                         {"env": self.name, "config": cfg.cid, "state": self.ser_state(env, s2)})
        # wave 4: the dense synthetic states carry levels beyond the generator's range, so some of their observations are OUTSIDE the
        # declared spec: observation_spec.validate and the model's (obsSpec cfg A F L).valid must agree on those too (no invariant here)
        w3._obs_checks(ctx, self, cfg, env, drv, [(s2, ts2, False) for (_, _, s2, ts2) in cases[::3]], "synthetic dense state")
