"""CVRP adapter.  Lean: Env/CVRP/Model.lean, Bridge/CVRP.lean.

The serialised state carries, next to the implementation's own fields, `dist`: the matrix of Euclidean
distances between the coordinates, computed here in float32 NumPy exactly as `jnp.linalg.norm` of the
difference of two float32 rows (the Lean model never takes a square root; `cvrp.instance` checks
`dist[i][j]**2 ~ |p_i - p_j|**2`)."""
from __future__ import annotations

import numpy as np

from common import rat, ser, ser_rats
from envlib import Adapter, Config

SQRT2_F32 = float(np.sqrt(np.float32(2)))


def _zero_demand_generator(n, cap, dem):
    """instances in which about a third of the customers order nothing (the demand spec allows 0): visiting such a customer is a
    visit like any other — it must not refill the vehicle"""
    import jax
    import jax.numpy as jnp
    from jumanji.environments.routing.cvrp.generator import UniformGenerator

    class ZeroDemand(UniformGenerator):
        def __call__(self, key):
            s = super().__call__(key)
            z = jax.random.uniform(jax.random.fold_in(key, 11), s.demands.shape) < 0.34
            return s.replace(demands=jnp.where(z, 0, s.demands).at[0].set(0))

    return ZeroDemand(num_nodes=n, max_capacity=cap, max_demand=dem)


def _full_load_generator(n, cap):
    """every customer fills the vehicle: legal play must alternate customer / depot, the episode lasts exactly
    2n steps and the last trajectory write (index 2n) falls off the array"""
    import jax.numpy as jnp
    from jumanji.environments.routing.cvrp.generator import UniformGenerator

    class FullLoad(UniformGenerator):
        def __call__(self, key):
            s = super().__call__(key)
            demands = jnp.full_like(s.demands, self.max_capacity).at[0].set(0)
            return s.replace(demands=demands)

    return FullLoad(num_nodes=n, max_capacity=cap, max_demand=cap)


class A(Adapter):
    name = "cvrp"
    lean = "cvrp"
    serves = {"C01", "C04", "C05", "C06", "C08", "C09", "C10", "C11", "C12"}
    terminate_on_invalid = True
    max_steps = 70
    ops = ("state", "step", "judge", "instance", "bounds")
    state_fields = ["coordinates", "demands", "position", "capacity", "visited_mask", "trajectory",
                    "num_total_visits"]

    def configs(self, tier):
        from jumanji.environments.routing.cvrp import CVRP
        from jumanji.environments.routing.cvrp.generator import UniformGenerator
        from jumanji.environments.routing.cvrp.reward import DenseReward, SparseReward

        # (tag, num_nodes, max_capacity, max_demand, generator kind)
        sizes = [("tiny", 2, 3, 3, "uniform"), ("tight", 5, 4, 4, "uniform"), ("odd", 7, 12, 6, "uniform"),
                 ("full", 4, 5, 5, "full"), ("default", 20, 30, 10, "uniform"),
                 ("zero", 7, 9, 6, "zero"),
                 # the edge of what CVRP.__init__ accepts (Props.C10.cvrp_ctor_check): capacity equal to / one below the largest demand;
                 # a configuration the constructor refuses is skipped, one it accepts must generate well-formed instances
                 ("edge0", 6, 5, 5, "uniform"), ("edge-1", 6, 4, 5, "uniform")]
        if tier != "quick":
            sizes += [("one", 1, 2, 2, "uniform"), ("roomy", 6, 100, 3, "uniform"), ("full9", 9, 2, 2, "full"),
                      ("n30", 30, 20, 10, "uniform")]
        out = []
        for tag, n, cap, dem, kind in sizes:
            for dense in (True, False):
                def gen(n=n, cap=cap, dem=dem, kind=kind):
                    if kind == "full":
                        return _full_load_generator(n, cap)
                    if kind == "zero":
                        return _zero_demand_generator(n, cap, dem)
                    return UniformGenerator(num_nodes=n, max_capacity=cap, max_demand=dem)

                def build(gen=gen, dense=dense):
                    return CVRP(generator=gen(), reward_fn=DenseReward() if dense else SparseReward())

                def partner(gen=gen, dense=dense):
                    return CVRP(generator=gen(), reward_fn=SparseReward() if dense else DenseReward())

                out.append(Config(f"cvrp-{tag}-n{n}-c{cap}-d{dem}-{'dense' if dense else 'sparse'}", build,
                                  {"num_nodes": n, "max_capacity": cap, "max_demand": dem, "dense": dense,
                                   "sqrt2": rat(SQRT2_F32)},
                                  dense=dense, n=n, partner=partner,
                                  # not a shipped generator: its instances are not subject to the generator certificates of C10
                                  **({"only": {"C01", "C03", "C04", "C05", "C06", "C08", "C09", "C11", "C12"}} if kind == "zero" else {}),
                                  **({"optional": True, "only": {"C10", "C01", "C06"}} if tag.startswith("edge") else {})))
        return out

    # ---- serialisation
    @staticmethod
    def _dist(coords):
        c = np.asarray(coords, dtype=np.float32)
        d = c[:, None, :] - c[None, :, :]
        return np.sqrt((d * d).sum(-1, dtype=np.float32), dtype=np.float32)

    def ser_state(self, env, s):
        return {"coordinates": ser(s.coordinates), "demands": ser(s.demands), "position": int(s.position),
                "capacity": int(s.capacity), "visited_mask": ser(s.visited_mask), "trajectory": ser(s.trajectory),
                "num_total_visits": int(s.num_total_visits), "dist": ser(self._dist(s.coordinates))}

    def ser_obs(self, env, o):
        return {"coordinates": ser(o.coordinates), "demands": ser(np.asarray(o.demands, dtype=np.float64)),
                "unvisited_nodes": ser(o.unvisited_nodes), "position": int(o.position),
                "trajectory": ser(o.trajectory), "capacity": rat(float(o.capacity)),
                "action_mask": ser(o.action_mask)}

    def ser_action(self, env, a):
        return int(a)

    # ---- reactions
    def reaction_invalid(self, env, s, a, s2, ts):
        """did the environment treat `a` as invalid?  (a valid action always records one more visit)"""
        return bool(int(ts.step_type) == 2 and int(s2.num_total_visits) == int(s.num_total_visits))

    def horizon(self, env):
        return 2 * env.num_nodes

    def completed(self, env, s, ts):
        return bool(np.all(np.asarray(s.visited_mask)))

    def counts_for_return(self, env, s, ts):
        return bool(np.all(np.asarray(s.visited_mask)))
