"""Connector adapter.  Lean: Env/Connector/Model.lean, Bridge/Connector.lean.

Multi-agent: the action is a vector (num_agents,) over {0 no-op, 1 up, 2 right, 3 down, 4 left}; the joint action
space 5^agents is not enumerated: `choose_action` plays per-agent policies, `fan_actions` returns all single-agent
deviations from the all-no-op action and from one mask-respecting joint action plus sampled joint actions.
Reward and discount have shape (num_agents,); the MID discount is per agent (0 for a connected / blocked agent).

The `synthetic` hook (run by the C09 sweep) adds hand-built collision states (2-, 3- and 4-way contests for one
cell in every id order, a contest for a cell that is one contender's target, head-on moves) and compares the
implementation with BOTH Lean models: L1 (transliteration) and L2 (`stepL2`, the rules).

C10: `RandomWalkGenerator` throws its solved board away; configurations tagged `board` wrap the environment so that
the state carries the solved board recomputed by the generator's own `generate_board` on the same key (the wrapped
reset/step call the real ones and only add that field)."""
from __future__ import annotations

from typing import Any, Dict, List

import numpy as np

from common import rat, ser, DriverError
from envlib import Adapter, Config, diff_json, tree_index

DIRS = {0: (0, 0), 1: (-1, 0), 2: (0, 1), 3: (1, 0), 4: (0, -1)}


def _pos(p: Any) -> Dict[str, int]:
    a = np.asarray(p).reshape(-1)
    return {"r": int(a[0]), "c": int(a[1])}


_BOARD_CLS: Dict[str, Any] = {}


def _board_classes():
    """(StateB, ConnectorB): the real environment with the generator's solved board carried along in the state"""
    if _BOARD_CLS:
        return _BOARD_CLS["state"], _BOARD_CLS["env"]
    import chex
    import jax
    from jumanji.environments.routing.connector import Connector
    from jumanji.environments.routing.connector.types import State

    import jax.numpy as jnp

    def walk_draws(gen, board_key):
        """the draws of `RandomWalkGenerator.generate_board(board_key)`, replayed with the generator's own functions on
        the same keys: per agent (start cell, first-move cell) from `_initialize_starts_and_first_move`; per iteration of
        the while loop the cell every agent's `_select_action` draws (`jax.random.choice` over `_available_cells` with
        the key `_step_agents` gives that agent).  The state is advanced by the real `_step`.  (`connector.instance`
        checks that the Lean transliteration run on these draws reproduces the real `generate_board` output.)"""
        n, k = gen.grid_size, gen.num_agents
        T = n * n + 2
        grid0 = jnp.zeros((n, n), jnp.int32)
        key, step_key = jax.random.split(board_key)                       # as generate_board
        _, (starts, firsts) = jax.lax.scan(gen._initialize_starts_and_first_move, (key, grid0.reshape(-1)), jnp.arange(k))
        grid, agents = gen._initialize_agents(key, grid0)

        def cond(c):
            key, grid, agents, t, tape = c
            return gen._continue_stepping((key, grid, agents)) & (t < T)

        def body(c):
            key, grid, agents, t, tape = c
            k1, _ = jax.random.split(key)                                   # as _step
            keys = jax.random.split(k1, num=k)                              # as _step_agents

            def sel(kk, agent):                                             # as _select_action, before _action_from_positions
                cell = gen._convert_tuple_to_flat_position(agent.position)
                avail = gen._available_cells(grid=grid, cell=cell)
                return jax.random.choice(key=kk, a=avail, shape=(), replace=True, p=avail != -1)

            chosen = jax.vmap(sel)(keys, agents)
            nk, grid2, agents2 = gen._step((key, grid, agents))
            return nk, grid2, agents2, t + 1, tape.at[t].set(chosen.astype(jnp.int32))

        tape0 = jnp.full((T, k), -2, jnp.int32)
        _, _, _, t, tape = jax.lax.while_loop(cond, body, (step_key, grid, agents, jnp.int32(0), tape0))
        return jnp.stack([starts, firsts], 1).astype(jnp.int32), tape, t

    @chex.dataclass
    class StateB(State):  # type: ignore[misc]
        solved_grid: chex.Array
        walk_init: chex.Array
        walk_tape: chex.Array
        walk_len: chex.Array

    class ConnectorB(Connector):
        def reset(self, key):
            state, ts = super().reset(key)
            _, board_key = jax.random.split(key)          # as RandomWalkGenerator.__call__
            solved, _, _ = self._generator.generate_board(board_key)
            init, tape, t = walk_draws(self._generator, board_key)
            return StateB(grid=state.grid, step_count=state.step_count, agents=state.agents, key=state.key,
                          solved_grid=solved, walk_init=init, walk_tape=tape, walk_len=t), ts

        def step(self, state, action):
            s2, ts = super().step(state, action)
            return StateB(grid=s2.grid, step_count=s2.step_count, agents=s2.agents, key=s2.key,
                          solved_grid=state.solved_grid, walk_init=state.walk_init, walk_tape=state.walk_tape,
                          walk_len=state.walk_len), ts

    _BOARD_CLS["state"], _BOARD_CLS["env"] = StateB, ConnectorB
    return StateB, ConnectorB


class A(Adapter):
    name = "connector"
    lean = "connector"
    serves = {"C01", "C04", "C05", "C06", "C07", "C08", "C09", "C10", "C11", "C12"}
    terminate_on_invalid = False
    max_steps = 30
    episode_cap = 120
    ops = ("state", "step", "judge", "instance", "bounds", "spec")
    state_fields = ["grid", "step_count", "agents"]

    def configs(self, tier):
        from jumanji.environments.routing.connector import Connector
        from jumanji.environments.routing.connector.generator import RandomWalkGenerator, UniformRandomGenerator

        # (tag, grid_size, num_agents, time_limit, generator, carry solved board)
        rows = [("tiny", 3, 2, 6, "walk", True), ("crowded", 4, 4, 9, "uniform", False), ("odd", 5, 3, 12, "walk", False),
                ("even", 6, 2, 20, "uniform", False), ("default", 10, 10, 50, "walk", True)]
        if tier != "quick":
            rows += [("one", 4, 1, 30, "walk", True), ("two", 2, 1, 3, "uniform", False), ("n7", 7, 5, 1, "walk", True),
                     ("n8", 8, 12, 25, "uniform", False), ("big", 12, 6, 40, "walk", True)]
        out = []
        for tag, n, k, tl, gen, board in rows:
            def build(n=n, k=k, tl=tl, gen=gen, board=board):
                g = (RandomWalkGenerator if gen == "walk" else UniformRandomGenerator)(grid_size=n, num_agents=k)
                cls = _board_classes()[1] if board else Connector
                return cls(generator=g, time_limit=tl)
            out.append(Config(f"connector-{tag}-n{n}-k{k}-t{tl}-{gen}", build,
                              {"grid_size": n, "num_agents": k, "time_limit": tl,
                               "connected_reward": rat(1.0), "timestep_reward": [-3, 100], "generator": gen},
                              n=n, k=k, time_limit=tl, gen=gen, board=board))
        return out

    # ---- serialisation
    def ser_state(self, env, s):
        ag = s.agents
        ids, st, tg, ps = (np.asarray(x) for x in (ag.id, ag.start, ag.target, ag.position))
        out = {"grid": ser(s.grid), "step_count": int(s.step_count),
               "agents": [{"id": int(ids[i]), "start": _pos(st[i]), "target": _pos(tg[i]), "position": _pos(ps[i])}
                          for i in range(ids.shape[0])]}
        if hasattr(s, "solved_grid") and int(s.step_count) == 0:
            out["solved"] = ser(s.solved_grid)
        if hasattr(s, "walk_tape") and int(s.step_count) == 0:
            t = int(s.walk_len)
            out["walk"] = {"init": ser(s.walk_init), "tape": ser(np.asarray(s.walk_tape)[:t]), "solved": ser(s.solved_grid)}
        return out

    def ser_obs(self, env, o):
        return {"grid": ser(o.grid), "action_mask": ser(o.action_mask), "step_count": int(o.step_count)}

    def ser_action(self, env, a):
        return [int(x) for x in np.asarray(a).reshape(-1)]

    # ---- C10, operational solvability: the explicit solving episode that the theorem
    # Props.C10.connector_walk_board_operationally_solvable builds from the generator's solved board (`connector.solve`) is played on the
    # real environment (same generator, a time limit long enough for the whole plan): every action allowed by the mask, every agent gets its
    # move, MID … MID LAST, everybody connected at the end, final grid and per-agent returns as in the Lean replay
    def instance_extra(self, ctx, cfg, env, runner, rng, drv, seeds):
        if not cfg.meta.get("board") or cfg.meta.get("gen") != "walk":
            return
        import jax
        import jax.numpy as jnp
        from fractions import Fraction
        from jumanji.environments.routing.connector.generator import RandomWalkGenerator

        n, k = cfg.meta["n"], cfg.meta["k"]
        tl = 4 * n * n
        env2 = _board_classes()[1](generator=RandomWalkGenerator(grid_size=n, num_agents=k), time_limit=tl)
        reset2, step2 = jax.jit(env2.reset), jax.jit(env2.step)
        cfg2 = dict(cfg.cfg, time_limit=tl)
        for sd in seeds[: (6 if ctx.quick else 40)]:
            s, ts = reset2(jax.random.PRNGKey(sd))
            sj = self.ser_state(env2, s)
            rep = drv.batch([dict(op="connector.solve", cfg=cfg2, state=sj)])[0]
            ctx.evaluations += 1
            info = {"env": self.name, "config": cfg.cid, "reset_seed": sd, "time_limit": tl, "state": sj}
            if isinstance(rep, DriverError):
                ctx.disagree(self.name, f"connector.solve rejects a generated instance: {rep}", info)
                continue
            if not rep["accepted"]:
                ctx.count("connector.solve_rejected_by_certificate")    # reported through the walk_board_solvable certificate
                continue
            errs = []
            if not rep["solution"]:
                errs.append("the Lean replay of its own plan does not end in a complete solution")
            ret = np.zeros(k)
            acts = rep["actions"]
            for t, a in enumerate(acts):
                mask = np.asarray(ts.observation.action_mask)
                if not all(mask[i][a[i]] for i in range(k)):
                    errs.append(f"step {t}: action {a} is not allowed by the mask")
                pos = np.asarray(s.agents.position)
                s, ts = step2(s, jnp.asarray(a, jnp.int32))
                if not (np.asarray(s.agents.position) == pos + np.array([DIRS[x] for x in a])).all():
                    errs.append(f"step {t}: some agent did not get its move")
                ret += np.asarray(ts.reward)
                if int(ts.step_type) != (2 if t == len(acts) - 1 else 1):
                    errs.append(f"step {t}: step type {int(ts.step_type)}")
            if acts and not bool(np.asarray(s.agents.connected).all()):
                errs.append("not every agent is connected at the end")
            if acts and ser(s.grid) != rep["final"]["grid"]:
                errs.append("final grid differs from the Lean replay")
            lean_ret = [float(Fraction(r[0], r[1])) for r in rep["returns"]]
            if acts and not np.allclose(ret, lean_ret, atol=1e-4):
                errs.append(f"returns {ret.tolist()} vs Lean {lean_ret}")
            ctx.nontrivial.add((self.name, "solve", sd))
            ctx.count("connector.operationally_solved")
            if errs:
                ctx.fail(self.name, "instance:operationally_solvable", "the solving episode built from the route certificate fails on the implementation: " + "; ".join(errs[:3]),
                         {**info, "actions": acts}, {"certificate": "operationally_solvable"})

    # ---- policies
    def _toward(self, s, i, legal_moves):
        pos = np.asarray(s.agents.position)[i]
        tgt = np.asarray(s.agents.target)[i]
        best = [a for a in legal_moves
                if abs(pos[0] + DIRS[a][0] - tgt[0]) + abs(pos[1] + DIRS[a][1] - tgt[1]) < abs(pos[0] - tgt[0]) + abs(pos[1] - tgt[1])]
        return best

    def choose_action(self, env, s, ts, policy, rng, t):
        mask = np.asarray(ts.observation.action_mask)
        k = mask.shape[0]
        if policy == "uniform":
            return rng.integers(5, size=k).astype(np.int32)
        out = np.zeros(k, np.int32)
        for i in range(k):
            moves = [a for a in range(1, 5) if mask[i, a]]
            bad = [a for a in range(1, 5) if not mask[i, a]]
            if policy == "adversarial" and bad and rng.random() < min(0.8, 0.15 + 0.1 * t):
                out[i] = rng.choice(bad)
            elif not moves:
                out[i] = 0
            elif policy == "masked_low":
                out[i] = moves[0]
            elif policy == "masked_high":
                out[i] = moves[-1]
            else:
                good = self._toward(s, i, moves)
                u = rng.random()
                out[i] = rng.choice(good) if (good and u < 0.6) else (0 if u > 0.92 else rng.choice(moves))
        return out

    def fan_actions(self, env, s, ts, rng, cap=4096):
        mask = np.asarray(ts.observation.action_mask)
        k = mask.shape[0]
        acts = [np.zeros(k, np.int32)]
        base2 = np.asarray(self.choose_action(env, s, ts, "masked", rng, 0), np.int32)
        for base in (acts[0], base2):
            for i in range(k):
                for a in range(5):
                    if a != base[i]:
                        d = base.copy()
                        d[i] = a
                        acts.append(d)
        acts.append(base2)
        for _ in range(24):
            acts.append(rng.integers(5, size=k).astype(np.int32))
        acts = np.stack(acts)            # fixed length 8k + 26 for every state (one compilation of the vmapped step)
        if len(acts) > cap:
            acts = acts[:cap]
        return acts

    # ---- reactions
    def reaction_invalid(self, env, s, a, s2, ts):
        """per agent: did the environment itself refuse the move?  An agent that asked to move and stayed was
        refused -- unless a higher-id agent took the (empty) cell it asked for in this very step: then it may have
        yielded, and the reaction of the whole joint action is reported as undeterminable (None)."""
        a = np.asarray(a).reshape(-1)
        p, p2 = np.asarray(s.agents.position), np.asarray(s2.agents.position)
        g, g2 = np.asarray(s.grid), np.asarray(s2.grid)
        n = g.shape[0]
        out = []
        for i in range(len(a)):
            if int(a[i]) == 0 or not np.array_equal(p[i], p2[i]):
                out.append(False)
                continue
            d = DIRS[int(a[i])]
            r, c = int(p[i][0]) + d[0], int(p[i][1]) + d[1]
            if 0 <= r < n and 0 <= c < n and g[r, c] == 0 and g2[r, c] % 3 == 2 and (g2[r, c] - 2) // 3 > i:
                return None      # a higher-id agent took the cell in this very step: refused or yielded, cannot be told
            out.append(True)
        return out

    def horizon(self, env):
        return int(env.time_limit)

    def completed(self, env, s, ts):
        return bool(np.all(np.asarray(s.agents.connected)))

    def counts_for_return(self, env, s, ts):
        return True

    def objective_extra(self, env, s0, s, actions):
        return {"initial": self.ser_state(env, s0), "actions": actions}

    # ---- C09: collision states, and the rule-level model L2 against the implementation
    def _mk_state(self, template, n, heads, targets):
        import jax.numpy as jnp

        k = len(heads)
        grid = np.zeros((n, n), np.int32)
        for i, (h, t) in enumerate(zip(heads, targets)):
            grid[h] = 2 + 3 * i
            grid[t] = 3 + 3 * i
        ag = template.agents.replace(id=jnp.arange(k, dtype=template.agents.id.dtype),
                                     start=jnp.asarray(heads, template.agents.start.dtype),
                                     target=jnp.asarray(targets, template.agents.target.dtype),
                                     position=jnp.asarray(heads, template.agents.position.dtype))
        return template.replace(grid=jnp.asarray(grid, template.grid.dtype), agents=ag,
                                step_count=jnp.asarray(0, template.step_count.dtype))

    def _collision_cases(self, env, template, n, k, rng):
        """[(state, joint action)]: up to four agents around the cell X = (1,1) all stepping into it, in random id
        orders; variants where X is one contender's target, and subsets of the contenders"""
        if n < 3 or k < 2:
            return []
        X = (1, 1)
        ring = [((0, 1), 3), ((1, 0), 2), ((1, 2), 4), ((2, 1), 1)]          # (cell, action that steps into X)
        m = min(k, 4)
        free = [(r, c) for r in range(n - 1, -1, -1) for c in range(n - 1, -1, -1)
                if (r, c) != X and (r, c) not in [x[0] for x in ring]]
        if len(free) < 2 * k:
            return []
        cases = []
        for rep in range(6):
            ids = list(rng.permutation(k)[:m])                                 # which agents sit on the ring
            heads: List[Any] = [None] * k
            acts = np.zeros(k, np.int32)
            pool = list(free)
            for slot, i in enumerate(ids):
                heads[i] = ring[slot][0]
                acts[i] = ring[slot][1]
            for i in range(k):
                if heads[i] is None:
                    heads[i] = pool.pop()
            targets = [pool.pop() for _ in range(k)]
            if rep % 3 == 2:
                targets[ids[rep % m]] = X                                      # X is one contender's target
            s = self._mk_state(template, n, heads, targets)
            cases.append((s, acts.copy()))
            for drop in ids:                                                   # every contender but one
                a2 = acts.copy()
                a2[drop] = 0
                cases.append((s, a2))
            a3 = acts.copy()
            a3[ids[0]] = (acts[ids[0]] % 4) + 1                                # one contender turns away
            cases.append((s, a3))
        return cases

    def synthetic(self, ctx, cfg, env, runner, rng, drv):
        import jax
        import envprops

        # wave 4 (C01; runs inside the C09 / C12 sweeps): the declared specs against the model's obsSpec / actionSpec / rewardSpec /
        # discountSpec (connector.spec), the reset timestep, the observation arrays against `toNValue`, observation_spec.validate
        # against (obsSpec cfg).valid, and the invariant SpecInv of the membership theorems on every implementation state of a few
        # episodes incl. the terminal one (theorems connector_obsSpec_generated, connector_*_obs_valid, connector_specInv_invariant)
        import wave3_routing as w3

        w3.check_specs(ctx, self, cfg, env, drv)
        w3.check_reset_and_obs(ctx, self, cfg, env, runner, rng, drv, 2 if ctx.quick else 6, 12 if ctx.quick else 60,
                               policies=("uniform", "masked", "adversarial"), extra="spec_inv")

        n, k = cfg.meta["n"], cfg.meta["k"]
        template, ts0 = runner.reset(jax.random.PRNGKey(int(rng.integers(1 << 31))))
        cases = []
        for (s, a) in self._collision_cases(env, template, n, k, rng):
            s2, ts2 = runner.step(s, a)
            cases.append(({"state": s, "seed": None, "t": None, "policy": "collision"}, a, s2, ts2))
        n_syn = len(cases)
        # a few ordinary episodes as well, for the L2 comparison
        from envlib import rollouts
        for r in rollouts(self, env, runner, rng, 3 if ctx.quick else 12, policies=["masked", "uniform", "adversarial"]):
            if not r["reset"]:
                cases.append((r, r["action"], r["next"], r["ts"]))
        envprops._compare_step(ctx, self, cfg, env, cases[:n_syn], drv, "collision state", as_failure=True)
        envprops._judge(ctx, self, cfg, env, cases[:n_syn], drv, ["illegal_ok", "conserved"], "law")
        reqs = [dict(op="connector.step", cfg=cfg.cfg, state=self.ser_state(env, r["state"]), action=self.ser_action(env, a))
                for (r, a, _, _) in cases]
        reps = drv.batch(reqs)
        contested = 0
        for (r, a, s2, ts2), q, m in zip(cases, reqs, reps):
            ctx.evaluations += 1
            if isinstance(m, DriverError):
                ctx.disagree(self.name, f"step op rejects a case: {m}", {"request": q})
                continue
            impl_state, impl_ts = self.ser_state(env, s2), self.ser_ts(env, ts2)
            l2 = m["l2"]
            d = diff_json({f: l2["state"][f] for f in self.state_fields}, impl_state, path="state")
            d += diff_json(l2["ts"], impl_ts, path="ts")
            if d:
                ctx.fail(self.name, "transition_vs_rules", f"the rules (stepL2) predict a different outcome at {d[:4]}",
                         {"env": self.name, "config": cfg.cid, "request": q, "impl_state": impl_state, "rules": l2["state"]})
            if not m["l2_agrees"]:
                ctx.disagree(self.name, "L1 step != L2 step inside the model (the refinement theorem would be false here)", {"request": q})
            moved = sum(1 for x, y in zip(q["state"]["agents"], impl_state["agents"]) if x["position"] != y["position"])
            asked = sum(1 for v, x in zip(m["valid"], q["action"]) if v and x != 0)
            if asked > moved:
                contested += 1
                ctx.nontrivial.add((self.name, "contest", str(q["state"]["grid"]), str(q["action"])))
        ctx.count(f"{self.name}.contested_steps", contested)
