"""MMST adapter (multi-agent joint action, relational model).  Lean: Env/MMST/Model.lean, Bridge/MMST.lean.

The tie-break permutation of `step` is a draw: it is recomputed from the key stored in the state exactly as
`step` derives it (`split(state.key)[1]` -> `jax.random.permutation(., arange(num_agents))`)."""
from __future__ import annotations

import numpy as np

from common import rat, ser
from envlib import Adapter, Config, choose

# which behaviour the L1 model reproduces: False/False = the pinned tree (stale finished flags in the cached
# mask; visited lookup with node = -1 wrapping to the last node).  Set the variables to 1 when the source is repaired.
import os

FRESH_MASK = os.environ.get("VERIF_MMST_FRESH_MASK", "1") == "1"  # repaired in /repo (fix: mmst recomputes the action mask …)
GUARD_VISITED = os.environ.get("VERIF_MMST_GUARD_VISITED", "1") == "1"  # repaired in /repo (fix: mmst does not read the last node…)


class A(Adapter):
    name = "mmst"
    lean = "mmst"
    serves = {"C01", "C04", "C05", "C06", "C10", "C11", "C12"}
    terminate_on_invalid = False
    max_steps = 32
    ops = ("state", "step", "judge", "instance", "bounds", "spec")
    state_fields = ["node_types", "adj_matrix", "connected_nodes", "connected_nodes_index", "nodes_to_connect",
                    "node_edges", "positions", "position_index", "action_mask", "finished_agents", "step_count"]

    tier = "quick"

    def configs(self, tier):
        self.tier = tier
        from jumanji.environments.routing.mmst import MMST
        from jumanji.environments.routing.mmst.generator import SplitRandomGenerator
        from jumanji.environments.routing.mmst.reward import DenseRewardFn

        # (num_nodes, num_edges, max_degree, num_agents, nodes_per_agent, time_limit, reward_values)
        sizes = [(10, 14, 4, 2, 3, 12, (10.0, -1.0, -1.0)),      # small, two agents
                 (11, 16, 4, 3, 2, 9, (5.0, -0.5, -2.0)),        # 11 nodes / 3 agents: unequal blocks 4,4,3
                 (7, 9, 5, 1, 3, 8, (10.0, -1.0, -1.0)),         # single agent
                 (36, 72, 5, 3, 4, 70, None),                    # MMST-v0 defaults
                 (10, 14, 4, 3, 2, 9, (10.0, -1.0, -1.0)),       # 10 nodes / 3 agents: blocks 4,3,3 (remainder 1: only the FIRST block is larger)
                 (13, 20, 4, 4, 2, 10, (10.0, -1.0, -1.0)),      # 13 nodes / 4 agents: blocks 4,3,3,3
                 (10, 14, 4, 2, 3, (8, 5), (10.0, -1.0, -1.0)),  # time_limit 8 with a generator built for max_step 5 (independent arguments)
                 (12, 18, 3, 3, 2, 10, (1.0, -0.25, -0.5))]      # tight degree cap: add_edge is refused inside the spanning-tree walk
        if tier != "quick":
            sizes += [(9, 12, 4, 2, 2, 3, (10.0, -1.0, -1.0)),    # time limit 3
                      (16, 26, 5, 4, 2, 20, (10.0, -1.0, -1.0)),
                      (20, 34, 4, 2, 6, 30, (10.0, -1.0, -1.0)), (8, 10, 6, 2, 2, 1, (10.0, -1.0, -1.0)),
                      (25, 40, 5, 5, 3, 25, (2.0, -1.0, -4.0)),
                      # tight degree cap: add_edge fails inside the random walk (self-loops / split blocks, C10)
                      (36, 72, 4, 3, 4, 70, (10.0, -1.0, -1.0))]
        out = []
        for n, e, d, a, k, tl, rv in sizes:
            tl, ms = tl if isinstance(tl, tuple) else (tl, tl)

            def build(n=n, e=e, d=d, a=a, k=k, tl=tl, rv=rv, ms=ms):
                gen = SplitRandomGenerator(num_nodes=n, num_edges=e, max_degree=d, num_agents=a,
                                           num_nodes_per_agent=k, max_step=ms)
                return MMST(generator=gen, reward_fn=None if rv is None else DenseRewardFn(reward_values=rv),
                            time_limit=tl)
            r = rv or (10.0, -1.0, -1.0)
            out.append(Config(f"mmst-n{n}-e{e}-d{d}-a{a}-k{k}-t{tl}{'' if ms == tl else f'-maxstep{ms}'}-r{r[0]}_{r[1]}_{r[2]}", build,
                              {"num_agents": a, "num_nodes": n, "num_nodes_per_agent": k, "time_limit": tl,
                               "r_conn": rat(r[0]), "r_step": rat(r[1]), "r_noop": rat(r[2]),
                               "max_degree": d, "num_edges": e, "fresh_mask": FRESH_MASK,
                               "guard_visited": GUARD_VISITED},
                              agents=a, nodes=n, max_instances=60 if n > 20 else 200,
                              # the step buffer is shorter than the episode: only the time limit is examined for this configuration
                              **({"only": {"C11", "C03"}} if ms != tl else {})))
        return out

    # ---- serialisation
    def ser_state(self, env, s):
        c = getattr(self, "_ser_cache", None)
        if c is not None and c[0] is s:
            return c[1]
        js = self._ser_state(env, s)
        self._ser_cache = (s, js)
        return js

    def _ser_state(self, env, s):
        return {"node_types": ser(s.node_types), "adj_matrix": ser(s.adj_matrix),
                "connected_nodes": ser(s.connected_nodes), "connected_nodes_index": ser(s.connected_nodes_index),
                "nodes_to_connect": ser(s.nodes_to_connect), "node_edges": ser(s.node_edges),
                "positions": ser(s.positions), "position_index": ser(s.position_index),
                "action_mask": ser(s.action_mask), "finished_agents": ser(s.finished_agents),
                "step_count": int(s.step_count)}

    def ser_obs(self, env, o):
        return {"node_types": ser(o.node_types), "adj_matrix": ser(o.adj_matrix), "positions": ser(o.positions),
                "step_count": int(o.step_count), "action_mask": ser(o.action_mask)}

    def ser_action(self, env, a):
        return [int(x) for x in np.asarray(a).reshape(-1)]

    def draw(self, env, s, a, s2, ts):
        import jax
        import jax.numpy as jnp

        k = np.asarray(s.key)
        ck = (k.tobytes(), env.num_agents)
        if getattr(self, "_perm_cache", (None, None))[0] != ck:
            if getattr(self, "_perm_fn", (None, None))[0] != env.num_agents:
                na = env.num_agents
                self._perm_fn = (na, jax.jit(lambda key: jax.random.permutation(jax.random.split(key)[1], jnp.arange(na))))
            perm = np.asarray(self._perm_fn[1](jnp.asarray(k)))
            self._perm_cache = (ck, [int(x) for x in perm])
        return {"perm": self._perm_cache[1]}

    # ---- wave 4 (hook of the C12 sweep; MMST has no C09 sweep): declared specs vs the model's obsSpec / actionSpec (`mmst.spec`),
    # the reset timestep, the observation arrays (`toNValue` layout), membership (`obs_in_spec` vs observation_spec.validate) and the
    # invariant SpecInv on implementation states at reset, along play and on the terminal step (harness/wave3_routing.py; theorems
    # mmst_obsSpec_generated, mmst_*_obs_valid, mmst_specInv_invariant)
    def synthetic(self, ctx, cfg, env, runner, rng, drv):
        import wave3_routing as w3

        w3.check_specs(ctx, self, cfg, env, drv)
        big = cfg.meta["nodes"] > 20
        w3.check_reset_and_obs(ctx, self, cfg, env, runner, rng, drv, (1 if big else 2) if ctx.quick else 5,
                               (8 if big else 14) if ctx.quick else 80, policies=("masked", "uniform"), extra="spec_inv")

    # ---- joint actions
    def flat_mask(self, env, s, obs):
        return np.asarray(obs.action_mask).reshape(-1)

    def choose_action(self, env, s, ts, policy, rng, t):
        mask = np.asarray(ts.observation.action_mask).astype(bool)      # (A, N)
        n, nn = mask.shape
        if policy == "adversarial":
            bad_agents = set()
            if rng.random() < min(0.9, 0.15 + 0.1 * t):
                k = int(rng.integers(1, n + 1))
                bad_agents = set(int(i) for i in rng.choice(n, k, replace=False))
            out = []
            for i in range(n):
                bad = np.flatnonzero(~mask[i])
                good = np.flatnonzero(mask[i])
                if i in bad_agents and len(bad):
                    out.append(int(rng.choice(bad)))
                elif len(good):
                    out.append(int(rng.choice(good)))
                else:
                    out.append(int(rng.integers(nn)))
            return np.asarray(out, dtype=np.int32)
        acts = np.asarray([choose(policy, rng, mask[i], nn, t) for i in range(n)], dtype=np.int32)
        # ties: with some probability every agent whose mask allows the most widely allowed node asks for it in the same step (two- and
        # three-way conflicts over one node are what the tie-break of the environment is for, and uniform choices rarely produce them)
        if n >= 2 and rng.random() < 0.35:
            pop = mask.sum(axis=0)
            if pop.max() >= 2:
                node = int(rng.choice(np.flatnonzero(pop == pop.max())))
                acts = np.where(mask[:, node], node, acts).astype(np.int32)
        return acts

    def fan_actions(self, env, s, ts, rng, cap=4096):
        n, nn = env.num_agents, env.num_nodes
        quick = self.tier == "quick"
        if nn ** n <= min(cap, 32 if quick else 4096):
            return self._acts(env)
        mask = np.asarray(s.action_mask).astype(bool)
        out = []
        # every action of every agent once (quick tier, large graphs: all masked-in ones and a sample of the
        # others), the other agents playing masked-in moves when they have any
        for i in range(n):
            acts = list(range(nn))
            if quick and nn > 16:
                bad = np.flatnonzero(~mask[i])
                acts = sorted(set(int(x) for x in np.flatnonzero(mask[i])) | set(int(x) for x in rng.choice(bad, min(4, len(bad)), replace=False)) | {nn - 1})
            for a in acts:
                row = [int(rng.choice(np.flatnonzero(mask[j]))) if mask[j].any() else int(rng.integers(nn)) for j in range(n)]
                row[i] = a
                out.append(row)
        # everybody wants the same node (tie-breaks), and uniformly random joint actions
        same = list(range(nn))
        if quick and nn > 16:
            same = sorted(set(int(x) for x in np.flatnonzero(mask.sum(axis=0) > 1)) | set(int(x) for x in rng.integers(nn, size=4)))
        for a in same:
            out.append([a] * n)
        # a fixed number of cases per configuration (the vmapped step is compiled per batch size)
        cap = min(cap, (n * 8 + 6) if nn > 16 else (n * nn + nn + 6)) if quick else cap
        while len(out) < cap:
            out.append([int(x) for x in rng.integers(nn, size=n)])
        return np.asarray(out[:cap], dtype=np.int32)

    def all_actions(self, env):
        n, nn = env.num_agents, env.num_nodes
        if nn ** n > 200000:
            raise NotImplementedError("joint action space too large to enumerate")
        grids = np.stack(np.meshgrid(*[np.arange(nn)] * n, indexing="ij"), -1)
        return grids.reshape(-1, n).astype(np.int32)

    def reaction_invalid(self, env, s, a, s2, ts):
        """per agent: the environment refused the move (the agent stayed although it did not lose a tie-break)"""
        a = np.asarray(a).reshape(-1)
        pos = np.asarray(s.positions)
        edges = np.asarray(s.node_edges)
        fin = np.asarray(s.finished_agents).astype(bool)
        n = len(pos)
        target = np.array([edges[i, pos[i], a[i]] for i in range(n)])
        stayed = np.asarray(s.position_index) == np.asarray(s2.position_index)
        out = []
        for i in range(n):
            contested = target[i] != -1 and any(j != i and target[j] == target[i] for j in range(n))
            out.append(bool(stayed[i] and not (contested and not fin[i])))
        return out

    def horizon(self, env):
        return int(env.time_limit)

    def completed(self, env, s, ts):
        return bool(np.asarray(s.finished_agents).all())
