"""Sokoban adapter (offline generators only).  Lean: Env/Sokoban/Model.lean, Bridge/Sokoban.lean."""
from __future__ import annotations

import numpy as np

from common import DriverError, ser
from envlib import Adapter, Config, diff_json, tree_index


class A(Adapter):
    name = "sokoban"
    lean = "sokoban"
    serves = {"C01", "C05", "C07", "C09", "C10", "C11", "C12"}
    ops = ("state", "step", "judge", "instance", "bounds", "spec")
    has_mask = False
    terminate_on_invalid = False
    max_steps = 60

    def configs(self, tier):
        from jumanji.environments.routing.sokoban import Sokoban
        from jumanji.environments.routing.sokoban.constants import GRID_SIZE
        from jumanji.environments.routing.sokoban.generator import SimpleSolveGenerator, ToyGenerator
        from jumanji.environments.routing.sokoban.reward import DenseReward, SparseReward

        import jax
        import jax.numpy as jnp
        from jumanji.environments.routing.sokoban.generator import Generator
        from jumanji.environments.routing.sokoban.types import State

        class OpenGenerator(Generator):
            """offline test generator: 16 fixed random boards WITHOUT a wall frame (boxes can be pushed against
            the border of the grid), chosen by the key"""

            def __init__(self):
                rs = np.random.default_rng(12345)
                fs, vs = [], []
                n = int(GRID_SIZE)
                while len(fs) < 16:
                    f = (rs.random((n, n)) < 0.12).astype(np.uint8)
                    cells = [(r, c) for r in range(n) for c in range(n) if f[r, c] == 0]
                    pick = [cells[i] for i in rs.choice(len(cells), 9, replace=False)]
                    v = np.zeros((n, n), np.uint8)
                    if True:
                        # a box on the border with the agent right behind it, facing outwards
                        k = int(rs.integers(1, n - 1))
                        box, ag = [((0, k), (1, k)), ((n - 1, k), (n - 2, k)), ((k, 0), (k, 1)), ((k, n - 1), (k, n - 2))][len(fs) % 4]
                        pick = [p for p in pick if p not in (box, ag)][:7]
                        pick = pick[:4] + [box] + pick[4:7] + [ag]
                        f[box] = 0
                        f[ag] = 0
                    for (r, c) in pick[:4]:
                        f[r, c] = 2
                    for (r, c) in pick[4:8]:
                        v[r, c] = 4
                    v[pick[8]] = 3
                    fs.append(f)
                    vs.append(v)
                self._fixed_grids, self._variable_grids = jnp.asarray(np.stack(fs)), jnp.asarray(np.stack(vs))

            def __call__(self, rng_key):
                key, idx_key = jax.random.split(rng_key)
                idx = jax.random.randint(idx_key, shape=(), minval=0, maxval=self._fixed_grids.shape[0])
                v = self._variable_grids[idx]
                return State(key=key, fixed_grid=self._fixed_grids[idx], variable_grid=v,
                             agent_location=self.get_agent_coordinates(v), step_count=jnp.array(0, jnp.int32))

        gens = {"toy": ToyGenerator, "simple": SimpleSolveGenerator, "open": OpenGenerator}
        combos = [("toy", True, 120), ("simple", True, 120), ("toy", False, 9), ("simple", False, 30), ("open", True, 40)]
        if tier != "quick":
            combos += [("toy", True, 1), ("simple", True, 2), ("toy", False, 120), ("simple", True, 13), ("open", False, 60)]
        out = []
        for gen, dense, tl in combos:
            def build(gen=gen, dense=dense, tl=tl):
                return Sokoban(generator=gens[gen](),
                               reward_fn=DenseReward() if dense else SparseReward(), time_limit=tl)
            out.append(Config(f"sokoban-{gen}-{'dense' if dense else 'sparse'}-tl{tl}", build,
                              {"n": int(GRID_SIZE), "time_limit": tl, "dense": dense, "f32": True, "gen": gen},
                              gen=gen, dense=dense, time_limit=tl, constant_generator=(gen == "simple")))
        return out

    # ---- C10: the reset states of the transliterated generators (ToyGenerator, SimpleSolveGenerator) must be judged by
    # `matches_generator` (the Lean transliteration `toyGenerate` / `simpleGenerate` produces exactly this state) and
    # every level of the transliteration must be met
    N_LEVELS = {"toy": 2, "simple": 1}

    def instance_extra(self, ctx, cfg, env, runner, rng, drv, seeds):
        import jax

        gen = cfg.meta["gen"]
        if gen not in self.N_LEVELS:
            return
        js = [self.ser_state(env, runner.reset(jax.random.PRNGKey(sd))[0]) for sd in seeds[:24]]
        reps = drv.batch([dict(op="sokoban.instance", cfg=cfg.cfg, state=j) for j in js])
        seen = set()
        for sd, j, v in zip(seeds, js, reps):
            ctx.evaluations += 1
            if isinstance(v, DriverError) or "matches_generator" not in v or "level_cert" not in v:
                ctx.disagree(self.name, f"sokoban.instance gives no verdict on a level of the {gen} generator: {v}",
                             {"config": cfg.cid, "seed": sd})
                continue
            seen.add(str(j["variable_grid"]) + str(j["fixed_grid"]))
        if len(js) >= 16 and len(seen) != self.N_LEVELS[gen]:
            ctx.fail(self.name, "instance:levels_met", f"the {gen} generator produced {len(seen)} different levels, "
                     f"the transliteration has {self.N_LEVELS[gen]}", {"env": self.name, "config": cfg.cid, "seeds": seeds[:24]})

    # ---- serialisation
    def ser_state(self, env, s):
        return {"fixed_grid": ser(s.fixed_grid), "variable_grid": ser(s.variable_grid),
                "agent_location": dict(zip(("row", "col"), (int(x) for x in np.asarray(s.agent_location).reshape(-1)))),
                "step_count": int(s.step_count)}

    def ser_obs(self, env, o):
        g = np.asarray(o.grid)
        return {"variable_grid": ser(g[..., 0]), "fixed_grid": ser(g[..., 1]), "step_count": int(o.step_count)}

    def ser_action(self, env, a):
        return int(a)

    # ---- policies: there is no mask; "masked*" policies prefer moves that change the grid (computed by a
    # plain NumPy look at the grids, not by the environment's own code), others play uniformly
    def _effective(self, s):
        f, v = np.asarray(s.fixed_grid), np.asarray(s.variable_grid)
        r, c = [int(x) for x in np.asarray(s.agent_location)]
        n = f.shape[0]
        eff, push, blocked = [], [], []
        for a, (dr, dc) in enumerate(((-1, 0), (0, 1), (1, 0), (0, -1))):
            pr, pc, qr, qc = r + dr, c + dc, r + 2 * dr, c + 2 * dc
            if not (0 <= pr < n and 0 <= pc < n) or f[pr, pc] == 1:
                continue
            if v[pr, pc] == 4:
                if not (0 <= qr < n and 0 <= qc < n) or f[qr, qc] == 1 or v[qr, qc] == 4:
                    blocked.append(a)
                    continue
                push.append(a)
            eff.append(a)
        self._blocked = blocked
        return eff, push

    def choose_action(self, env, s, ts, policy, rng, t):
        eff, push = self._effective(s)
        if policy.startswith("masked") and eff:
            if push and rng.random() < 0.7:
                return np.int32(push[int(rng.integers(len(push)))])
            return np.int32(eff[int(rng.integers(len(eff)))])
        if policy in ("adversarial", "uniform") and self._blocked and rng.random() < 0.8:
            return np.int32(self._blocked[int(rng.integers(len(self._blocked)))])   # push a box that cannot move
        if policy == "adversarial":
            bad = [a for a in range(4) if a not in eff]
            if bad and rng.random() < 0.6:
                return np.int32(bad[int(rng.integers(len(bad)))])
        return np.int32(rng.integers(4))

    def horizon(self, env):
        return env.time_limit

    def completed(self, env, s, ts):
        return bool(np.sum((np.asarray(s.variable_grid) == 4) & (np.asarray(s.fixed_grid) == 2)) == 4)

    # ---- synthetic states (C09): random consistent boards without a wall frame (pushes against the border,
    # against walls and against other boxes), and a scripted solution of the SimpleSolve level
    def _random_state(self, env, rng, base):
        import jax.numpy as jnp

        n = env.num_rows
        while True:
            fixed = (rng.random((n, n)) < rng.choice([0.1, 0.25, 0.4])).astype(np.uint8)   # walls
            freec = [(r, c) for r in range(n) for c in range(n) if fixed[r, c] == 0]
            if len(freec) >= 9:
                break
        # boxes and agent on non-wall cells, clustered to provoke box-box contacts
        cells = list(freec)
        ar, ac = cells[int(rng.integers(len(cells)))]
        near = sorted([p for p in cells if p != (ar, ac)], key=lambda p: abs(p[0] - ar) + abs(p[1] - ac) + 3 * rng.random())
        var = np.zeros((n, n), np.uint8)
        var[ar, ac] = 3
        for (r, c) in near[:4]:
            var[r, c] = 4
        # targets: up to three of them under boxes (a parked box next to other boxes, pushes onto / off / into a box on a
        # target), the others on any free cell (possibly under the agent)
        k = int(rng.integers(0, 4))
        under = [near[i] for i in rng.choice(4, k, replace=False)]
        rest = [p for p in cells if p not in near[:4]]
        tg = under + [rest[i] for i in rng.choice(len(rest), 4 - k, replace=False)]
        for (r, c) in tg:
            fixed[r, c] = 2
        if np.sum((var == 4) & (fixed == 2)) == 4:
            return None
        return base.replace(fixed_grid=jnp.asarray(fixed), variable_grid=jnp.asarray(var),
                            agent_location=jnp.asarray([ar, ac], jnp.int32),
                            step_count=jnp.asarray(int(rng.integers(0, max(1, env.time_limit))), jnp.int32))

    def consistent_states(self, env, runner, rng, n):
        """consistent boards for the C07 sweep (see envprops._c07)"""
        import jax

        base, _ = runner.reset(jax.random.PRNGKey(int(rng.integers(1 << 30))))
        out = [self._random_state(env, rng, base) for _ in range(n)]
        return [s for s in out if s is not None]

    def _check(self, ctx, cfg, env, drv, s, a, s2, ts2, what):
        js = self.ser_state(env, s)
        q = dict(op="sokoban.step", cfg=cfg.cfg, state=js, action=int(a))
        m = drv.batch([q])[0]
        ctx.evaluations += 1
        if isinstance(m, DriverError):
            ctx.disagree(self.name, f"model rejects a {what} case: {m}", {"request": q})
            return
        impl_state, impl_ts = self.ser_state(env, s2), self.ser_ts(env, ts2)
        info = {"env": self.name, "config": cfg.cid, "request": q, "impl_state": impl_state,
                "impl_ts": {k: impl_ts[k] for k in ("step_type", "reward", "discount")}}
        d = diff_json(m["state"], impl_state, path="state")
        d += diff_json({k: m["ts"][k] for k in ("step_type", "reward", "discount")}, impl_ts, path="ts")
        d += diff_json(m["ts"]["obs"], impl_ts["obs"], path="ts.obs")
        if d:
            ctx.fail(self.name, "transition_vs_rules", f"{what}: the L1 model predicts a different outcome at {d[:4]}", info)
        sp = m["spec"]
        d2 = diff_json(sp["state"], impl_state, path="spec.state")
        d2 += diff_json({"reward": sp["reward"], "step_type": sp["step_type"]}, impl_ts, path="spec")
        if d2:
            ctx.fail(self.name, "transition_vs_rules", f"{what}: the documented rules (L2 walk/push/stay) predict a different outcome at {d2[:4]}", info)
        ctx.nontrivial.add((self.name, what, str(js["variable_grid"]), int(a)))
        ctx.count(f"{self.name}.{what}.{'moved' if impl_state['variable_grid'] != js['variable_grid'] else 'stayed'}")

    def _solution_flag(self, ctx, cfg, env, drv, s, ts, where):
        """wave 3 (C06): the model's `IsSolution` (consistent board, every box on a target — theorem
        sokoban_step_complete_is_solution) against the implementation's own `solved` flag of the timestep"""
        m = drv.batch([dict(op="sokoban.state", cfg=cfg.cfg, state=self.ser_state(env, s))])[0]
        ctx.evaluations += 1
        if isinstance(m, DriverError):
            ctx.disagree(self.name, f"state op rejects a {where} state: {m}", {"state": self.ser_state(env, s)})
            return
        impl = bool(np.asarray(ts.extras["solved"]))
        if m["solution"] != impl:
            ctx.fail(self.name, "solution_flag", f"{where}: the implementation says solved={impl}, the model's IsSolution says {m['solution']}",
                     {"env": self.name, "config": cfg.cid, "state": self.ser_state(env, s)})
        ctx.nontrivial.add((self.name, "w3solution", where, str(self.ser_state(env, s)["variable_grid"])))

    def synthetic(self, ctx, cfg, env, runner, rng, drv):
        import jax
        from envlib import rollouts

        # wave 3: declared specs vs the model's obsSpec, reset timestep, observation arrays and membership
        # (harness/wave3_routing.py; theorems sokoban_obsSpec_generated, sokoban_*_obs_valid, sokoban_reset_obs_faithful)
        import wave3_routing as w3

        w3.check_specs(ctx, self, cfg, env, drv)
        w3.check_reset_and_obs(ctx, self, cfg, env, runner, rng, drv, 2 if ctx.quick else 6, 8 if ctx.quick else 40)

        base, _ = runner.reset(jax.random.PRNGKey(int(rng.integers(1 << 30))))
        acts = self._acts(env)
        states = []
        for _ in range(25 if ctx.quick else 150):
            s = self._random_state(env, rng, base)
            if s is not None:
                states.append(s)
        for s in states:
            st = drv.batch([dict(op="sokoban.state", cfg=cfg.cfg, state=self.ser_state(env, s))])[0]
            if isinstance(st, DriverError) or not st["consistent"]:
                ctx.disagree(self.name, f"synthetic state is not Consistent for the model: {st}", {"state": self.ser_state(env, s)})
                continue
            s2s, tss = runner.fan(s, acts)
            for i, a in enumerate(acts):
                self._check(ctx, cfg, env, drv, s, a, tree_index(s2s, i), tree_index(tss, i), "synthetic")
        # visited transitions against L2 as well
        for r in rollouts(self, env, runner, rng, 2 if ctx.quick else 8, policies=["masked", "adversarial"], max_steps=40):
            if not r["reset"]:
                self._check(ctx, cfg, env, drv, r["state"], r["action"], r["next"], r["ts"], "visited")
        # scripted solution of the SimpleSolve level: Up, then (Down, Right, Up) three times
        if cfg.meta["gen"] == "simple" and cfg.meta["time_limit"] > 10:
            s, ts = runner.reset(jax.random.PRNGKey(0))
            for a in [0, 2, 1, 0, 2, 1, 0, 2, 1, 0]:
                s2, ts2 = runner.step(s, np.int32(a))
                self._check(ctx, cfg, env, drv, s, a, s2, ts2, "solution")
                s, ts = s2, ts2
                self._solution_flag(ctx, cfg, env, drv, s, ts, "scripted solution")
            if int(ts.step_type) != 2 or not self.completed(env, s, ts):
                ctx.fail(self.name, "solution_not_recognised", "the scripted solution of the SimpleSolve level does not end the episode",
                         {"env": self.name, "config": cfg.cid})
            # `step` is not absorbing: steps taken from the solved state (the model pays the solved bonus on every step whose
            # successor is solved, `sokoban_episode_return` / `…_literal_witness`): Down and Up walk (still solved),
            # the second Up pushes a box off its target
            for a in [2, 0, 0, 2]:
                s2, ts2 = runner.step(s, np.int32(a))
                self._check(ctx, cfg, env, drv, s, a, s2, ts2, "after_solved")
                s, ts = s2, ts2
