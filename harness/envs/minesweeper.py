"""Minesweeper adapter.  Lean: Env/Minesweeper/Model.lean, Bridge/Minesweeper.lean."""
from __future__ import annotations

import numpy as np

from common import DriverError, rat, ser, unrat
from envlib import Adapter, Config, diff_json


class A(Adapter):
    name = "minesweeper"
    lean = "minesweeper"
    serves = {"C01", "C04", "C05", "C07", "C08", "C09", "C10", "C11", "C12"}
    terminate_on_invalid = True
    max_steps = 110
    ops = ("state", "step", "judge", "instance", "bounds", "episode", "spec")
    state_fields = ["board", "step_count", "flat_mine_locations"]

    def configs(self, tier):
        from jumanji.environments.logic.minesweeper import Minesweeper
        from jumanji.environments.logic.minesweeper.generator import UniformSamplingGenerator
        from jumanji.environments.logic.minesweeper.reward import DefaultRewardFn

        # (rows, cols, mines, rewards (empty, mine, invalid) or None = constructor default)
        shapes = [(10, 10, 10, None), (2, 2, 1, None), (3, 5, 4, (1.0, -1.0, -2.0)), (4, 3, 0, None),
                  (5, 2, 9, (0.5, 0.25, -0.5))]
        if tier != "quick":
            shapes += [(2, 7, 3, None), (7, 2, 5, (2.0, -3.0, -0.25)), (6, 6, 35, None), (12, 9, 20, None)]
        out = []
        for nr, nc, nm, rw in shapes:
            def build(nr=nr, nc=nc, nm=nm, rw=rw):
                gen = UniformSamplingGenerator(num_rows=nr, num_cols=nc, num_mines=nm)
                if rw is None:
                    return Minesweeper(generator=gen)
                return Minesweeper(generator=gen, reward_function=DefaultRewardFn(
                    revealed_empty_square_reward=rw[0], revealed_mine_reward=rw[1], invalid_action_reward=rw[2]))
            e, m, i = rw if rw is not None else (1.0, 0.0, 0.0)
            out.append(Config(f"minesweeper-{nr}x{nc}-m{nm}" + ("" if rw is None else "-rw"), build,
                              {"num_rows": nr, "num_cols": nc, "num_mines": nm,
                               "r_empty": rat(e), "r_mine": rat(m), "r_invalid": rat(i)},
                              rows=nr, cols=nc, mines=nm, constant_generator=(nm == 0)))
        return out

    def ser_state(self, env, s):
        return {"board": ser(s.board), "step_count": int(s.step_count),
                "flat_mine_locations": ser(s.flat_mine_locations)}

    def ser_obs(self, env, o):
        return {"board": ser(o.board), "action_mask": ser(o.action_mask), "num_mines": int(o.num_mines),
                "step_count": int(o.step_count)}

    def ser_action(self, env, a):
        return [int(x) for x in np.asarray(a).reshape(-1)]

    def reaction_invalid(self, env, s, a, s2, ts):
        """the environment treated `a` as an invalid move: the episode ended and nothing new was revealed
        (a valid move always reveals one more square, mined or not)"""
        before = int((np.asarray(s.board) >= 0).sum())
        after = int((np.asarray(s2.board) >= 0).sum())
        return bool(int(ts.step_type) == 2 and after == before)

    def horizon(self, env):
        return env.num_rows * env.num_cols - env.num_mines

    def completed(self, env, s, ts):
        return int((np.asarray(s.board) >= 0).sum()) == env.num_rows * env.num_cols - env.num_mines

    def counts_for_return(self, env, s, ts):
        return True

    # ---- whole episodes (run by the C09 / C12 sweeps): C08 theorems minesweeper_play_return / minesweeper_episode_return
    def synthetic(self, ctx, cfg, env, runner, rng, drv):
        """Whole real episodes, also ones that end on an INVALID move (the C08 sweep only plays mask-respecting actions):
        (1) return == r_empty * (safe squares revealed, counted from the raw final board and mine table) + the terminal
        term (mine / invalid-action reward), recomputed here in NumPy; (2) the model's episode runner `play`
        (op minesweeper.episode), fed the same start state and actions plus one surplus action, stops at the same step,
        in the same final state, with the same return and the same classification of the ending."""
        import jax

        # wave 3 (C01 spec membership): declared specs vs the model's obsSpec / actionSpec, the reset timestep, observations as
        # spec-level arrays, (obsSpec cfg).valid vs observation_spec.validate — every configuration
        import spec_wave3 as w3

        w3.check_specs(ctx, self, cfg, env, drv)
        w3.check_reset_and_obs(ctx, self, cfg, env, runner, rng, drv, 3 if ctx.quick else 8, 8 if ctx.quick else 60)

        R, C = cfg.meta["rows"], cfg.meta["cols"]
        r_empty, r_mine, r_invalid = (unrat(cfg.cfg[k]) for k in ("r_empty", "r_mine", "r_invalid"))
        n_ep = 6 if ctx.quick else 30
        reqs, recs = [], []
        for k in range(n_ep):
            seed = int(rng.integers(1 << 31))
            s0, ts = runner.reset(jax.random.PRNGKey(seed))
            mines = set(int(x) for x in np.asarray(s0.flat_mine_locations).reshape(-1))
            mode = k % 3      # 0: any square (ends on a mine or an invalid move), 1: unexplored squares, 2: safe squares only
            s, prev, actions, ret = s0, s0, [], 0.0
            while int(ts.step_type) != 2 and len(actions) < R * C + 2:
                b = np.asarray(s.board)
                cand = [(r, c) for r in range(R) for c in range(C)
                        if mode == 0 or (b[r, c] < 0 and (mode == 1 or (r * C + c) not in mines))]
                if mode == 2 and len(actions) >= 2 and rng.random() < 0.15:
                    cand = [(r, c) for r in range(R) for c in range(C) if b[r, c] >= 0]     # revisit: invalid move
                a = cand[int(rng.integers(len(cand)))]
                prev = s
                s, ts = runner.step(s, np.asarray(a, dtype=np.int32))
                ret += float(ts.reward)
                actions.append([int(a[0]), int(a[1])])
            ctx.evaluations += 1
            if int(ts.step_type) != 2:
                ctx.fail(self.name, "episode_unfinished", f"episode not over after {len(actions)} steps on a {R}x{C} board",
                         {"env": self.name, "config": cfg.cid, "reset_seed": seed, "actions": actions})
                continue
            lr, lc = actions[-1]
            if int(np.asarray(prev.board)[lr, lc]) >= 0:
                ending, term = "invalid", r_invalid
            elif (lr * C + lc) in mines:
                ending, term = "mine", r_mine
            else:
                ending, term = "cleared", 0.0
            fb = np.asarray(s.board)
            safe = sum(1 for r in range(R) for c in range(C) if fb[r, c] >= 0 and (r * C + c) not in mines)
            expected = r_empty * safe + term
            case = {"env": self.name, "config": cfg.cid, "reset_seed": seed, "actions": actions, "return": ret,
                    "safe_revealed": safe, "ending": ending}
            if abs(ret - expected) > 1e-4 * (1 + len(actions)):
                ctx.fail(self.name, "episode_return", f"return {ret} != {r_empty} * {safe} safe squares revealed + terminal term {term} "
                         f"(episode ended: {ending})", case)
            if ending == "cleared" and int((fb >= 0).sum()) != R * C - len(mines):
                ctx.fail(self.name, "episode_end", "episode ended although neither a mine nor a revealed square was chosen and the board is not cleared", case)
            ctx.nontrivial.add((self.name, "episode", ending, seed))
            ctx.count(f"{self.name}.episode_{ending}")
            reqs.append({"op": "minesweeper.episode", "cfg": cfg.cfg, "state": self.ser_state(env, s0),
                         "actions": actions + [[0, 0]]})
            recs.append((case, s, ret, expected))
        for (case, s, ret, expected), m in zip(recs, drv.batch(reqs)):
            ctx.evaluations += 1
            if isinstance(m, DriverError):
                ctx.disagree(self.name, f"episode op rejects a real episode: {m}", case)
                continue
            d = diff_json(m["final"], self.ser_state(env, s), path="final")
            if d or m["ending"] != case["ending"]:
                ctx.fail(self.name, "episode_vs_model", f"the model's episode (play) ends differently: {d[:3]} ending {m['ending']} vs {case['ending']}", case)
            if abs(unrat(m["return"]) - ret) > 1e-4 * (1 + len(case["actions"])) or m["safe_revealed"] != case["safe_revealed"]:
                ctx.fail(self.name, "episode_vs_model", f"the model's episode return {unrat(m['return'])} / safe squares {m['safe_revealed']} "
                         f"differ from the real episode's {ret} / {case['safe_revealed']}", case)
            if m["formula"] != m["return"] or m["start_consistent"] is not True:
                ctx.disagree(self.name, "the proved return formula does not hold inside the model (theorem hypothesis violated?)", case)

