"""Minesweeper adapter.  Lean: Env/Minesweeper/Model.lean, Bridge/Minesweeper.lean."""
from __future__ import annotations

import numpy as np

from common import rat, ser
from envlib import Adapter, Config


class A(Adapter):
    name = "minesweeper"
    lean = "minesweeper"
    serves = {"C01", "C04", "C05", "C07", "C08", "C09", "C10", "C11", "C12"}
    terminate_on_invalid = True
    max_steps = 110
    ops = ("state", "step", "judge", "instance", "bounds")
    state_fields = ["board", "step_count", "flat_mine_locations"]

    def configs(self, tier):
        from jumanji.environments.logic.minesweeper import Minesweeper
        from jumanji.environments.logic.minesweeper.generator import UniformSamplingGenerator
        from jumanji.environments.logic.minesweeper.reward import DefaultRewardFn

        # (rows, cols, mines, rewards (empty, mine, invalid) or None = constructor default)
        shapes = [(10, 10, 10, None), (2, 2, 1, None), (3, 5, 4, (1.0, -1.0, -2.0)), (4, 3, 0, None),
                  (5, 2, 9, (0.5, 0.25, -0.5))]
        if tier != "quick":
            shapes += [(2, 7, 3, None), (7, 2, 5, (2.0, -3.0, -0.25)), (6, 6, 35, None), (12, 9, 20, None)]
        out = []
        for nr, nc, nm, rw in shapes:
            def build(nr=nr, nc=nc, nm=nm, rw=rw):
                gen = UniformSamplingGenerator(num_rows=nr, num_cols=nc, num_mines=nm)
                if rw is None:
                    return Minesweeper(generator=gen)
                return Minesweeper(generator=gen, reward_function=DefaultRewardFn(
                    revealed_empty_square_reward=rw[0], revealed_mine_reward=rw[1], invalid_action_reward=rw[2]))
            e, m, i = rw if rw is not None else (1.0, 0.0, 0.0)
            out.append(Config(f"minesweeper-{nr}x{nc}-m{nm}" + ("" if rw is None else "-rw"), build,
                              {"num_rows": nr, "num_cols": nc, "num_mines": nm,
                               "r_empty": rat(e), "r_mine": rat(m), "r_invalid": rat(i)},
                              rows=nr, cols=nc, mines=nm, constant_generator=(nm == 0)))
        return out

    def ser_state(self, env, s):
        return {"board": ser(s.board), "step_count": int(s.step_count),
                "flat_mine_locations": ser(s.flat_mine_locations)}

    def ser_obs(self, env, o):
        return {"board": ser(o.board), "action_mask": ser(o.action_mask), "num_mines": int(o.num_mines),
                "step_count": int(o.step_count)}

    def ser_action(self, env, a):
        return [int(x) for x in np.asarray(a).reshape(-1)]

    def reaction_invalid(self, env, s, a, s2, ts):
        """the environment treated `a` as an invalid move: the episode ended and nothing new was revealed
        (a valid move always reveals one more square, mined or not)"""
        before = int((np.asarray(s.board) >= 0).sum())
        after = int((np.asarray(s2.board) >= 0).sum())
        return bool(int(ts.step_type) == 2 and after == before)

    def horizon(self, env):
        return env.num_rows * env.num_cols - env.num_mines

    def completed(self, env, s, ts):
        return int((np.asarray(s.board) >= 0).sum()) == env.num_rows * env.num_cols - env.num_mines

    def counts_for_return(self, env, s, ts):
        return True
