"""GraphColoring adapter.  Lean: Env/GraphColoring/Model.lean, Bridge/GraphColoring.lean."""
from __future__ import annotations

import numpy as np

from common import ser
from envlib import Adapter, Config


class A(Adapter):
    name = "graph_coloring"
    lean = "graph_coloring"
    serves = {"C01", "C04", "C05", "C06", "C08", "C09", "C10", "C11", "C12"}
    ops = ("state", "step", "judge", "instance", "bounds", "spec")
    terminate_on_invalid = True
    max_steps = 60

    def configs(self, tier):
        from jumanji.environments.logic.graph_coloring import GraphColoring
        from jumanji.environments.logic.graph_coloring.generator import RandomGenerator

        sizes = [(20, 0.8), (5, 0.5), (1, 0.5), (2, 0.9), (12, 0.3)]
        if tier != "quick":
            sizes += [(3, 0.5), (7, 0.95), (50, 0.2), (30, 0.5)]
        out = []
        for n, p in sizes:
            def build(n=n, p=p):
                return GraphColoring(generator=RandomGenerator(num_nodes=n, edge_probability=p))
            # n = 1: the only graph is the empty one (constant generator by necessity)
            out.append(Config(f"graph_coloring-n{n}-p{p}", build, {"n": n}, n=n, p=p,
                              constant_generator=(n == 1)))
        # a user-supplied generator that hands out the adjacency matrix as an INTEGER 0/1 array (built from an edge list, loaded from a
        # file): the abstract Generator only promises "an adjacency matrix"; not a shipped generator, so not subject to C10's certificates
        from jumanji.environments.logic.graph_coloring.generator import Generator

        class IntAdjacency(Generator):
            def __init__(self, n, p):
                self._inner = RandomGenerator(num_nodes=n, edge_probability=p)

            @property
            def num_nodes(self):
                return self._inner.num_nodes

            def __call__(self, key):
                import jax.numpy as jnp
                return jnp.asarray(self._inner(key), jnp.int32)

        out.append(Config("graph_coloring-n7-p0.6-int-adjacency", lambda: GraphColoring(generator=IntAdjacency(7, 0.6)), {"n": 7}, n=7, p=0.6,
                          # (the observation then carries an int32 adj_matrix where the spec declares bool — on the unchanged tree too — so
                          # this configuration is outside C01's contract and is used for the rule properties only)
                          only={"C04", "C05", "C06", "C08"}))
        return out

    def ser_state(self, env, s):
        return {"adj_matrix": ser(np.asarray(s.adj_matrix).astype(bool)), "colors": ser(s.colors),
                "current_node_index": int(s.current_node_index), "action_mask": ser(s.action_mask)}

    def ser_obs(self, env, o):
        return {"adj_matrix": ser(np.asarray(o.adj_matrix).astype(bool)), "colors": ser(o.colors),
                "action_mask": ser(o.action_mask), "current_node_index": int(o.current_node_index)}

    def ser_action(self, env, a):
        return int(a)

    def reaction_invalid(self, env, s, a, s2, ts):
        """did the environment treat `a` as invalid?  It then ends the episode with reward -num_nodes.  A valid
        last move that completes a colouring with num_nodes different colours earns the same reward: undecidable
        from outside in that one case (None)."""
        n = env.num_nodes
        if int(ts.step_type) == 2 and float(ts.reward) == -float(n):
            cols = np.asarray(s2.colors)
            if (cols >= 0).all() and len(set(cols.tolist())) == n:
                return None
            return True
        return False

    # ---- wave 3 (run by the C09 / C12 sweeps): C01 spec membership theorems graph_coloring_*_obs_valid / _obsSpec_generated
    def synthetic(self, ctx, cfg, env, runner, rng, drv):
        """declared specs vs the model's obsSpec / actionSpec, the reset timestep, observations as spec-level arrays,
        (obsSpec n).valid vs observation_spec.validate, and the invariant SpecInv on every visited state"""
        import jax

        import spec_wave3 as w3
        from common import DriverError

        w3.check_specs(ctx, self, cfg, env, drv)
        w3.check_reset_and_obs(ctx, self, cfg, env, runner, rng, drv, 3 if ctx.quick else 8, 10 if ctx.quick else 60)
        # SpecInv along uniform play that continues after LAST (the current node wraps round)
        s, ts = runner.reset(jax.random.PRNGKey(int(rng.integers(1 << 31))))
        states = [s]
        for t in range(min(2 * env.num_nodes + 1, 45)):
            s, ts = runner.step(s, self.choose_action(env, s, ts, "uniform", rng, t))
            states.append(s)
        reps = drv.batch([dict(op="graph_coloring.state", cfg=cfg.cfg, state=self.ser_state(env, st)) for st in states])
        for st, m in zip(states, reps):
            ctx.evaluations += 1
            info = {"env": self.name, "config": cfg.cid, "state": self.ser_state(env, st)}
            if isinstance(m, DriverError):
                ctx.disagree(self.name, f"state op rejects an implementation state: {m}", info)
            elif m["spec_inv"] is not True:
                ctx.fail(self.name, "spec_inv", "the invariant SpecInv of the C01 membership theorems is false on a state of an in-spec play", info)

    def _acts(self, env):
        # not cached: envlib caches the action list by id(env), and ids are reused once an environment is freed
        return np.arange(env.num_nodes, dtype=np.int32)

    def horizon(self, env):
        return env.num_nodes

    def completed(self, env, s, ts):
        """C06 asks this only for mask-respecting play, where an episode can end in no other way than by completion:
        every terminal state of such play must be a complete proper colouring"""
        return True

    def counts_for_return(self, env, s, ts):
        return bool((np.asarray(s.colors) >= 0).all())
