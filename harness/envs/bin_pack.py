"""BinPack adapter.  Lean: Env/BinPack/Model.lean, Bridge/BinPack.lean  (DESIGN A.4).

* `_update_ems` is modelled twice: as the L1 transliteration `updateEms` (deterministic step `step₁`, what
  `bin_pack.step` returns) and as a relation `EmsRel` on the successor EMS buffer.  The successor buffer of the
  implementation is handed to `bin_pack.step` as the `draw` of a step that packs an item; the op throws when it is
  outside the relation (every new active EMS is an old active EMS clear of the new item, or
  hyperplane(item, axis, dir) ∩ old active EMS) or when its SET of active EMSs differs from the one `updateEms`
  computes (C04 / C05 sweeps).  The C09 sweep compares the whole successor state of `step₁` with the implementation's,
  slot by slot.
* C10 needs `generate_solution(key)` for the key of each reset.  The generic sweep only hands the reset *state* to
  the adapter and `state.key` is not the reset key, so the environments built here are `BinPack` instances whose
  `reset` additionally reports (state.key, reset key) to the adapter through `jax.debug.callback` (a pure side
  channel: the returned state and timestep are exactly `BinPack.reset`'s).  `ser_state` attaches the generator's
  solution to a state that is still a fresh reset state with a recorded key."""
from __future__ import annotations

import numpy as np

from common import rat, ser
from envlib import Adapter, Config

_KEYS: dict = {}        # bytes(state.key) -> reset key (uint32[2])


def _record(state_key, reset_key):
    _KEYS[np.asarray(state_key).tobytes()] = np.array(reset_key)
    if len(_KEYS) > 20000:
        for k in list(_KEYS)[:10000]:
            del _KEYS[k]


def _make_env(generator, obs_num_ems, dense, normalize):
    import jax
    from jumanji.environments.packing.bin_pack import BinPack
    from jumanji.environments.packing.bin_pack.reward import DenseReward, SparseReward

    class RecordingBinPack(BinPack):
        def reset(self, key):
            state, timestep = super().reset(key)
            jax.debug.callback(_record, state.key, key)
            return state, timestep

    return RecordingBinPack(generator=generator, obs_num_ems=obs_num_ems,
                            reward_fn=DenseReward() if dense else SparseReward(),
                            normalize_dimensions=normalize)


def _space(sp):
    return {k: ser(getattr(sp, k)) for k in ("x1", "x2", "y1", "y2", "z1", "z2")}


class A(Adapter):
    name = "bin_pack"
    lean = "bin_pack"
    serves = {"C01", "C04", "C05", "C06", "C08", "C09", "C10", "C11", "C12"}
    ops = ("state", "step", "judge", "instance", "bounds", "spec")
    terminate_on_invalid = True
    max_steps = 40

    def configs(self, tier):
        from jumanji.environments.packing.bin_pack.generator import RandomGenerator, ToyGenerator

        # (id, generator factory, obs_num_ems, normalize, dims, constant?)
        big = (5870, 2330, 2200)
        specs = [
            ("rand8-e20-o20-norm", lambda: RandomGenerator(8, 20, split_num_same_items=2), 20, True, big, False),
            ("rand12-e12-o5-raw-small", lambda: RandomGenerator(12, 12, split_num_same_items=5, container_dims=(13, 7, 10)), 5, False, (13, 7, 10), False),
            ("toy-o40-norm", lambda: ToyGenerator(), 40, True, big, True),
        ]
        if tier != "quick":
            specs += [
                ("rand10-e24-o6-raw", lambda: RandomGenerator(10, 24, split_num_same_items=3), 6, False, big, False),
                ("rand9-e30-o3-norm-cube", lambda: RandomGenerator(9, 30, split_num_same_items=2, container_dims=(64, 64, 64)), 3, True, (64, 64, 64), False),
                ("toy-o60-raw", lambda: ToyGenerator(), 60, False, big, True),
                ("toy-o5-norm", lambda: ToyGenerator(), 5, True, big, True),
                ("rand12-e40-o40-norm", lambda: RandomGenerator(12, 40, split_num_same_items=2), 40, True, big, False),
                ("rand8-e8-o4-raw-tiny", lambda: RandomGenerator(8, 8, split_num_same_items=4, container_dims=(5, 4, 3)), 4, False, (5, 4, 3), False),
            ]
        out = []
        for n, (cid, gen, obs, norm, dims, const) in enumerate(specs):
            nitems = int(gen().max_num_items)
            # both reward functions everywhere in the thorough tier; alternate in the quick tier (the partner of
            # each configuration is the same instance under the other reward function, so C08 sees both anyway)
            for dense in ((True, False) if tier != "quick" else ((n % 2 == 0),)):
                def build(gen=gen, obs=obs, norm=norm, dense=dense):
                    return _make_env(gen(), obs, dense, norm)
                def partner(gen=gen, obs=obs, norm=norm, dense=dense):
                    return _make_env(gen(), obs, not dense, norm)
                out.append(Config(f"bin_pack-{cid}-{'dense' if dense else 'sparse'}", build,
                                  {"obs_num_ems": obs, "normalize": norm, "dense": dense, "f32": True,
                                   "tol": rat(1e-5), "container_dims": list(dims), "max_num_items": nitems},
                                  dense=dense, partner=partner, constant_generator=const,
                                  max_instances=(3 if const else 10**9)))
        # generator-only configurations (C10): many-way splits of one item — the boundaries of a k-way split are k multiples of
        # length / k computed in float32, which must still add up to the whole length for every k the constructor accepts
        for cid, k in (("rand40-e80-split7", 7), ("rand40-e80-split11", 11)):
            def buildg(k=k):
                return _make_env(RandomGenerator(40, 80, split_num_same_items=k), 40, True, True)
            out.append(Config(f"bin_pack-{cid}", buildg,
                              {"obs_num_ems": 40, "normalize": True, "dense": True, "f32": True, "tol": rat(1e-5), "container_dims": list(big),
                               "max_num_items": 40},
                              dense=True, partner=None, constant_generator=False, only={"C10"}, instances_factor=(6 if tier == "quick" else 2)))
        return out

    # ---- serialisation
    def _ser_core(self, s):
        am = s.action_mask
        return {"container": _space(s.container), "ems": _space(s.ems), "ems_mask": ser(s.ems_mask),
                "items": {"x_len": ser(s.items.x_len), "y_len": ser(s.items.y_len), "z_len": ser(s.items.z_len)},
                "items_mask": ser(s.items_mask), "items_placed": ser(s.items_placed),
                "items_location": {"x": ser(s.items_location.x), "y": ser(s.items_location.y), "z": ser(s.items_location.z)},
                "action_mask": [] if am is None else ser(am),
                "sorted_ems_indexes": ser(s.sorted_ems_indexes)}

    def ser_state(self, env, s):
        js = self._ser_core(s)
        sol = self._solution(env, s)
        if sol is not None:
            js["solution"] = self._ser_core(sol)
        return js

    def _solution(self, env, s):
        """generate_solution(reset key), for a state that is still the reset state of a recorded reset"""
        import jax

        if np.asarray(s.items_placed).ndim != 1 or np.asarray(s.items_placed).any():
            return None
        jax.effects_barrier()
        kb = np.asarray(s.key).tobytes()
        key = _KEYS.get(kb)
        if key is None:
            return None
        cache = getattr(self, "_sol_cache", None)
        if cache is None or cache[0] is not env or cache[1] != kb:
            gen = getattr(self, "_gen_jit", None)
            if gen is None or gen[0] is not env:
                self._gen_jit = gen = (env, jax.jit(env.generator.generate_solution))
            self._sol_cache = cache = (env, kb, gen[1](jax.numpy.asarray(key, dtype=jax.numpy.uint32)))
        return cache[2]

    def ser_obs(self, env, o):
        return {"ems": _space(o.ems), "ems_mask": ser(o.ems_mask),
                "items": {"x_len": ser(o.items.x_len), "y_len": ser(o.items.y_len), "z_len": ser(o.items.z_len)},
                "items_mask": ser(o.items_mask), "items_placed": ser(o.items_placed),
                "action_mask": ser(o.action_mask)}

    def ser_action(self, env, a):
        a = np.asarray(a).reshape(-1)
        return [int(a[0]), int(a[1])]

    def draw(self, env, s, a, s2, ts):
        """the successor EMS buffer of a step that packed something: judged against the relation `EmsRel` and compared
        (as a set of active EMSs) with the model's `updateEms` by `bin_pack.step`"""
        if np.array_equal(np.asarray(s.items_placed), np.asarray(s2.items_placed)):
            return None
        return {"ems": _space(s2.ems), "ems_mask": ser(s2.ems_mask)}

    # ---- wave 4 (hook of the C09 / C12 sweeps): declared specs vs the model's obsSpec / actionSpec (`bin_pack.spec`), the reset
    # timestep, the observation arrays (`toNValue` layout; float leaves within tolerance), membership (`obs_in_spec` vs
    # observation_spec.validate) and the invariant SpecInv on implementation states at reset, along play and on the terminal step
    # (harness/wave4_spec.py; theorems binpack_obsSpec_generated, binpack_*_obs_valid, binpack_specInv_invariant)
    def synthetic(self, ctx, cfg, env, runner, rng, drv):
        import wave4_spec as w4

        w4.check_specs(ctx, self, cfg, env, drv)
        w4.check_reset_and_obs(ctx, self, cfg, env, runner, rng, drv, 2 if ctx.quick else 6, 6 if ctx.quick else 40,
                               policies=("masked", "uniform"), extra="spec_inv")

    def fan_actions(self, env, s, ts, rng, cap=4096):
        """all actions when there are few; otherwise every masked-in action (up to half of the budget) and a random
        sample of masked-out ones (slicing the vmapped results is what costs time in the generic sweeps)"""
        acts = self._acts(env)
        limit = 24 if cap == 512 else (40 if cap < 512 else 240)
        if len(acts) <= limit:
            return acts
        mask = self.flat_mask(env, s, ts.observation)
        legal, illegal = np.flatnonzero(mask), np.flatnonzero(~mask)
        if len(legal) > limit // 2:
            legal = rng.choice(legal, limit // 2, replace=False)
        illegal = rng.choice(illegal, min(len(illegal), limit - len(legal)), replace=False)
        return acts[np.sort(np.concatenate([legal, illegal]).astype(np.int64))]

    def reaction_invalid(self, env, s, a, s2, ts):
        """a valid action always packs one more item; an invalid one ends the episode and packs nothing"""
        return bool(int(ts.step_type) == 2 and
                    np.array_equal(np.asarray(s.items_placed), np.asarray(s2.items_placed)))

    def horizon(self, env):
        return env.generator.max_num_items

    def completed(self, env, s, ts):
        """C06 asks this only for mask-respecting play, which can only end because nothing more can be packed"""
        return True

    def counts_for_return(self, env, s, ts):
        return True
