"""Helpers shared by the wrapper properties C13-C15: tolerant pytree comparison, in-spec action sampling, key terms."""
from __future__ import annotations

from typing import Any, Dict, List, Optional

import numpy as np


def leaves(t: Any) -> List[Any]:
    import jax

    return jax.tree_util.tree_leaves(t)


def tree_close(a: Any, b: Any, tol: float = 1e-5) -> bool:
    """same structure; integer/bool leaves equal; float leaves within tolerance"""
    import jax

    if jax.tree_util.tree_structure(a) != jax.tree_util.tree_structure(b):
        return False
    for x, y in zip(leaves(a), leaves(b)):
        x, y = np.asarray(x), np.asarray(y)
        if x.shape != y.shape:
            return False
        if x.dtype.kind == "f" or y.dtype.kind == "f":
            if not np.allclose(x, y, rtol=tol, atol=tol, equal_nan=True):
                return False
        elif not np.array_equal(x, y):
            return False
    return True


def first_diff(a: Any, b: Any) -> str:
    import jax

    if jax.tree_util.tree_structure(a) != jax.tree_util.tree_structure(b):
        return "structure"
    pa = jax.tree_util.tree_flatten_with_path(a)[0]
    for (path, x), y in zip(pa, leaves(b)):
        x, y = np.asarray(x), np.asarray(y)
        same = x.shape == y.shape and (np.allclose(x, y, rtol=1e-5, atol=1e-5, equal_nan=True) if (x.dtype.kind == "f" or y.dtype.kind == "f") else np.array_equal(x, y))
        if not same:
            return jax.tree_util.keystr(path)
    return ""


def sample_action(env: Any, rng: np.random.Generator) -> np.ndarray:
    """a uniformly random in-spec action"""
    from jumanji import specs

    sp = env.action_spec
    if isinstance(sp, specs.DiscreteArray):
        return np.asarray(rng.integers(int(sp.num_values)), dtype=np.int32)
    if isinstance(sp, specs.MultiDiscreteArray):
        nv = np.asarray(sp.num_values)
        return (rng.random(nv.shape) * nv).astype(np.int32)
    if isinstance(sp, specs.BoundedArray):
        lo = np.broadcast_to(np.asarray(sp.minimum), sp.shape)
        hi = np.broadcast_to(np.asarray(sp.maximum), sp.shape)
        return (lo + np.floor(rng.random(sp.shape) * (hi - lo + 1))).astype(sp.dtype)
    raise NotImplementedError(type(sp))


def eval_key(term: Dict[str, Any]) -> Any:
    """evaluate a key term {seed: n} | {left: t} | {right: t} with the real jax.random"""
    import jax

    if "seed" in term:
        return jax.random.PRNGKey(int(term["seed"]))
    if "left" in term:
        return jax.random.split(eval_key(term["left"]))[0]
    return jax.random.split(eval_key(term["right"]))[1]


def key_bits(k: Any) -> tuple:
    return tuple(int(x) for x in np.asarray(k).reshape(-1))


def descendant_depth(k0: Any, k: Any, depth: int = 3) -> Optional[int]:
    """is `k` obtained from `k0` by <= depth binary splits (or a split into 3..5)?  returns the depth or None"""
    import jax

    target = key_bits(k)
    frontier = [k0]
    if key_bits(k0) == target:
        return 0
    for d in range(1, depth + 1):
        nxt = []
        for q in frontier:
            for n in (2, 3, 4, 5):
                for c in jax.random.split(q, n):
                    if key_bits(c) == target:
                        return d
                    if n == 2:
                        nxt.append(c)
        frontier = nxt
    return None


def ts_fields(ts: Any) -> Dict[str, Any]:
    ex = dict(ts.extras) if ts.extras is not None else {}
    nxt = ex.pop("next_obs", None)
    return {"step_type": ts.step_type, "reward": ts.reward, "discount": ts.discount, "obs": ts.observation,
            "extras": ex, "next_obs": nxt}


def stacked(env: Any) -> Any:
    """`env` inside a user-style wrapper whose `reset` is NOT the inner environment's reset (the key is folded first) and which adds
    nothing else: a wrapper placed on top must reset through this wrapper, not through `unwrapped` (Props.C13.step_last_stack)"""
    import jax
    from jumanji.wrappers import Wrapper

    class KeyFoldWrapper(Wrapper):
        fold = 977   # a Python attribute read when `reset` is traced: the user may change it between phases and re-jit

        def reset(self, key):  # type: ignore[override]
            return self._env.reset(jax.random.fold_in(key, self.fold))

    return KeyFoldWrapper(env)


def stack_variants(entries: List[Any], quick: bool, seed: int) -> List[Any]:
    """(entry, stacked?) pairs: every entry bare; behind a user wrapper for a rotating share (quick) or all (thorough) of them"""
    out = [(e, False) for e in entries]
    for e in entries:
        if e.meta.get("constant_generator"):
            continue  # the folded key would not change what reset returns
        if (not quick) or e.cls in ("Snake", "Knapsack") or (sum(map(ord, e.cid)) + seed) % 4 == 0:
            out.append((e, True))
    return out
