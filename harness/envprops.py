"""The per-environment properties (C04-C09, C12): one generic loop over adapters x configurations x rollouts,
with property-specific comparisons.  Step-local correspondence: implementation states are fed to the Lean
model; Lean carries the induction over episodes (DESIGN.md section 1)."""
from __future__ import annotations

import time
from typing import Any, Dict, List, Optional

import numpy as np

import envlib
from common import Ctx, DriverError, ser_rats, unrat, close
from envlib import Adapter, Config, Runner, diff_json, load_adapters, rollouts, state_key, tree_index

MASKED = ["masked", "masked_low", "masked_high"]


def budget(ctx: Ctx, quick: int, thorough: int) -> int:
    # the thorough tier also runs more configurations per environment (larger sizes, every reward function), so the per-configuration
    # budgets grow by at most 4x: a thorough check should finish in tens of minutes, not hours (measured: C04 thorough took 91 min
    # with the uncapped budgets, 61 of them in FlatPack)
    return quick if ctx.quick else min(thorough, 4 * quick)


def adapters_for(pid: str) -> List[Adapter]:
    # C01 (spec conformance) and C03 (protocol) apply to every environment
    return [a for a in load_adapters().values() if pid in a.serves or pid in ("C01", "C03")]


def _req(ad: Adapter, op: str, cfg: Config, **kw: Any) -> Dict[str, Any]:
    return dict(op=f"{ad.lean}.{op}", cfg=cfg.cfg, **kw)


def _replay(ad: Adapter, cfg: Config, rec: Dict[str, Any], env: Any, **extra: Any) -> Dict[str, Any]:
    r = {"env": ad.name, "config": cfg.cid, "reset_seed": rec.get("seed"), "t": rec.get("t"),
         "policy": rec.get("policy"), "state": ad.ser_state(env, rec["state"])}
    if "action" in rec:
        r["action"] = ad.ser_action(env, rec["action"])
    r.update(extra)
    return r


def _run_adapters(pid: str, tier: str, seed: int, extended: bool, names: List[str]) -> Dict[str, Any]:
    """worker: run the sweep of `pid` for the adapters `names` in this process; returns a picklable fragment of a Ctx"""
    import os

    os.environ["VERIF_ONLY_ENVS"] = ",".join(names)
    envlib.ADAPTERS.clear()
    ctx = Ctx(pid, tier, seed)
    _run_local(ctx, pid, extended, names)
    if ctx.driver:
        ctx.driver.close()
    return {"failures": [(f.env, f.kind, f.what, common_jsonable(f.replay), f.sig) for f in ctx.failures],
            "disagreements": common_jsonable(ctx.disagreements), "stats": ctx.stats, "samples": common_jsonable(ctx.samples),
            "evaluations": ctx.evaluations, "nontrivial": len(ctx.nontrivial), "names": names}


def common_jsonable(x: Any) -> Any:
    from common import _jsonable

    return _jsonable(x)


def _run_local(ctx: Ctx, pid: str, extended: bool, names: Optional[List[str]] = None) -> None:
    mult = 3 if extended else 1
    drv = ctx.get_driver()
    per_env: Dict[str, Any] = {}
    for ad in adapters_for(pid):
        if names is not None and ad.name not in names:
            continue
        # a separate stream per adapter: results do not depend on which other adapters run, or in which process
        rng = np.random.default_rng([ctx.seed, sum(map(ord, ad.name))])
        t0 = time.time()
        n_before = ctx.evaluations
        for cfg in ad.configs(ctx.tier):
            if cfg.meta.get("only") and pid not in cfg.meta["only"]:
                continue
            try:
                env = cfg.build()
            except (ValueError, AssertionError):
                if not cfg.meta.get("optional"):
                    raise
                # a configuration at the edge of what the constructor accepts: refused on this tree, nothing to check
                ctx.count(f"{ad.name}.config_refused_by_constructor")
                continue
            if cfg.meta.get("optional"):
                ctx.count(f"{ad.name}.edge_config_accepted")
            runner = Runner(env)
            fn = globals()[f"_{pid.lower()}"]
            fn(ctx, ad, cfg, env, runner, rng, drv, mult)
        per_env[ad.name] = {"evaluations": ctx.evaluations - n_before, "wall_s": round(time.time() - t0, 1)}
    ctx.stats.setdefault("per_env", {}).update(per_env)


def run(ctx: Ctx, pid: str, extended: bool = False) -> None:
    """run the sweep of property `pid` over all adapters that serve it, in parallel worker processes"""
    import os

    ads = adapters_for(pid)
    ctx.coverage_extra["envs_with_model"] = sorted(a.name for a in ads)
    workers = int(os.environ.get("VERIF_WORKERS", str(8 if ctx.quick else max(8, min(16, os.cpu_count() or 8)))))
    names = [a.name for a in ads]
    if workers <= 1 or len(names) <= 2:
        _run_local(ctx, pid, extended)
        return
    import concurrent.futures as cf
    import multiprocessing as mp

    # longest-first round robin so that the groups are balanced
    weight = {"bin_pack": 9, "robot_warehouse": 6, "pac_man": 5, "connector": 5, "lbf": 5, "mmst": 8, "multi_cvrp": 7, "sudoku": 4,
              "job_shop": 4, "rubiks_cube": 5, "flat_pack": 10, "snake": 4, "tetris": 3}
    order = sorted(names, key=lambda n: -weight.get(n, 2))
    groups: List[List[str]] = [[] for _ in range(min(workers, len(order)))]
    load = [0] * len(groups)
    for n in order:
        i = load.index(min(load))
        groups[i].append(n)
        load[i] += weight.get(n, 2)
    # drop the parent's driver before forking helpers
    with cf.ProcessPoolExecutor(max_workers=len(groups), mp_context=mp.get_context("spawn")) as ex:
        futs = [ex.submit(_run_adapters, pid, ctx.tier, ctx.seed, extended, g) for g in groups if g]
        for fu in futs:
            r = fu.result()
            for (env, kind, what, replay, sig) in r["failures"]:
                ctx.fail(env, kind, what, replay, {k: v for k, v in sig.items() if k not in ("env", "kind")})
            for d in r["disagreements"]:
                ctx.disagree(d["env"], d["what"], d["case"])
            for k, v in r["stats"].items():
                if k == "per_env":
                    ctx.stats.setdefault("per_env", {}).update(v)
                elif isinstance(v, (int, float)):
                    ctx.stats[k] = ctx.stats.get(k, 0) + v
                else:
                    ctx.stats[k] = v
            for smp in r["samples"]:
                ctx.sample(smp, cap=12)
            ctx.evaluations += r["evaluations"]
            ctx.nontrivial.update((tuple(r["names"]), i) for i in range(r["nontrivial"]))


# --------------------------------------------------------------------------------------
# C04 — mask = legal moves
# --------------------------------------------------------------------------------------

def _c04(ctx, ad, cfg, env, runner, rng, drv, mult):
    episodes = budget(ctx, 4, 20) * mult
    recs = [r for r in rollouts(ad, env, runner, rng, episodes) if not r["reset"] and not ad.is_terminal_state(env, r["state"], r["ts_prev"])]
    seen = set()
    todo = []
    for r in recs:
        js = ad.ser_state(env, r["state"])
        k = state_key(js)
        if k in seen:
            continue
        seen.add(k)
        todo.append((r, js))
    reps = drv.batch([_req(ad, "state", cfg, state=js) for (_, js) in todo])
    fan_cap = budget(ctx, 6, 40)
    for n, ((r, js), st) in enumerate(zip(todo, reps)):
        if isinstance(st, DriverError):
            ctx.disagree(ad.name, f"model rejects an implementation state: {st}", _replay(ad, cfg, r, env))
            continue
        # the mask theorems assume the environment's invariant (E.Inv): a RESET state the Lean predicates reject is outside what they cover —
        # a mask that agrees with "legality" on a malformed board (e.g. no cell counted as empty) is not the set of legal moves of the instance
        if r.get("t") == 0 and (st.get("feasible") is False or st.get("consistent") is False):
            ctx.fail(ad.name, "reset_state_outside_invariant",
                     "the reset state violates the invariant the mask theorems assume (" + ", ".join(k for k in ("feasible", "consistent") if st.get(k) is False) + " is false)",
                     _replay(ad, cfg, r, env))
        impl_mask = ad.flat_mask(env, r["state"], r["ts_prev"].observation)
        m1 = np.array(st["mask"], dtype=bool).reshape(-1)
        legal = np.array(st["legal"], dtype=bool).reshape(-1)
        ctx.evaluations += len(legal)
        ctx.count(f"{ad.name}.states")
        ctx.count(f"{ad.name}.legal_bits", int(legal.sum()))
        ctx.count(f"{ad.name}.illegal_bits", int((~legal).sum()))
        if legal.any() and (~legal).any():
            ctx.nontrivial.add((ad.name, state_key(js)))
        if impl_mask.shape != legal.shape:
            ctx.disagree(ad.name, f"mask shape {impl_mask.shape} vs model {legal.shape}", _replay(ad, cfg, r, env))
            continue
        bad = np.flatnonzero(impl_mask != legal)
        if len(bad):
            a = int(bad[0])
            ctx.fail(ad.name, "mask_vs_rules",
                     f"mask[{a}]={bool(impl_mask[a])} but the rules say legal={bool(legal[a])}",
                     _replay(ad, cfg, r, env, mask_index=a, impl_mask=impl_mask.tolist(), legal=legal.tolist()))
        if (m1 != impl_mask).any():
            ctx.disagree(ad.name, "L1 mask != implementation mask", _replay(ad, cfg, r, env, model_mask=m1.tolist(), impl_mask=impl_mask.tolist()))
        if (m1 != legal).any():
            ctx.disagree(ad.name, "L1 mask != L2 legal inside the model (theorem mask_iff_legal would be false here)", _replay(ad, cfg, r, env))
        ctx.sample({"env": ad.name, "config": cfg.cid, "mask": impl_mask.astype(int).tolist()[:32], "legal": legal.astype(int).tolist()[:32]})
        # the environment's own reaction to every action of this state (vs the rules, via the step op's "valid")
        if n < fan_cap and hasattr(ad, "reaction_invalid"):
            fa = ad.fan_actions(env, r["state"], r["ts_prev"], rng, cap=budget(ctx, 256, 4096))
            s2s, tss = runner.fan(r["state"], fa)
            sreps = drv.batch([_req(ad, "step", cfg, state=js, action=ad.ser_action(env, a),
                                    **_draw_kw(ad, env, r["state"], a, tree_index(s2s, i), tree_index(tss, i)))
                               for i, a in enumerate(fa)])
            for i, (a, m) in enumerate(zip(fa, sreps)):
                if isinstance(m, DriverError):
                    ctx.disagree(ad.name, f"model rejects a fan-out case: {m}", _replay(ad, cfg, r, env, action=ad.ser_action(env, a)))
                    break
                inv = ad.reaction_invalid(env, r["state"], a, tree_index(s2s, i), tree_index(tss, i))
                if inv is None:
                    continue
                ctx.evaluations += 1
                model_inv = _negate(m["valid"])
                if _jsonable_eq(inv, model_inv) is False:
                    ctx.fail(ad.name, "reaction_vs_rules",
                             f"environment treated action {ad.ser_action(env, a)} as invalid={inv} but by the rules invalid={model_inv}",
                             _replay(ad, cfg, r, env, action=ad.ser_action(env, a)))
                    break


def _draw_kw(ad, env, s, a, s2, ts2):
    d = ad.draw(env, s, a, s2, ts2)
    return {} if d is None else {"draw": d}


def _negate(v):
    if isinstance(v, list):
        return [_negate(x) for x in v]
    return not bool(v)


def _jsonable_eq(a, b):
    a = np.asarray(a).astype(bool).reshape(-1)
    b = np.asarray(b).astype(bool).reshape(-1)
    return a.shape == b.shape and bool((a == b).all())


# --------------------------------------------------------------------------------------
# C05 — illegal actions have only their documented effect;  C09 — transitions follow the rules
# --------------------------------------------------------------------------------------

def _transition_cases(ctx, ad, cfg, env, runner, rng, episodes, fan_states, only_illegal, drv):
    """(rec, action, s2, ts2) for rollout transitions plus the fan-out of some states"""
    cases = []
    fan_left = fan_states
    for r in rollouts(ad, env, runner, rng, episodes, post_terminal=1):
        if r["reset"]:
            continue
        if not only_illegal:
            cases.append((r, r["action"], r["next"], r["ts"]))
        if fan_left > 0 and not r.get("post_terminal") and rng.random() < 0.5:
            fan_left -= 1
            fa = ad.fan_actions(env, r["state"], r["ts_prev"], rng, cap=64 if not only_illegal else 512)
            s2s, tss = runner.fan(r["state"], fa)
            idx = list(range(len(fa)))
            if only_illegal:
                js = ad.ser_state(env, r["state"])
                reps = drv.batch([_req(ad, "step", cfg, state=js, action=ad.ser_action(env, a),
                                       **_draw_kw(ad, env, r["state"], a, tree_index(s2s, i), tree_index(tss, i)))
                                  for i, a in enumerate(fa)])
                idx = [i for i, m in enumerate(reps) if not isinstance(m, DriverError) and not np.all(np.asarray(m["valid"]).astype(bool))]
                if len(idx) > 64:
                    idx = list(rng.choice(idx, 64, replace=False))
            for i in idx:
                cases.append((r, fa[int(i)], tree_index(s2s, int(i)), tree_index(tss, int(i))))
    # consistent states supplied by the adapter that play rarely reaches: every action (C09) / every illegal action (C05) from them
    if hasattr(ad, "consistent_states"):
        for s in ad.consistent_states(env, runner, rng, max(4, fan_states)):
            r = {"reset": False, "seed": None, "t": None, "policy": "synthetic", "state": s, "ts_prev": None}
            fa = ad.fan_actions(env, s, None, rng, cap=64)
            s2s, tss = runner.fan(s, fa)
            idx = list(range(len(fa)))
            if only_illegal:
                js = ad.ser_state(env, s)
                reps = drv.batch([_req(ad, "step", cfg, state=js, action=ad.ser_action(env, a),
                                       **_draw_kw(ad, env, s, a, tree_index(s2s, i), tree_index(tss, i))) for i, a in enumerate(fa)])
                idx = [i for i, m in enumerate(reps) if not isinstance(m, DriverError) and not np.all(np.asarray(m["valid"]).astype(bool))]
            for i in idx:
                cases.append((r, fa[int(i)], tree_index(s2s, int(i)), tree_index(tss, int(i))))
    return cases


def _compare_step(ctx, ad, cfg, env, cases, drv, what, fields_ts=("step_type", "reward", "discount"), as_failure=False):
    reqs = []
    for (r, a, s2, ts2) in cases:
        js = ad.ser_state(env, r["state"])
        q = _req(ad, "step", cfg, state=js, action=ad.ser_action(env, a))
        d = ad.draw(env, r["state"], a, s2, ts2)
        if d is not None:
            q["draw"] = d
        reqs.append(q)
    reps = drv.batch(reqs)
    for (r, a, s2, ts2), q, m in zip(cases, reqs, reps):
        ctx.evaluations += 1
        if isinstance(m, DriverError):
            ctx.disagree(ad.name, f"{what}: model rejects the case: {m}", {"request": q})
            continue
        impl_state = ad.ser_state(env, s2)
        impl_ts = ad.ser_ts(env, ts2)
        ms = m["state"] if ad.state_fields is None else {k: v for k, v in m["state"].items() if k in ad.state_fields}
        # float tolerance: 1e-5 relative per addition (DESIGN 3.4); an adapter whose rewards are float32 sums of many terms (MultiCVRP: one
        # Euclidean distance per vehicle, up to 5 vehicles, each a sum of squares and a square root) declares the number of additions
        tol = 1e-5 * float(getattr(ad, "float_additions", 1))
        d = diff_json(ms, impl_state, tol, path="state")
        mts = {k: v for k, v in m["ts"].items() if k in fields_ts}
        d += diff_json(mts, impl_ts, tol, path="ts")
        key = (ad.name, state_key(q["state"]), str(q["action"]))
        if impl_state != q["state"] or what == "illegal action":
            ctx.nontrivial.add(key)
        ctx.count(f"{ad.name}.step_type_{impl_ts['step_type']}")
        if d:
            info = {"env": ad.name, "config": cfg.cid, "reset_seed": r.get("seed"), "t": r.get("t"), "request": q,
                    "impl_state": impl_state, "impl_ts": {k: impl_ts[k] for k in fields_ts}, "model": {"state": ms, "ts": mts}}
            if as_failure:
                ctx.fail(ad.name, "transition_vs_rules", f"{what}: the reference model of the rules predicts a different outcome at {d[:4]}", info)
            else:
                ctx.disagree(ad.name, f"{what}: L1 model != implementation at {d[:4]}", info)
        else:
            ctx.sample({"env": ad.name, "config": cfg.cid, "action": q["action"], "step_type": impl_ts["step_type"],
                        "reward": [unrat(x) for x in impl_ts["reward"]]})


def _judge(ctx, ad, cfg, env, cases, drv, keys, kind_prefix):
    """Lean-defined predicates evaluated on implementation transitions (always-on search)"""
    reqs = [_req(ad, "judge", cfg, state=ad.ser_state(env, r["state"]), action=ad.ser_action(env, a),
                 next=ad.ser_state(env, s2), ts=ad.ser_ts(env, ts2)) for (r, a, s2, ts2) in cases]
    reps = drv.batch(reqs)
    for (r, a, s2, ts2), q, v in zip(cases, reqs, reps):
        if isinstance(v, DriverError):
            ctx.disagree(ad.name, f"judge rejects an implementation transition: {v}", {"request": q})
            continue
        for k in keys:
            if k in v and v[k] is False:
                ctx.fail(ad.name, f"{kind_prefix}:{k}", f"Lean predicate {k} is false on an implementation transition",
                         {"config": cfg.cid, "reset_seed": r.get("seed"), "t": r.get("t"), "request": q},
                         (v.get("sig") or {}).get(k))
            if k in v and v[k] is not None:
                ctx.count(f"{ad.name}.judge.{k}")


def _c05(ctx, ad, cfg, env, runner, rng, drv, mult):
    cases = _transition_cases(ctx, ad, cfg, env, runner, rng, budget(ctx, 5, 15) * mult, budget(ctx, 16, 80) * mult, True, drv)
    _compare_step(ctx, ad, cfg, env, cases, drv, "illegal action")
    if "judge" in ad.ops:
        _judge(ctx, ad, cfg, env, cases, drv, ["illegal_ok"], "illegal")


def _c09(ctx, ad, cfg, env, runner, rng, drv, mult):
    cases = _transition_cases(ctx, ad, cfg, env, runner, rng, budget(ctx, 4, 20) * mult, budget(ctx, 4, 30) * mult, False, drv)
    _compare_step(ctx, ad, cfg, env, cases, drv, "transition", as_failure=True)
    if hasattr(ad, "synthetic"):
        ad.synthetic(ctx, cfg, env, runner, rng, drv)


# --------------------------------------------------------------------------------------
# C06 / C07 — invariants of the state along (legal | arbitrary) play
# --------------------------------------------------------------------------------------

def _state_preds(ctx, ad, cfg, env, runner, rng, drv, policies, episodes, keys, kind, final_keys=()):
    recs = list(rollouts(ad, env, runner, rng, episodes, policies=policies))
    todo = []
    for r in recs:
        if r["reset"]:
            todo.append((r, r["state"], False))
        else:
            last = int(r["ts"].step_type) == 2
            todo.append((r, r["next"], last))
    reps = drv.batch([_req(ad, "state", cfg, state=ad.ser_state(env, s)) for (_, s, _) in todo])
    for (r, s, last), st in zip(todo, reps):
        ctx.evaluations += 1
        if isinstance(st, DriverError):
            ctx.disagree(ad.name, f"model rejects an implementation state: {st}", _replay(ad, cfg, r, env))
            continue
        if not r["reset"]:
            ctx.nontrivial.add((ad.name, state_key(ad.ser_state(env, s))))
        ks = list(keys) if not last or kind == "feasible" else []
        if last:
            ks += [k for k in final_keys if ad.completed(env, s, r["ts"])] if hasattr(ad, "completed") else []
        for k in ks:
            if k in st and st[k] is False:
                ctx.fail(ad.name, f"{kind}:{k}", f"Lean predicate {k} is false on an implementation state reached by {r['policy']} play",
                         _replay(ad, cfg, r, env, failing_state=ad.ser_state(env, s)))
            if k in st:
                ctx.count(f"{ad.name}.{k}")
    if recs:
        r = recs[-1]
        ctx.sample({"env": ad.name, "config": cfg.cid, "policy": r["policy"], "final_state": str(ad.ser_state(env, r.get("next", r["state"])))[:300]})


def _c06(ctx, ad, cfg, env, runner, rng, drv, mult):
    _state_preds(ctx, ad, cfg, env, runner, rng, drv, MASKED, budget(ctx, 6, 40) * mult, ["feasible"], "feasible", ["solution"])


def _c07(ctx, ad, cfg, env, runner, rng, drv, mult):
    _state_preds(ctx, ad, cfg, env, runner, rng, drv, None, budget(ctx, 6, 40) * mult, ["consistent"], "consistent")
    if "judge" in ad.ops:
        cases = [(r, r["action"], r["next"], r["ts"]) for r in rollouts(ad, env, runner, rng, budget(ctx, 5, 20) * mult)
                 if not r["reset"] and int(r["ts"].step_type) != 2]
        _judge(ctx, ad, cfg, env, cases, drv, ["conserved"], "conserved")
    # adapters may supply consistent states that play rarely reaches (boxes already parked on targets next to other boxes, …):
    # every action from such a state must lead to a consistent state again (unless the step is LAST)
    if hasattr(ad, "consistent_states"):
        acts = ad._acts(env)
        for s in ad.consistent_states(env, runner, rng, budget(ctx, 16, 120) * mult):
            js = ad.ser_state(env, s)
            st = drv.batch([_req(ad, "state", cfg, state=js)])[0]
            if isinstance(st, DriverError) or st.get("consistent") is not True:
                ctx.count(f"{ad.name}.synthetic_state_not_consistent")
                continue
            fan = ad.fan_actions(env, s, None, rng) if len(acts) > 64 else acts
            s2s, tss = runner.fan(s, fan)
            nxt = [(i, tree_index(s2s, i)) for i in range(len(fan)) if int(np.asarray(tss.step_type)[i]) != 2]
            reps = drv.batch([_req(ad, "state", cfg, state=ad.ser_state(env, s2)) for (_, s2) in nxt])
            for (i, s2), st2 in zip(nxt, reps):
                ctx.evaluations += 1
                ctx.nontrivial.add((ad.name, "synthetic", state_key(js), i))
                if isinstance(st2, DriverError) or st2.get("consistent") is False:
                    ctx.fail(ad.name, "consistent:consistent", "Lean predicate consistent is false after one action from a consistent synthetic state",
                             {"env": ad.name, "config": cfg.cid, "state": js, "action": ad.ser_action(env, fan[i]), "failing_state": ad.ser_state(env, s2)})
                ctx.count(f"{ad.name}.consistent.synthetic")


# --------------------------------------------------------------------------------------
# C08 — return = objective; dense = sparse
# --------------------------------------------------------------------------------------

def _c08(ctx, ad, cfg, env, runner, rng, drv, mult):
    import jax

    episodes = budget(ctx, 6, 40) * mult
    partner = None
    if cfg.meta.get("partner") is not None:
        partner_env = cfg.meta["partner"]()
        partner = Runner(partner_env)
    cap = getattr(ad, "episode_cap", 400)
    for ep in range(episodes):
        pol = MASKED[ep % 3]
        seed = int(rng.integers(1 << 31))
        key = jax.random.PRNGKey(seed)
        s, ts = runner.reset(key)
        s0 = s
        ret = np.zeros(np.asarray(ts.reward).shape, dtype=np.float64)
        ret_p = None
        if partner:
            sp, tsp = partner.reset(key)
            ret_p = np.zeros(np.asarray(tsp.reward).shape, dtype=np.float64)
        actions = []
        t = 0
        while int(ts.step_type) != 2 and t < cap:
            a = np.asarray(ad.choose_action(env, s, ts, pol, rng, t))
            actions.append(ad.ser_action(env, a))
            s, ts = runner.step(s, a)
            ret += np.asarray(ts.reward, dtype=np.float64)
            if partner:
                sp, tsp = partner.step(sp, a)
                ret_p += np.asarray(tsp.reward, dtype=np.float64)
            t += 1
        if int(ts.step_type) != 2:
            ctx.count(f"{ad.name}.unfinished")
            continue
        ok_end = ad.counts_for_return(env, s, ts) if hasattr(ad, "counts_for_return") else True
        if not ok_end:
            ctx.count(f"{ad.name}.ended_otherwise")
            continue
        q = _req(ad, "state", cfg, state=ad.ser_state(env, s))
        if hasattr(ad, "objective_extra"):
            q.update(ad.objective_extra(env, s0, s, actions))
        st = drv.batch([q])[0]
        ctx.evaluations += 1
        if isinstance(st, DriverError):
            ctx.disagree(ad.name, f"model rejects the final state: {st}", {"config": cfg.cid, "seed": seed})
            continue
        obj = st["objective"]
        objv = np.array([unrat(x) for x in obj]) if (isinstance(obj, list) and obj and isinstance(obj[0], list)) else np.array(unrat(obj))
        tol = 1e-4 * (1 + t)
        ctx.nontrivial.add((ad.name, cfg.cid, seed))
        ctx.count(f"{ad.name}.episodes")
        if not np.allclose(ret.reshape(-1), np.broadcast_to(objv, ret.shape).reshape(-1), atol=tol, rtol=1e-4):
            ctx.fail(ad.name, "return_vs_objective", f"return {ret.tolist()} != objective {objv.tolist()} recomputed from the final state",
                     {"env": ad.name, "config": cfg.cid, "reset_seed": seed, "actions": actions, "return": ret.tolist(), "objective": objv.tolist()})
        if partner is not None and not np.allclose(ret, ret_p, atol=tol, rtol=1e-4):
            ctx.fail(ad.name, "dense_vs_sparse", f"return {ret.tolist()} under this reward function but {ret_p.tolist()} under its partner on the same trajectory",
                     {"env": ad.name, "config": cfg.cid, "reset_seed": seed, "actions": actions})
        ctx.sample({"env": ad.name, "config": cfg.cid, "seed": seed, "steps": t, "return": ret.tolist(), "objective": objv.tolist()})


# --------------------------------------------------------------------------------------
# C12 — observation = documented function of the state
# --------------------------------------------------------------------------------------

def _c12(ctx, ad, cfg, env, runner, rng, drv, mult):
    recs = list(rollouts(ad, env, runner, rng, budget(ctx, 4, 24) * mult))
    todo = []
    for r in recs:
        s = r["state"] if r["reset"] else r["next"]
        todo.append((r, s, r["ts"]))
    reps = drv.batch([_req(ad, "state", cfg, state=ad.ser_state(env, s)) for (_, s, _) in todo])
    for (r, s, ts), st in zip(todo, reps):
        ctx.evaluations += 1
        if isinstance(st, DriverError):
            ctx.disagree(ad.name, f"model rejects an implementation state: {st}", _replay(ad, cfg, r, env))
            continue
        impl_obs = ad.ser_obs(env, ts.observation)
        d = diff_json(st["obs"], impl_obs, path="obs")
        ctx.nontrivial.add((ad.name, state_key(impl_obs)))
        if d:
            ctx.fail(ad.name, "obs_vs_state", f"observation differs from the documented function of the state at {d[:4]}",
                     _replay(ad, cfg, r, env, observed_state=ad.ser_state(env, s), impl_obs=impl_obs, expected_obs=st["obs"]),
                     (st.get("sig") or {}).get("obs"))
    if todo:
        ctx.sample({"env": ad.name, "config": cfg.cid, "obs_keys": sorted(ad.ser_obs(env, todo[0][2].observation).keys())})
    # the adapters' synthetic states (long snakes, stacked Tetris fields, collisions, dense LBF states …): only the observation part of
    # what they compare belongs to this property
    if hasattr(ad, "synthetic"):
        sub = Ctx(ctx.pid, ctx.tier, ctx.seed)
        sub.driver = drv
        ad.synthetic(sub, cfg, env, runner, rng, drv)
        ctx.evaluations += sub.evaluations
        for f in sub.failures:
            if "obs" in f.what:
                ctx.fail(f.env, "obs_vs_state", "synthetic state: " + f.what, f.replay, {k: v for k, v in f.sig.items() if k not in ("env", "kind")})


# --------------------------------------------------------------------------------------
# C11 (structural horizon part) — environments without a time limit end within their horizon
# --------------------------------------------------------------------------------------

def _c11(ctx, ad, cfg, env, runner, rng, drv, mult):
    if not hasattr(ad, "horizon"):
        return
    h = int(ad.horizon(env))
    episodes = budget(ctx, 6, 30) * mult
    lens = []
    for pol in (MASKED + ["uniform", "adversarial"]):
        t_last = None
        for r in rollouts(ad, env, runner, rng, max(1, episodes // 5), policies=[pol], max_steps=h + 3):
            if r["reset"]:
                if t_last is not None:
                    lens.append(t_last)
                t_last = None
                seed = r["seed"]
                continue
            ctx.evaluations += 1
            if int(r["ts"].step_type) == 2 and t_last is None:
                t_last = r["t"] + 1
                ctx.nontrivial.add((ad.name, cfg.cid, seed))
                if t_last > h:
                    ctx.fail(ad.name, "horizon_exceeded", f"episode ended at step {t_last}, after its structural horizon {h}",
                             {"env": ad.name, "config": cfg.cid, "reset_seed": seed, "policy": pol, "horizon": h})
            if r["t"] + 1 > h and t_last is None:
                ctx.fail(ad.name, "horizon_exceeded", f"episode still running after {r['t'] + 1} steps; structural horizon is {h}",
                         {"env": ad.name, "config": cfg.cid, "reset_seed": seed, "policy": pol, "horizon": h})
                break
        if t_last is not None:
            lens.append(t_last)
    ctx.sample({"env": ad.name, "config": cfg.cid, "horizon": h, "episode_lengths": lens[:12]})


# --------------------------------------------------------------------------------------
# C10 — generated instances satisfy their certificates; generators depend on the key
# --------------------------------------------------------------------------------------

def _c10(ctx, ad, cfg, env, runner, rng, drv, mult):
    import jax

    if "instance" not in ad.ops:
        return
    n = budget(ctx, 40, 400) * mult * int(cfg.meta.get("instances_factor", 1))
    n = min(n, cfg.meta.get("max_instances", n))
    seeds = [int(x) for x in rng.integers(1 << 31, size=n)]
    states = [runner.reset(jax.random.PRNGKey(sd))[0] for sd in seeds]
    js = [ad.ser_state(env, s) for s in states]
    reps = drv.batch([_req(ad, "instance", cfg, state=j) for j in js])
    distinct = set()
    for sd, j, v in zip(seeds, js, reps):
        ctx.evaluations += 1
        if isinstance(v, DriverError):
            ctx.disagree(ad.name, f"instance op rejects a generated instance: {v}", {"config": cfg.cid, "seed": sd})
            continue
        k = state_key(j)
        distinct.add(k)
        ctx.nontrivial.add((ad.name, k))
        for name, ok in v.items():
            if ok is False:
                ctx.fail(ad.name, f"instance:{name}", f"generated instance violates certificate {name}",
                         {"env": ad.name, "config": cfg.cid, "reset_seed": sd, "state": j}, {"certificate": name})
            ctx.count(f"{ad.name}.{name}")
    if not cfg.meta.get("constant_generator") and n >= 8 and len(distinct) < 2:
        ctx.fail(ad.name, "generator_constant", f"{n} different keys gave the same instance",
                 {"env": ad.name, "config": cfg.cid, "seeds": seeds[:8]})
    ctx.sample({"env": ad.name, "config": cfg.cid, "instances": n, "distinct": len(distinct)})
    # adapter-specific certificates that need to act on the implementation (e.g. play a solving episode built by the model)
    if hasattr(ad, "instance_extra"):
        ad.instance_extra(ctx, cfg, env, runner, rng, drv, seeds)


# --------------------------------------------------------------------------------------
# C17 — permutation puzzles: group laws, physical moves, solvability (RubiksCube, SlidingTilePuzzle)
# --------------------------------------------------------------------------------------

def _c17(ctx, ad, cfg, env, runner, rng, drv, mult):
    # every transition met in play equals the rule-level move (state-independent permutation, conservation via the judge),
    # the adapters' synthetic hooks check the group identities / encodings / solved test / scramble replay on the implementation,
    # and the generator certificates (reachable from the goal) are evaluated on reset instances
    _c09(ctx, ad, cfg, env, runner, rng, drv, mult)
    if "judge" in ad.ops:
        cases = [(r, r["action"], r["next"], r["ts"]) for r in rollouts(ad, env, runner, rng, budget(ctx, 3, 12) * mult) if not r["reset"]]
        _judge(ctx, ad, cfg, env, cases, drv, ["conserved", "move_ok", "slide_ok", "rules_ok", "solved_ok"], "puzzle")
    _c10(ctx, ad, cfg, env, runner, rng, drv, mult)



# --------------------------------------------------------------------------------------
# C03 / C01 on the adapters' configurations and policies
# --------------------------------------------------------------------------------------

def _ts_json(ts):
    return {"step_type": int(ts.step_type), "reward": ser_rats(ts.reward), "discount": ser_rats(ts.discount), "obs": None}


def _c03(ctx, ad, cfg, env, runner, rng, drv, mult):
    sh = tuple(env.reward_spec.shape)
    shape = None if sh == () else int(sh[0])
    trunc_ok = type(env).__name__ == "LevelBasedForaging"
    # "shaped like the reward and discount specs": for ALL inputs of this configuration, by JAX's own abstract evaluation
    # (shape and dtype of reward/discount of reset, of step, and of a step taken from the state a step returns)
    import jax
    try:
        sh_state, sh_ts = jax.eval_shape(env.reset, jax.random.PRNGKey(0))
        sh_state2, sh_ts2 = jax.eval_shape(env.step, sh_state, env.action_spec.generate_value())
        _, sh_ts3 = jax.eval_shape(env.step, sh_state2, env.action_spec.generate_value())
        for phase, sts in (("reset", sh_ts), ("step", sh_ts2), ("step_after_step", sh_ts3)):
            ctx.evaluations += 1
            for nm, sp, v in (("reward", env.reward_spec, sts.reward), ("discount", env.discount_spec, sts.discount)):
                if tuple(v.shape) != tuple(sp.shape) or np.dtype(v.dtype) != np.dtype(sp.dtype):
                    ctx.fail(ad.name, "reward_discount_shape_dtype", f"{cfg.cid} {phase}: {nm} has shape/dtype {tuple(v.shape)}/{v.dtype}, "
                             f"{nm}_spec says {tuple(sp.shape)}/{sp.dtype}", {"env": cfg.cid, "phase": phase, "field": nm},
                             {"cls": type(env).__name__, "field": nm, "phase": phase})
    except TypeError as ex:  # the state a step returns is not accepted by step (changed pytree type): scan/while would fail too
        ctx.fail(ad.name, "state_type_unstable", f"{cfg.cid}: step does not accept the state type that reset/step return: {str(ex)[:200]}",
                 {"env": cfg.cid}, {"cls": type(env).__name__})
    reqs, infos = [], []
    for r in rollouts(ad, env, runner, rng, budget(ctx, 4, 12) * mult, post_terminal=3):
        ts = r["ts"]
        if r["reset"]:
            reqs.append({"op": "core.resetOK", "shape": shape, "ts": _ts_json(ts)})
        else:
            reqs.append({"op": "core.stepOK", "shape": shape, "trunc_ok": trunc_ok, "ts": _ts_json(ts)})
        infos.append({"env": cfg.cid, "reset_seed": r.get("seed"), "t": r.get("t", -1), "policy": r.get("policy"),
                      "after_last": bool(r.get("post_terminal")), "ts": _ts_json(ts)})
    for q, info, ok in zip(reqs, infos, drv.batch(reqs)):
        ctx.evaluations += 1
        ctx.nontrivial.add((cfg.cid, info["reset_seed"], info["t"]))
        if isinstance(ok, DriverError):
            ctx.disagree(ad.name, f"predicate rejects an implementation timestep: {ok}", info)
        elif ok is not True:
            kind = "reset_protocol" if q["op"] == "core.resetOK" else ("step_protocol_after_last" if info.get("after_last") else "step_protocol")
            ctx.fail(ad.name, kind, f"timestep violates the protocol: step_type={info['ts']['step_type']} "
                     f"discount={[x[0] / x[1] for x in info['ts']['discount']]}", info)


def _c01(ctx, ad, cfg, env, runner, rng, drv, mult):
    import jax

    import speclib
    from props.c01 import bad_leaf

    cls = type(env).__name__
    ospec, rspec, dspec = env.observation_spec, env.reward_spec, env.discount_spec
    sh_state, sh_ts = jax.eval_shape(env.reset, jax.random.PRNGKey(0))
    _, sh_ts2 = jax.eval_shape(env.step, sh_state, env.action_spec.generate_value())
    for phase, sts in (("reset", sh_ts), ("step", sh_ts2)):
        ctx.evaluations += 1
        for nm, sp, v in (("reward", rspec, sts.reward), ("discount", dspec, sts.discount)):
            if tuple(v.shape) != tuple(sp.shape) or np.dtype(v.dtype) != np.dtype(sp.dtype):
                ctx.fail(ad.name, "shape_dtype", f"{cfg.cid} {phase}: {nm} has shape/dtype {tuple(v.shape)}/{v.dtype}, spec says {tuple(sp.shape)}/{sp.dtype}",
                         {"env": cfg.cid, "cls": cls, "phase": phase, "field": nm}, {"cls": cls, "field": nm, "phase": phase})
        try:
            fo, fs = dict(speclib.flatten_value(ospec, sts.observation)), dict(speclib.flatten_spec(ospec))
            for k, sp in fs.items():
                if k not in fo or tuple(fo[k].shape) != tuple(sp.shape) or np.dtype(fo[k].dtype) != np.dtype(sp.dtype):
                    ctx.fail(ad.name, "shape_dtype", f"{cfg.cid} {phase}: observation field {k} shape/dtype differs from the spec",
                             {"env": cfg.cid, "cls": cls, "phase": phase, "field": k}, {"cls": cls, "field": k, "phase": phase})
        except TypeError as ex:
            ctx.fail(ad.name, "structure", f"{cfg.cid} {phase}: observation structure does not match the spec: {ex}", {"env": cfg.cid, "phase": phase}, {"cls": cls})
    fan_left = budget(ctx, 6, 40) * mult
    for r in rollouts(ad, env, runner, rng, budget(ctx, 3, 10) * mult):
        if r.get("post_terminal"):
            continue
        # every action (capped) from some of the visited states, not only the one the policy chose: border cells, tunnel mouths
        # and last free slots are one particular action away from where play passes
        if not r["reset"] and fan_left > 0 and int(r["ts_prev"].step_type) != 2 and rng.random() < 0.4:
            fan_left -= 1
            fa = ad.fan_actions(env, r["state"], r["ts_prev"], rng, cap=64)
            _, tss = runner.fan(r["state"], fa)
            for i in range(len(fa)):
                tsi = tree_index(tss, i)
                ctx.evaluations += 1
                b = bad_leaf(ospec, tsi.observation)
                if b is not None:
                    ctx.fail(ad.name, "obs_out_of_spec", f"{cfg.cid}: step observation field {b[0]!r} rejected by observation_spec: {b[1]}",
                             {"env": cfg.cid, "cls": cls, "reset_seed": r.get("seed"), "t": r.get("t", -1), "phase": "step", "policy": r.get("policy"),
                              "fan_action": ad.ser_action(env, fa[i])},
                             {"cls": cls, "field": b[0].split(".")[-1], "value": b[2], "phase": "step"})
                for nm, sp, v in (("reward", rspec, tsi.reward), ("discount", dspec, tsi.discount)):
                    try:
                        sp.validate(v)
                    except (ValueError, TypeError) as ex:
                        ctx.fail(ad.name, f"{nm}_out_of_spec", f"{cfg.cid}: step {nm} rejected by {nm}_spec: {str(ex)[:160]}",
                                 {"env": cfg.cid, "cls": cls, "reset_seed": r.get("seed"), "t": r.get("t", -1), "phase": "step"}, {"cls": cls, "phase": "step"})
            ctx.count(f"{ad.name}.c01_fan_states")
        ts = r["ts"]
        phase = "reset" if r["reset"] else "step"
        ctx.evaluations += 1
        ctx.nontrivial.add((cfg.cid, r.get("seed"), r.get("t", -1)))
        meta = {"env": cfg.cid, "cls": cls, "reset_seed": r.get("seed"), "t": r.get("t", -1), "phase": phase, "policy": r.get("policy")}
        b = bad_leaf(ospec, ts.observation)
        if b is not None:
            ctx.fail(ad.name, "obs_out_of_spec", f"{cfg.cid}: {phase} observation field {b[0]!r} rejected by observation_spec: {b[1]}", meta,
                     {"cls": cls, "field": b[0].split(".")[-1], "value": b[2], "phase": phase})
        for nm, sp, v in (("reward", rspec, ts.reward), ("discount", dspec, ts.discount)):
            try:
                sp.validate(v)
            except (ValueError, TypeError) as ex:
                ctx.fail(ad.name, f"{nm}_out_of_spec", f"{cfg.cid}: {phase} {nm} rejected by {nm}_spec: {str(ex)[:160]}", meta, {"cls": cls, "phase": phase})
