"""Fake environment classes used as registry entry points by the C18 correspondence."""


class E1:
    def __init__(self, *args, **kw):
        self.args, self.kw = args, kw


class E2(E1):
    pass
