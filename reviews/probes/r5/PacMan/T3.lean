import JumanjiModel.Props.Env.PacMan
open Jm PacMan

def touches (s : State) (np : Int × Int) (path old : CR) : Prop :=
  (path.2 = np.1 ∧ path.1 = np.2) ∨ (path.2 = s.player.1 ∧ path.1 = s.player.2) ∨ (old.2 = np.1 ∧ old.1 = np.2)

/-- rules-level meaning of the "other cause" `dead` used by `pacman_last_iff` / `pacman_exact` -/
theorem pacman_dead_iff (tl : Int) (s : State) (a : Int) (d : Draw) (hC : Consistent s) (hd : validGhostDraw s d = true) :
    (step tl s a d).1.dead = true ↔
      (s.frightened ≤ 0 ∧ ∃ i : Nat, i < 4 ∧
        touches s (nextPlayer s a) (d.paths.getD i (0, 0)) (s.oldGhosts.getD i (0, 0))) := by sorry

-- sanity of the statement on the corridor example: ghost 0 steps onto the player's new cell
example : (step 10 Props.C07.pacmanCEx 1 Props.C07.pacmanCDraw).1.dead = false := by decide +kernel
example : (step 10 { Props.C07.pacmanCEx with player := (1, 3) } 1 Props.C07.pacmanCDraw).1.dead = true := by decide +kernel
