import os
os.environ["JAX_PLATFORMS"]="cpu"
import sys; sys.dont_write_bytecode=True
import jax, jax.numpy as jnp, numpy as np
from jumanji.environments.routing.pac_man.env import PacMan
env = PacMan()
step = jax.jit(env.step)
bad=[]; nonadj=[]
for seed in range(12):
    state, ts = env.reset(jax.random.PRNGKey(seed))
    grid = np.array(state.grid)
    og = np.array(state.initial_ghost_positions)
    rng = np.random.default_rng(seed)
    for t in range(1000):
        m = np.array(ts.observation.action_mask)
        legal = [i for i in range(4) if m[i]]
        a = int(rng.choice(legal)) if (legal and rng.random()<0.9) else int(rng.integers(0,5))
        prev = np.array(state.ghost_locations)
        state, ts = step(state, a)
        g = np.array(state.ghost_locations)
        for i,(c,r) in enumerate(g):
            if grid[r, c] != 1: bad.append((seed,t,i,tuple(prev[i]),(int(c),int(r))))
            pc,pr = prev[i]
            d = (min(abs(c-pc), 28-abs(c-pc)), min(abs(r-pr),31-abs(r-pr)))
            if not (d in [(0,0),(1,0),(0,1)] or (c,r)==tuple(og[i])): nonadj.append((seed,t,i,(int(pc),int(pr)),(int(c),int(r))))
        if ts.last(): break
    print(seed, t, int(state.score), flush=True)
print("ghost-on-wall:", len(bad), bad[:5]); print("non-adjacent:", len(nonadj), nonadj[:5])
