import JumanjiModel.Props.Env.PacMan
open Jm PacMan

def deMaze : List String := [
 "XXXXXXXXXXXX",
 "XG        XX",
 "X XXXXXXXXXX",
 "XGG G  TTTTX",
 "X XXXXXXXXXX",
 "XSSSSOOOOP X",
 "XXXXXXXXXXXX"]
def deT : MazeTable := (MazeTable.ofAscii (deMaze.map String.toList)).getD ⟨[], (0,0), [], [], [], []⟩
#eval deT.player
#eval deT.ghosts
#eval (deT.powerUps.length, deT.pellets.length, deT.scatter)
-- the dead-end maze satisfies the C10 spec of the model
example : tableCheck deT (bfsDist deT.grid deT.player) = true := by decide +kernel
example : BorderSymmetric deT.grid := by decide +kernel
-- what the real ghost 0 does at step 10 of seed 0 (ghost at (col 9,row 1) -> (col 9,row 0) = wall): not admissible
example : ghostMoveOK deT.grid (9, 1) (9, 0) (-9) = false := by decide +kernel
example : ¬ freeCR deT.grid (9, 0) := by decide +kernel
