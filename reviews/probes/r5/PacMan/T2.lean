import JumanjiModel.Props.Env.PacMan
open Jm PacMan

/-- every free cell has at least two free neighbours (with wrap-around): no dead end -/
def noDeadEndB (g : IGrid) : Bool :=
  (List.range (xSize g)).all fun r => (List.range (ySize g)).all fun c =>
    !decide (free g r c) ||
    decide (2 ≤ ((List.range 4).filter (fun a => decide (free g (target g ((r:Int),(c:Int)) a).1 (target g ((r:Int),(c:Int)) a).2))).length)

example : noDeadEndB Gen.PacManMaze.grid = true := by decide +kernel
example : noDeadEndB Props.C10.pacmanRing.grid = true := by decide +kernel

theorem pacman_reset_obs_mask_documented (t : MazeTable) (h : MazeTableOK t) (hb : BorderSymmetric t.grid)
    (b : Nat) (hb4 : b ≤ 4) :
    ((PacMan.reset t.toState).2.obs.mask.getD b false = true ↔ legal (PacMan.reset t.toState).1 b) := by
  have := Props.C04.pacman_mask_iff_legal_along_of_table t h hb 0 [] rfl (PacMan.reset t.toState).1 (by simp [trace]) b hb4
  exact this

-- dtype component of membership is fixed by toNValue, independent of the observation
example (cfg : BCfg) (o : Obs) : (toNValue cfg o).map (·.2.dtype) =
    [.int32, .int32, .int32, .int32, .int32, .int32, .int32, .bool, .int32] := rfl
-- int32 leaves accept values outside int32
example : (obsSpec ⟨3, 4, 5⟩ 3).valid (toNValue ⟨3, 4, 5⟩
      (observe { Props.C07.pacmanCEx with powerUps := [(3, 1), (0, 0), (0, 0), (0, 0)], score := 2^40, frightened := -(2^40) })) = true := by
  decide +kernel
