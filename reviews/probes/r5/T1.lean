import JumanjiModel.Props.Env.JobShop
import JumanjiModel.Props.Env.FlatPack
open Jm Sp PzS PkS

-- a WRONG JobShop spec: durations bounded by O instead of D, remaining times by J, mask shape (J, M+1), ids shape (O, J)
def badJobShop (cfg : JobShop.Cfg) : Sp.Nested :=
  [("ops_machine_ids", .bounded [cfg.O, cfg.J] .int32 "ops_machine_ids" [] [((-1 : Int) : Rat)] [] [(((cfg.J : Int) - 1 : Int) : Rat)]),
   ("ops_durations", .bounded [cfg.J, cfg.O] .int32 "ops_durations" [] [((-1 : Int) : Rat)] [] [((cfg.O : Int) : Rat)]),
   ("ops_mask", .bounded [cfg.J, cfg.O] .bool "ops_mask" [] [0] [] [1]),
   ("machines_job_ids", .bounded [cfg.J] .int32 "machines_job_ids" [] [((0 : Int) : Rat)] [] [((cfg.M : Int) : Rat)]),
   ("machines_remaining_times", .bounded [cfg.M] .int32 "machines_remaining_times" [] [((0 : Int) : Rat)] [] [((cfg.J : Int) : Rat)]),
   ("action_mask", .bounded [cfg.J, cfg.M + 1] .bool "action_mask" [] [0] [] [1])]
example : prefixed "observation_spec." (badJobShop ⟨3, 3, 3, 3⟩) = declared "jobshop-3x3" "observation_spec." := by decide

-- a WRONG FlatPack spec: rows/cols swapped, rotations replaced by numBlocks, block dims by R-2
def badFlatPack (cfg : FlatPack.Cfg) : Sp.Nested :=
  [("grid", .bounded [cfg.numCols, cfg.numRows] .int32 "grid" [] [0] [] [(4 : Rat)]),
   ("blocks", .bounded [4, cfg.numRows - 2, cfg.numCols - 2] .int32 "blocks" [] [0] [] [(cfg.numBlocks : Rat)]),
   ("action_mask", .bounded [4, cfg.numBlocks, cfg.numCols - 2, cfg.numRows - 2] .bool "action_mask" [] [0] [] [1])]
example : prefixed "observation_spec." (badFlatPack ⟨5, 5, 4, true⟩) = declared "flatpack-2x2" "observation_spec." := by decide

-- ragged "grid" accepted by valid ∘ toNValue (shape2 reads only the head row)
example : (JobShop.obsSpec ⟨3, 2, 2, 2⟩).valid (JobShop.toNValue
   { mid := [[0,0],[0],[0,0,0]], dur := [[1,1],[1,1],[1,1]], opsMask := [[true,true],[true,true],[true,true]],
     mjob := [3,3], mrem := [0,0], amask := [[true,true,true,true],[true,true,true,true]] }) = true := by decide +kernel
