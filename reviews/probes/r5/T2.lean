import JumanjiModel.Props.Env.JobShop
import JumanjiModel.Props.Env.FlatPack
import JumanjiModel.Props.Env.Tetris
open Jm
example : JobShop.validDraw JobShop.toyCfg JobShop.toyMid JobShop.toyDur := by decide
example (s : FlatPack.State) : FlatPack.observe s = FlatPack.observeL1 s := rfl
-- repaired tetris middle disjunct: statement only
theorem tetris_step_last_iff_rules' (cfg : Tetris.Cfg) (s : Tetris.State) (hc : Tetris.Consistent cfg s)
    (hR : 4 ≤ cfg.numRows) (hC : 4 ≤ cfg.numCols) {rot x : Nat} (hr : rot < 4)
    (hx : x < cfg.numCols) (d : Nat) (hd : Tetris.validDraw d) :
    (Tetris.step cfg s (rot : Int) (x : Int) d).2.stepType = .last ↔
      (¬ Tetris.legal cfg s rot x ∨
       (∀ rot' x', rot' < 4 → x' < cfg.numCols → ¬ Tetris.legal cfg (Tetris.step cfg s (rot : Int) (x : Int) d).1 rot' x') ∨
        cfg.timeLimit ≤ s.stepCount + 1) := by sorry
-- jobshop composite C12
theorem jobshop_step_obs_mask_is_legal' (cfg : JobShop.Cfg) (s : JobShop.State) (a : List Int) (hI : JobShop.Inv cfg s)
    (hL : JobShop.legalAction cfg s a) :
    (JobShop.step cfg s a).2.obs.amask = JobShop.legalTable cfg (JobShop.step cfg s a).1 := by sorry
-- jobshop last_iff at rule level
theorem jobshop_step_last_iff_rules' (cfg : JobShop.Cfg) (s : JobShop.State) (a : List Int) (hI : JobShop.Inv cfg s)
    (hC : s.amask = JobShop.maskOf cfg s) (hA : JobShop.InSpec cfg a) :
    (JobShop.step cfg s a).2.stepType = .last ↔
      (¬ JobShop.legalAction cfg s a ∨ JobShop.idleSpec cfg (JobShop.step cfg s a).1 ∨
        (JobShop.legalAction cfg s a ∧ JobShop.completeSpec cfg (JobShop.step cfg s a).1)) := by sorry
