import JumanjiModel.Props.Env.Sokoban
open Jm Jx Sokoban Sp PzS

-- (1) ragged variable plane + fixed plane of a different shape: accepted by valid ∘ toNValue
example : (obsSpec ⟨3, 9, true⟩).valid (toNValue ⟨3, 9, true⟩
    ⟨[[0,0,0],[0,0],[0,0,0,0]], [[0,0,0,0],[0,0,0,0],[0,0,0,0]], 0⟩) = true := by decide +kernel
-- fixed plane 4x4 vs variable 3x3: accepted (zipWith truncates)
example : (obsSpec ⟨3, 9, true⟩).valid (toNValue ⟨3, 9, true⟩
    ⟨[[0,0,0],[0,0,0],[0,0,0]], [[9,9,9,9],[0,0,0,0],[0,0,0,0],[7,7,7,7]], 0⟩) = false := by decide +kernel
example : (obsSpec ⟨3, 9, true⟩).valid (toNValue ⟨3, 9, true⟩
    ⟨[[0,0,0],[0,0,0],[0,0,0]], [[1,1,1,9],[0,0,0,9],[0,0,0,9],[7,7,7,7]], 0⟩) = true := by decide +kernel
-- huge negative step count / beyond int32: accepted
example : (obsSpec ⟨3, 9, true⟩).valid (toNValue ⟨3, 9, true⟩
    ⟨[[0,0,0],[0,0,0],[0,0,0]], [[0,0,0],[0,0,0],[0,0,0]], -5000000000⟩) = true := by decide +kernel

-- (2) a wrong grid leaf passes the `_generated` comparison
def badSpec : Sp.Nested :=
  [("step_count", .array [] .int32 "step_count"),
   ("GRID", .bounded [10, 10, 3] .int32 "oops" [] [0] [] [6])]
example : (prefixed "observation_spec." badSpec).filter (fun e => decide (prod e.2.shape ≤ 160))
      = declared "sokoban-toy" "observation_spec." := by decide

-- (3) simple config
example : [("action_spec", actionSpec)] = declared "sokoban-simple" "action_spec" ∧
    [("reward_spec", PzS.rewardSpec)] = declared "sokoban-simple" "reward_spec" ∧
    [("discount_spec", discountSpec)] = declared "sokoban-simple" "discount_spec" := by
  refine ⟨by decide, by decide, by decide⟩

#eval declared "sokoban-toy" "observation_spec."
