import JumanjiModel.Props.Env.Sokoban
open Jm Jx Sokoban Sp PzS

theorem sokoban_count_iff_all (n : Nat) (s : State) (hc : Consistent n s) :
    boxesOnTarget n s = nBoxes ↔
      ∀ p ∈ Grid.coords n n, Grid.get s.vgrid 0 p.1 p.2 = BOX → Grid.get s.fgrid 0 p.1 p.2 = TARGET := by sorry

theorem sokoban_run_eq (rnd : Rat → Rat) (cfg : Cfg) (s : State) (as : List Int) :
    (Ep.ofStep (step rnd cfg) (·.stepCount)).run s as = runState rnd cfg s as := by
  induction as generalizing s with
  | nil => rfl
  | cons a t ih => exact ih _

-- reset_obs_faithful is rfl even for the first conjunct: L2 observe and L1 stateToObs are the same term
example (s : State) : observe s = stateToObs s := rfl
