import JumanjiModel.Props.Env.Sokoban
open Jm Jx Sokoban Sp PzS

-- repaired: last_iff in rule terms
theorem sokoban_last_iff_rules (rnd : Rat → Rat) (cfg : Cfg) (s : State) (a : Nat) (ha : a < 4)
    (hc : Consistent cfg.n s) :
    (step rnd cfg s a).2.stepType = .last ↔
      (IsSolution cfg.n (step rnd cfg s a).1 ∨ cfg.timeLimit ≤ s.stepCount + 1) := by sorry

-- repaired: channel order of `grid`
theorem stackLast_channels (n : Nat) (v f : Grid Int) (hv : Grid.shaped v n n = true) (hf : Grid.shaped f n n = true)
    (r c : Nat) (hr : r < n) (hcn : c < n) :
    (stackLast v f)[(r * n + c) * 2]? = some (Grid.get v 0 r c) ∧
    (stackLast v f)[(r * n + c) * 2 + 1]? = some (Grid.get f 0 r c) := by sorry

-- check it on an instance
example : (stackLast [[0,4],[3,0]] [[1,2],[0,0]]) = [0,1,4,2,3,0,0,0] := by decide

-- repaired: membership pins both planes
def toNValue' (cfg : Cfg) (o : Obs) : Option NValue :=
  if Grid.shaped o.vgrid (List.length o.vgrid) (innerDim cfg.n o.vgrid) &&
     Grid.shaped o.fgrid (List.length o.vgrid) (innerDim cfg.n o.vgrid) then some (toNValue cfg o) else none

theorem sokoban_obs_valid_only' (cfg : Cfg) (o : Obs) (v : NValue) (hv : toNValue' cfg o = some v)
    (h : (obsSpec cfg).valid v = true) :
    Grid.shaped o.vgrid cfg.n cfg.n = true ∧ Grid.shaped o.fgrid cfg.n cfg.n = true ∧
    (∀ x ∈ List.flatten o.vgrid ++ List.flatten o.fgrid, 0 ≤ x ∧ x ≤ 4) := by sorry

-- full-table comparison with the grid leaf present
def declaredGrid : String × Leaf := ("observation_spec.grid", .bounded [10, 10, 2] .uint8 "grid" [] [0] [] [4])
example : prefixed "observation_spec." (obsSpec ⟨10, 120, true⟩) = declaredGrid :: declared "sokoban-toy" "observation_spec." := by decide

-- discount of stepL2 explicit
example (rnd : Rat → Rat) (cfg : Cfg) (s : State) (a : Nat) :
    (stepL2 rnd cfg s a).2.discount = [if doneSpec cfg (stepSpec cfg.n s a) then 0 else 1] := by
  unfold stepL2 condLast; simp only []; split <;> rfl

-- hno of episode_ends_exactly_at_limit on the example instance
example : ∀ (j : Nat) (a : Int), (j : Int) + 1 < (3 : Int) → ([0,0,0] : List Int)[j]? = some a →
   ¬ levelComplete (step id ⟨3,3,true⟩ ((Ep.ofStep (step id ⟨3,3,true⟩) (·.stepCount)).stateAt
     ⟨[[1,2,2],[0,2,2],[0,0,0]], [[0,4,4],[3,4,0],[0,4,0]], (1, 0), 0⟩ [0,0,0] j) a).1 = true := by
  intro j a hj; have : j = 0 ∨ j = 1 := by omega
  rcases this with rfl | rfl <;> (intro h; simp at h; subst h; decide +kernel)
