import JumanjiModel.Props.Env.Cleaner
import JumanjiModel.Props.EpisodeInstances
open Jm Cleaner Sp PzS

-- R1: generate_value on the reset state of every draw: in-spec, and step ends the episode at once, nothing moves
theorem R1 (cfg : Cfg) (maze : Jx.Grid Bool) (hr : 0 < cfg.numRows) (hc : 0 < cfg.numCols) (hn : 0 < cfg.numAgents)
    (hm : MazeGen.isRecursiveDivisionMaze maze cfg.numRows cfg.numCols = true) :
    (actionSpec cfg).generate = ⟨[cfg.numAgents], .int32, ofInts ((List.replicate cfg.numAgents 0).map Int.ofNat)⟩ ∧
    InSpec cfg [List.replicate cfg.numAgents 0] ∧
    let s0 := (Cleaner.reset cfg (generate cfg maze)).1
    let r := step cfg s0 ((List.replicate cfg.numAgents 0).map Int.ofNat)
    r.2.stepType = .last ∧ r.2.discount = [0] ∧ r.2.reward = [- cfg.penalty] ∧
    r.1.agents = s0.agents ∧ r.1.grid = s0.grid ∧
    (obsSpec cfg).valid (toNValue cfg r.2.obs) = (decide (1 ≤ cfg.timeLimit)) := by sorry

-- R2: action_spec membership iff InSpec component
theorem R2 (cfg : Cfg) (a : List Nat) :
    (actionSpec cfg).valid ⟨[a.length], .int32, ofInts (a.map Int.ofNat)⟩ = true ↔
      (a.length = cfg.numAgents ∧ ∀ x ∈ a, x < 4) := by sorry

-- R3: obs_valid_only strengthened
theorem R3 (cfg : Cfg) (o : Obs) (h : (obsSpec cfg).valid (toNValue cfg o) = true) :
    List.length o.grid = cfg.numRows ∧ (List.flatten o.grid).length = cfg.numRows * cfg.numCols ∧
    (∀ v ∈ List.flatten o.grid, 0 ≤ v ∧ v ≤ 2) ∧ o.agents.length = cfg.numAgents ∧
    (∀ p ∈ o.agents, 0 ≤ p.1 ∧ p.1 ≤ (cfg.numRows : Int) ∧ 0 ≤ p.2 ∧ p.2 ≤ (cfg.numCols : Int)) ∧
    o.actionMask.length = cfg.numAgents ∧ (List.flatten o.actionMask).length = cfg.numAgents * 4 ∧
    0 ≤ o.stepCount ∧ o.stepCount ≤ cfg.timeLimit := by sorry

-- R4: never-earlier in terms of the rules
theorem R4 (cfg : Cfg) (s : State) (hC : Consistent cfg s) (action : List Nat) (ha : ∀ a ∈ action, a < 4)
    (hleg : ∀ b ∈ legalJoint cfg s action, b = true)
    (hd : countTiles DIRTY (step cfg s (action.map Int.ofNat)).1.grid ≠ 0)
    (ht : s.stepCount + 1 < cfg.timeLimit) :
    (step cfg s (action.map Int.ofNat)).2.stepType = .mid := by sorry

-- R5: episode-level, rules-level: from reset of any draw, legal play with dirt left ends exactly at T
theorem R5 (cfg : Cfg) (maze : Jx.Grid Bool) (hr : 0 < cfg.numRows) (hc : 0 < cfg.numCols)
    (hm : MazeGen.isRecursiveDivisionMaze maze cfg.numRows cfg.numCols = true) (hT : 0 < cfg.timeLimit)
    (as : List (List Nat)) (hA : InSpec cfg as) (hlen : cfg.timeLimit ≤ as.length)
    (hL : AllLegal cfg (Cleaner.reset cfg (generate cfg maze)).1 (as.take (cfg.timeLimit.toNat - 1)))
    (hD : ∀ j : Nat, (j : Int) < cfg.timeLimit - 1 →
      countTiles DIRTY (runState cfg (Cleaner.reset cfg (generate cfg maze)).1 (toInt (as.take (j+1)))).grid ≠ 0) :
    Ep.firstLastTS ((Ep.rollout (step cfg) (Cleaner.reset cfg (generate cfg maze)).1 (toInt as)).map (·.2))
      = some cfg.timeLimit.toNat := by sorry


example : let cfg := Props.C10.cleanerGenCfg
    let s0 := (Cleaner.reset cfg (generate cfg Props.C10.cleanerGenMaze)).1
    let r := step cfg s0 ((List.replicate cfg.numAgents 0).map Int.ofNat)
    r.2.stepType = .last ∧ r.2.discount = [0] ∧ r.2.reward = [- cfg.penalty] ∧
    r.1.agents = s0.agents ∧ r.1.grid = s0.grid ∧
    (obsSpec cfg).valid (toNValue cfg r.2.obs) = (decide (1 ≤ cfg.timeLimit)) ∧
    (actionSpec cfg).generate = ⟨[cfg.numAgents], .int32, ofInts ((List.replicate cfg.numAgents 0).map Int.ofNat)⟩ := by decide +kernel
example : (actionSpec Props.CleanerEx.cfg).valid ⟨[2], .int32, ofInts ([3,1].map Int.ofNat)⟩ = true ∧
  (actionSpec Props.CleanerEx.cfg).valid ⟨[2], .int32, ofInts ([4,1].map Int.ofNat)⟩ = false ∧
  (actionSpec Props.CleanerEx.cfg).valid ⟨[3], .int32, ofInts ([0,1,1].map Int.ofNat)⟩ = false := by decide +kernel
