import JumanjiModel.Props.Env.Cleaner
open Jm Cleaner Sp PzS

-- P1: StepOK conjunct of accepts_generate_value holds for ANY action list (independent of generate_value)
example (cfg : Cfg) (s : State) (a : List Int) : StepOK none false (step cfg s a).2 = true := by
  unfold step condLast
  simp only
  split <;> rfl

-- P2: obs_valid_only's conclusion is satisfied by an observation the spec rejects (agents bounds missing)
def oBad : Obs := obsOf { Props.CleanerEx.st with agents := [(0, 4), (1, 1)] }
example : (obsSpec Props.CleanerEx.cfg).valid (toNValue Props.CleanerEx.cfg oBad) = false ∧
    (List.length oBad.grid = Props.CleanerEx.cfg.numRows ∧ (List.flatten oBad.grid).length = Props.CleanerEx.cfg.numRows * Props.CleanerEx.cfg.numCols ∧
    (∀ v ∈ List.flatten oBad.grid, 0 ≤ v ∧ v ≤ 2) ∧ oBad.agents.length = Props.CleanerEx.cfg.numAgents ∧
    oBad.actionMask.length = Props.CleanerEx.cfg.numAgents ∧ 0 ≤ oBad.stepCount ∧ oBad.stepCount ≤ Props.CleanerEx.cfg.timeLimit) := by
  decide +kernel

-- P3: ragged grid accepted (3x3 cfg): rows of length 3,2,4
def cfg33 : Cfg := { numRows := 3, numCols := 3, numAgents := 1, timeLimit := 9, penalty := 1/2 }
def oRag : Obs := { grid := [[1,0,0],[0,0],[0,0,0,0]], agents := [(0,0)], actionMask := [[false,true,true,false]], stepCount := 0 }
#eval (obsSpec cfg33).valid (toNValue cfg33 oRag)
-- ragged mask: 2 agents rows of length 4 and... need first row 4: [[a,b,c,d],[..4]] only; rows 4,3,5 for 3 agents
def cfg3a : Cfg := { numRows := 1, numCols := 1, numAgents := 3, timeLimit := 9, penalty := 1/2 }
def oRagM : Obs := { grid := [[1]], agents := [(0,0),(0,0),(0,0)], actionMask := [[false,false,false,false],[false,false,false],[false,false,false,false,false]], stepCount := 0 }
#eval (obsSpec cfg3a).valid (toNValue cfg3a oRagM)

-- P4: generate value on a generated reset state: ends at once
#eval (step Props.C10.cleanerGenCfg (Cleaner.reset Props.C10.cleanerGenCfg (generate Props.C10.cleanerGenCfg Props.C10.cleanerGenMaze)).1 (List.replicate 1 0)).2.stepType
#eval (step Props.C10.cleanerGenCfg (Cleaner.reset Props.C10.cleanerGenCfg (generate Props.C10.cleanerGenCfg Props.C10.cleanerGenMaze)).1 (List.replicate 1 0)).2.reward
