import JumanjiModel.Props.Env.Snake
open Jm Jx Snake
-- time_limit = 0: reset obs valid, first step obs invalid (step_count = 1 outside DiscreteArray(1)), step is LAST
example : (obsSpec ⟨2, 3, 0⟩).valid (toNValue (reset id ⟨2, 3, 0⟩ 0 0 5).2.obs) = true ∧
    (step id ⟨2, 3, 0⟩ (reset id ⟨2, 3, 0⟩ 0 0 5).1 1 0).2.stepType = .last ∧
    (obsSpec ⟨2, 3, 0⟩).valid (toNValue (step id ⟨2, 3, 0⟩ (reset id ⟨2, 3, 0⟩ 0 0 5).1 1 0).2.obs) = false := by decide +kernel
