import JumanjiModel.Props.Env.Sudoku
open Jm Jx Sudoku
theorem sudoku_feasible_along (b : Grid Int) (hb : b ∈ Gen.SudokuDB.allBoards) (as : List Action) (k : Nat)
    (hk : k ≤ as.length)
    (hleg : ∀ j (hj : j < as.length), j < k →
      legal (EpRun.after stepA (Sudoku.reset b).1 (as.take j)).board as[j].1 as[j].2.1 as[j].2.2) :
    Feasible (EpRun.after stepA (Sudoku.reset b).1 (as.take k)).board := by
  induction k with
  | zero =>
    simp [EpRun.after]
    exact (Props.C10.sudoku_db_feasible b hb).1
  | succ k ih =>
    have hk' : k < as.length := by omega
    have ihk := ih (by omega) (fun j hj hjk => hleg j hj (by omega))
    have hl := hleg k hk' (by omega)
    sorry
