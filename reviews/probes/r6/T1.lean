import JumanjiModel.Props.Env.Snake
import JumanjiModel.Props.Env.Sudoku
import JumanjiModel.Props.Env.Maze
open Jm Jx

-- Snake: planes other than `body` of a wrong shape / ragged body are accepted
example : (Snake.obsSpec ⟨2, 3, 4⟩).valid (Snake.toNValue { (Snake.reset id ⟨2, 3, 4⟩ 0 0 5).2.obs with head := [], tail := [[1]], norm := [[0,0,0,0,0,7],[0],[0]] }) = true := by
  decide +kernel
example : (Snake.obsSpec ⟨2, 3, 4⟩).valid (Snake.toNValue { (Snake.reset id ⟨2, 3, 4⟩ 0 0 5).2.obs with body := [[0,0,0],[0,0,0,5,5]] }) = true := by
  decide +kernel
-- Maze: ragged walls with the right total
example : (Maze.obsSpec Props.mazeCfg).valid (Maze.toNValue (Maze.obsOf { Props.mazeEx with walls := [[false, true, false, false], [false, false]] })) = true := by decide
