import JumanjiModel.Props.Env.Connector
import JumanjiModel.Props.EpisodeInstances
open Jm Jx Connector Sp PzS PkS MaS

/-- proposed (4): the solving episode is a real episode when it fits in the limit -/
theorem connector_walk_generated_board_solved_within_limit (cfg : Cfg) (hn : 0 < cfg.n) (hk : 0 < cfg.k)
    (init : List (Int × Int)) (tape : List (List Int)) (hv : validWalkDraw cfg.n cfg.k init tape = true)
    (hnb : ∀ d ∈ init, d.2 ≠ -1)
    (hfit : ((solveActs cfg.n cfg.k (walkGenerate cfg.n cfg.k init tape).2 (walkGenerate cfg.n cfg.k init tape).1).length : Int)
        ≤ cfg.timeLimit)
    (hpos : 0 < (solveActs cfg.n cfg.k (walkGenerate cfg.n cfg.k init tape).2 (walkGenerate cfg.n cfg.k init tape).1).length) :
    Ep.firstLastTS ((Ep.rollout (step cfg) (walkGenerate cfg.n cfg.k init tape).2
      (solveActs cfg.n cfg.k (walkGenerate cfg.n cfg.k init tape).2 (walkGenerate cfg.n cfg.k init tape).1)).map (·.2)) =
      some (solveActs cfg.n cfg.k (walkGenerate cfg.n cfg.k init tape).2 (walkGenerate cfg.n cfg.k init tape).1).length := by
  sorry

/-- proposed (5): one statement for "every observation of every episode, reset to first LAST inclusive" -/
theorem connector_episode_obs_valid (cfg : Cfg) (hn : 0 < cfg.n) (hk : 0 < cfg.k) (hT : 0 < cfg.timeLimit)
    (s0 : State) (h : SpecInv cfg s0) (h0 : s0.stepCount = 0) (as : List (List Int))
    (has : ∀ a ∈ as, a.length = cfg.k) (hlen : cfg.timeLimit ≤ as.length) :
    (obsSpec cfg).valid (toNValue (resetTs cfg s0).obs) = true ∧
    ∃ k, Ep.firstLastTS ((Ep.rollout (step cfg) s0 as).map (·.2)) = some k ∧ 0 < k ∧ (k : Int) ≤ cfg.timeLimit ∧
      ∀ j e, j < k → (Ep.rollout (step cfg) s0 as)[j]? = some e → (obsSpec cfg).valid (toNValue e.2.obs) = true := by
  refine ⟨Connector.reset_obs_valid cfg hn hk (by omega) s0 h h0, ?_⟩
  obtain ⟨k, hk1, hk2, hk3⟩ := Props.C11.connector_rollout_ends_by_limit cfg hT s0 h0 as hlen
  exact ⟨k, hk1, hk2, hk3, fun j e hj he =>
    Connector.rollout_obs_valid cfg hn hk s0 h h0 as has j (by omega) e he⟩
