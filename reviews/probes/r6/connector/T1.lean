import JumanjiModel.Props.Env.Connector
import JumanjiModel.Core.EpisodeLemmas
open Jm Jx Connector Sp PzS PkS MaS

-- (a) time_limit = 0: reset obs is a member, the first step's observation is NOT (step_count = 1 > 0)
example :
    let cfg : Cfg := ⟨3, 2, 0, 1, -3/100⟩
    let s : State := uniformGenerate 3 2 [0, 6, 2, 8]
    (obsSpec cfg).valid (toNValue (resetTs cfg s).obs) = true ∧
    (step cfg s [0, 0]).2.stepType = .last ∧
    (obsSpec cfg).valid (toNValue (step cfg s [0, 0]).2.obs) = false := by decide +kernel

-- (b) ragged grid accepted by valid∘toNValue: obs_valid_only cannot give Rect2
example :
    let cfg : Cfg := ⟨3, 2, 6, 1, -3/100⟩
    let o : Obs := ⟨[[0,0,0],[0,0],[0,0,0,0]], [[true,true,true,true,true],[true,true,true,true,true]], 0⟩
    (obsSpec cfg).valid (toNValue o) = true := by decide +kernel
