import JumanjiModel.Props.Env.Connector
import JumanjiModel.Core.EpisodeLemmas
open Jm Jx Connector Sp PzS PkS MaS

/-- proposed: Connector as Ep.Exact -/
theorem connector_exact (cfg : Cfg) :
    Ep.Exact (Ep.ofStep (step cfg) (·.stepCount)) (fun _ => True)
      (fun s a => (List.zipWith connectedOrBlocked (step cfg s a).1.agents
          (actionMask (step cfg s a).1.grid (step cfg s a).1.agents)).all id = true) .ge cfg.timeLimit :=
  Ep.Exact.of_step (fun _ _ h => h) (fun s a _ => Connector.step_count cfg s a)
    (fun s a _ => by rw [Connector.last_iff, Connector.step_count])

theorem connector_episode_ends_exactly_at_limit (cfg : Cfg) (hT : 0 < cfg.timeLimit) (s : State) (h0 : s.stepCount = 0)
    (as : List (List Int)) (hlen : cfg.timeLimit ≤ as.length)
    (hno : ∀ (j : Nat) (a : List Int), (j : Int) + 1 < cfg.timeLimit → as[j]? = some a →
      let sj := (Ep.ofStep (step cfg) (·.stepCount)).stateAt s as j
      ¬ ((List.zipWith connectedOrBlocked (step cfg sj a).1.agents
          (actionMask (step cfg sj a).1.grid (step cfg sj a).1.agents)).all id = true)) :
    Ep.firstLastTS ((Ep.rollout (step cfg) s as).map (·.2)) = some cfg.timeLimit.toNat :=
  Ep.rollout_ends_exactly_at_limit (connector_exact cfg) hT s trivial h0 as hlen hno

/-- proposed: feasibility along every episode from EVERY walk-generator draw (not boxed in) -/
theorem connector_feasible_along_walk (cfg : Cfg) (hn : 0 < cfg.n) (hk : 0 < cfg.k) (init : List (Int × Int))
    (tape : List (List Int)) (hv : validWalkDraw cfg.n cfg.k init tape = true) (hnb : ∀ d ∈ init, d.2 ≠ -1)
    (actss : List (List Int)) (hspec : ∀ acts ∈ actss, acts.length = cfg.k ∧ ∀ a ∈ acts, 0 ≤ a ∧ a ≤ 4) :
    ∀ s ∈ traceL1 cfg (walkGenerate cfg.n cfg.k init tape).2 actss, Feasible cfg.n cfg.k s :=
  Props.C06.connector_feasible_along cfg hk actss hspec _
    (Connector.fresh_feasible cfg.n cfg.k _ (Props.C10.connector_walk_reset_fresh cfg.n cfg.k hn hk init tape hv hnb))

/-- proposed: LAST at the strength of the rules -/
theorem connector_last_iff_rules (cfg : Cfg) (s : State) (acts : List Int) (hc : Consistent cfg.n cfg.k s)
    (hk : 0 < cfg.k) (hlen : acts.length = cfg.k) (hspec : ∀ a ∈ acts, 0 ≤ a ∧ a ≤ 4) :
    (step cfg s acts).2.stepType = .last ↔
      ((∀ i, i < cfg.k → finished cfg.n (step cfg s acts).1 i = true) ∨ cfg.timeLimit ≤ s.stepCount + 1) := by
  sorry
