import JumanjiModel.Props.Env.Connector
import JumanjiModel.Core.EpisodeLemmas
open Jm Jx Connector Sp PzS PkS MaS

-- non-vacuity of the proposed exact-limit theorem: two all-no-op steps, limit 2: MID, LAST
example : Ep.firstLastTS ((Ep.rollout (step ⟨3, 2, 2, 1, -3/100⟩) (uniformGenerate 3 2 [0, 6, 2, 8]) [[0,0],[0,0]]).map (·.2)) = some 2 := by
  decide +kernel

-- the solving episode of connector_walk_generated_board_solvable ignores the limit: with time_limit = 2 the 4-step
-- solving episode of the doc example hits LAST at step 2, unsolved, yet the theorem's conclusion holds (finalL1 steps on)
example :
    let s : State := ⟨[[2, 0, 3], [0, 0, 0], [5, 0, 6]], 0, [⟨0, (0, 0), (0, 2), (0, 0)⟩, ⟨1, (2, 0), (2, 2), (2, 0)⟩]⟩
    let solved : Grid Int := [[2, 1, 3], [0, 0, 0], [5, 4, 6]]
    let cfg : Cfg := ⟨3, 2, 2, 1, -3/100⟩
    Ep.firstLastTS ((Ep.rollout (step cfg) s (solveActs 3 2 s solved)).map (·.2)) = some 2 ∧
    solutionB 3 2 (finalL1 cfg s ((solveActs 3 2 s solved).take 2)) = false ∧
    solutionB 3 2 (finalL1 cfg s (solveActs 3 2 s solved)) = true := by decide +kernel

/-- proposed: never later, for the doc reference `connector_episode_ends_by_limit` -/
theorem connector_limited (cfg : Cfg) :
    Ep.Limited (Ep.ofStep (step cfg) (·.stepCount)) (fun _ => True) .ge cfg.timeLimit :=
  Ep.Limited.of_step (fun _ _ h => h) (fun s a _ => Connector.step_count cfg s a)
    (fun s a _ h => (Connector.last_iff cfg s a).2 (Or.inr (by rw [Connector.step_count]; exact h)))
