import JumanjiModel.Props.Env.Sudoku
import JumanjiModel.Props.Env.Maze
open Jm Jx
def raggedBoard : Grid Int := (Sudoku.sampleBoard.take 1) ++ [[0,0,0,0,0,0,0,0]] ++ [[0,0,0,0,0,0,0,0,0,0]] ++ Sudoku.sampleBoard.drop 3
example : Sudoku.obsSpec.valid (Sudoku.toNValue { (Sudoku.reset Sudoku.sampleBoard).2.obs with board := raggedBoard }) = true := by decide +kernel
example : (Maze.obsSpec ⟨3, 3, 6⟩).valid (Maze.toNValue (Maze.obsOf { Props.mazeEx with walls := [[false, true, false], [false, false], [false,false,false,false]] })) = true := by decide
