import JumanjiModel.Props.Env.RobotWarehouse
open Jm RobotWarehouse Sp PzS PkS MaS

-- P1 (real proof): export the rectangular form, which `valid (toNValue ·)` does not imply
theorem robot_warehouse_step_obs_rect (cfg : Cfg) (A : Nat) (s : State) (h : SpecInv A s)
    (hlim : s.stepCount < cfg.timeLimit) (a d : List Int) :
    Rect2 (step cfg s a d).2.obs.view A (numFeatures cfg.sensorRange) ∧ Rect2 (step cfg s a d).2.obs.mask A 5 ∧
    0 ≤ (step cfg s a d).2.obs.stepCount ∧ (step cfg s a d).2.obs.stepCount ≤ cfg.timeLimit :=
  RobotWarehouse.step_obs_ok cfg A s h hlim a d

-- P2 (statement only): L2 collision is reported
theorem rware_phys_collision_reported (cfg : Cfg) (s : State) (hc : Consistent cfg s) (a : List Int) (i j : Nat)
    (hij : i < j) (hj : j < s.agents.length)
    (h : apos ((afterMoves cfg s a).agents.getD i default) = apos ((afterMoves cfg s a).agents.getD j default)) :
    ¬ Props.C07.rwareNoCollision cfg s a := sorry

-- P3 witness (real proof): the converse fails
def followS : State :=
  { shelfGrid := [[0, 0, 0]], agentGrid := [[1, 2, 0]], agents := [⟨0, 0, 1, false⟩, ⟨0, 1, 1, false⟩],
    shelves := [], queue := [], stepCount := 0,
    mask := [[true, true, true, true, true], [true, true, true, true, true]] }
def followCfg : Cfg := { timeLimit := 10, sensorRange := 1, highways := [[true, true, true]], goals := [] }
theorem rware_follow_terminates_witness :
    Consistent followCfg followS ∧ legal followS 0 1 ∧ legal followS 1 1 ∧
    (step followCfg followS [1, 1] []).1.agents = [⟨0, 1, 1, false⟩, ⟨0, 2, 1, false⟩] ∧
    ¬ Props.C07.rwareNoCollision followCfg followS [1, 1] ∧
    (step followCfg followS [1, 1] []).2.stepType = .last ∧
    -- same physical move with the ids exchanged: MID
    (step followCfg { followS with agentGrid := [[2, 1, 0]], agents := [⟨0, 1, 1, false⟩, ⟨0, 0, 1, false⟩] } [1, 1] []).2.stepType = .mid := by
  decide

-- P4 (statement only): a legal FORWARD is really executed
theorem rware_legal_forward_executes (cfg : Cfg) (s : State) (hc : Consistent cfg s) (actions draws : List Int)
    (i : Nat) (ag : Agent) (hi : s.agents[i]? = some ag) (ha : actions[i]? = some 1) (hl : legal s i 1) :
    (step cfg s actions draws).1.agents[i]? =
      some { ag with x := (newPos (gRows s.shelfGrid) (gCols s.shelfGrid) ag.x ag.y ag.dir).1,
                     y := (newPos (gRows s.shelfGrid) (gCols s.shelfGrid) ag.x ag.y ag.dir).2 } := sorry
-- sanity on the witness
example : (step Props.C04.rwareWit2Cfg Props.C04.rwareWit2 [1, 2] [1]).1.agents[0]? =
  some { (⟨0, 0, 1, true⟩ : Agent) with x := (newPos 2 3 0 0 1).1, y := (newPos 2 3 0 0 1).2 } := by decide
