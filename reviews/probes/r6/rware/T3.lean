import JumanjiModel.Props.Env.RobotWarehouse
open Jm RobotWarehouse Sp PzS PkS MaS
-- combined: every observation up to and including the FIRST LAST timestep of any play from any generated reset state
theorem robot_warehouse_episode_obs_valid (cfg : Cfg) (A q : Nat) (hA : 0 < A) (d : SpawnDraw)
    (hd : validSpawn A q cfg.highways d = true) (T : Nat) (hT : cfg.timeLimit = (T : Int)) (hpos : 0 < T)
    (ps : List (List Int × List Int)) (k : Nat) (hk : Props.C11.rwareFirstLast (run cfg (generate cfg d) ps) = some k)
    (j : Nat) (hj : j ≤ k) (e : State × TimeStep Obs) (he : (run cfg (generate cfg d) ps)[j]? = some e) :
    (obsSpec cfg A).valid (toNValue (resetTs cfg (generate cfg d)).obs) = true ∧
    (obsSpec cfg A).valid (toNValue e.2.obs) = true ∧ PzS.rewardSpec.valid (scalarArr e.2.reward) = true ∧
    PzS.discountSpec.valid (scalarArr e.2.discount) = true := sorry
