import JumanjiModel.Props.Env.RobotWarehouse
open Jm RobotWarehouse Sp PzS PkS MaS

-- (a) ragged view accepted by validate-model
def raggedObs : Obs := ⟨[List.replicate 66 0, List.replicate 65 0, List.replicate 67 0],
  [[true,true,true,true,true],[true,true,true,true,true],[true,true,true,true,true]], 0⟩
example : (obsSpec Props.C04.rwareWitCfg 3).valid (toNValue raggedObs) = true := by decide +kernel
-- ragged mask?
def raggedObs2 : Obs := ⟨[List.replicate 66 0, List.replicate 66 0, List.replicate 66 0],
  [[true,true,true,true,true],[true,true,true,true],[true,true,true,true,true,true]], 0⟩
#eval (obsSpec Props.C04.rwareWitCfg 3).valid (toNValue raggedObs2)

-- (b) follow scenario: agent 0 steps into the cell agent 1 vacates in the same step
def followS : State :=
  { shelfGrid := [[0, 0, 0]], agentGrid := [[1, 2, 0]], agents := [⟨0, 0, 1, false⟩, ⟨0, 1, 1, false⟩],
    shelves := [], queue := [], stepCount := 0,
    mask := [[true, true, true, true, true], [true, true, true, true, true]] }
def followCfg : Cfg := { timeLimit := 10, sensorRange := 1, highways := [[true, true, true]], goals := [] }
example : Consistent followCfg followS := by decide
#eval (step followCfg followS [1, 1] []).1.agents
#eval (step followCfg followS [1, 1] []).1.agentGrid
#eval (step followCfg followS [1, 1] []).2.stepType
#eval decide (Props.C07.rwareNoCollision followCfg followS [1, 1])
-- reversed ids: agent 1 follows agent 0
def followS' : State :=
  { followS with agentGrid := [[2, 1, 0]], agents := [⟨0, 1, 1, false⟩, ⟨0, 0, 1, false⟩] }
example : Consistent followCfg followS' := by decide
#eval (step followCfg followS' [1, 1] []).2.stepType
#eval (step followCfg followS' [1, 1] []).1.agents
