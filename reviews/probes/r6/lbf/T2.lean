import JumanjiModel.Props.Env.LBF
open Jm Jx LBF Sp PzS PkS MaS

-- R1: the reaction of `step` itself to a move action (statement only)
theorem lbf_step_moves_iff_legal (cfg : Cfg) (s : State) (hw : WF s) (as : List Nat)
    (hlen : as.length = s.agents.length) (has : ∀ a ∈ as, a < 6) (i : Nat) (hi : i < s.agents.length)
    (hm : 1 ≤ as[i]'(by omega) ∧ as[i]'(by omega) ≤ 4) :
    ∃ h : i < (step cfg s (as.map Int.ofNat)).1.agents.length,
      (((step cfg s (as.map Int.ofNat)).1.agents[i]).pos = addP s.agents[i].pos (dir (as[i]'(by omega))) ↔
        (legal cfg.gridSize s i (as[i]'(by omega)) ∧
         ¬ ∃ u ∈ (targets cfg.gridSize s as).eraseIdx i, u = addP s.agents[i].pos (dir (as[i]'(by omega))))) := sorry

-- R2: C08 from the generator
theorem lbf_generated_return_is_one (cfg : Cfg) (hn : cfg.normalize = true) (hp : cfg.penalty = 0) (gc : GenCfg)
    (hF : 0 < gc.numFood) (d : GenDraw) (hd : validDraw gc d = true) (as : List (List Int))
    (hlen : ∀ a ∈ as, a.length = gc.numAgents)
    (hend : (finalState cfg (generate gc d) as).foods.all (fun f => f.eaten) = true) :
    teamReturn cfg (generate gc d) as = 1 := by
  refine Props.C08.lbf_return_is_one cfg hn hp _ as (gen_wf gc d hd).2.2 ?_ ?_ (gen_fresh_start gc d).2.2 hend
  · intro h
    have := gen_foods_length gc d
    rw [h] at this; simp at this; omega
  · intro a ha; rw [gen_agents_length]; exact hlen a ha

-- R3: one whole-episode membership statement (reset + every step: observation, reward, discount) (statement only)
theorem lbf_episode_members (cfg : Cfg) (gc : GenCfg) (L : Nat) (hg : cfg.gridSize = gc.gridSize)
    (hL : gc.maxAgentLevel = (L : Int)) (hA : 0 < gc.numAgents) (hT : 0 ≤ cfg.timeLimit) (d : GenDraw)
    (h : validDraw gc d = true) (as : List (List Nat)) (has : ∀ a ∈ as, a.length = gc.numAgents ∧ ∀ x ∈ a, x < 6) :
    (obsSpec cfg gc.numAgents gc.numFood L).valid (toNValue (resetTs cfg (generate gc d)).obs) = true ∧
    (rewardSpecN gc.numAgents).valid (vecArr (resetTs cfg (generate gc d)).reward) = true ∧
    (discountSpecN gc.numAgents).valid (vecArr (resetTs cfg (generate gc d)).discount) = true ∧
    ∀ (j : Nat) (e : State × TimeStep Obs), (j : Int) < cfg.timeLimit →
      (Ep.rollout (fun s (a : List Nat) => step cfg s (a.map Int.ofNat)) (generate gc d) as)[j]? = some e →
      (obsSpec cfg gc.numAgents gc.numFood L).valid (toNValue e.2.obs) = true ∧
      (rewardSpecN gc.numAgents).valid (vecArr e.2.reward) = true ∧
      (discountSpecN gc.numAgents).valid (vecArr e.2.discount) = true ∧ e.2.stepType ≠ .first := sorry

-- R4: a grid-observer configuration whose agents_view leaf (3·3·3·3 = 81 elements) fits under the 160 cut and whose maximum is A·L = 9 > grid_size
#eval obsSpec ⟨6, 1, 9, true, true, 0⟩ 3 2 3
