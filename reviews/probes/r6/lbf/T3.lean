import JumanjiModel.Props.Env.LBF
open Jm Jx LBF

def chk (cfg : Cfg) (s : State) (as : List Nat) (i : Nat) : Bool :=
  let a := as.getD i 0
  let ag := s.agents.getD i default
  let lhs := decide (((step cfg s (as.map Int.ofNat)).1.agents.getD i default).pos = addP ag.pos (dir a))
  let rhs := decide (legal cfg.gridSize s i a ∧ ¬ ∃ u ∈ (targets cfg.gridSize s as).eraseIdx i, u = addP ag.pos (dir a))
  !(decide (1 ≤ a ∧ a ≤ 4)) || (lhs == rhs)

def s3 : State := ⟨[⟨0, (1, 1), 1, false⟩, ⟨1, (1, 3), 2, false⟩, ⟨2, (0, 2), 1, false⟩], [⟨0, (2, 2), 3, false⟩], 0⟩
def cfg3 : Cfg := ⟨5, 1, 7, false, true, 0⟩
#eval decide (Consistent 5 s3 ∧ WF s3)
#eval (List.range 216).all (fun n => let as := [n % 6, (n / 6) % 6, n / 36]; (List.range 3).all (chk cfg3 s3 as))
-- count of joint actions with a collision revert (legal move that does not happen)
#eval ((List.range 216).filter (fun n => let as := [n % 6, (n / 6) % 6, n / 36];
  (List.range 3).any (fun i => let a := as.getD i 0; decide (1 ≤ a ∧ a ≤ 4 ∧ legal 5 s3 i a) &&
    decide (((step cfg3 s3 (as.map Int.ofNat)).1.agents.getD i default).pos = (s3.agents.getD i default).pos)))).length
