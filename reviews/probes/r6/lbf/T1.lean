import JumanjiModel.Props.Env.LBF
open Jm Jx LBF Sp PzS PkS MaS

-- (a) ragged mask / ragged view accepted by `valid` (shape read off the HEAD row only)
def sR : State := ⟨[⟨0, (1, 1), 1, false⟩, ⟨1, (1, 2), 2, false⟩, ⟨2, (3, 3), 1, false⟩], [⟨0, (2, 2), 3, false⟩], 0⟩
def cv : Cfg := ⟨5, 1, 7, false, true, 0⟩
def oR : Obs := { (resetTs cv sR).obs with
  mask := [[true, true, true, true, true, true], [true, true, true, true, true], [true, true, true, true, true, true, true]] }
#eval (obsSpec cv 3 1 2).valid (toNValue (resetTs cv sR).obs)
#eval (obsSpec cv 3 1 2).valid (toNValue oR)
#eval decide (Rect2 oR.mask 3 6)

-- (b) the spec maximum is never exercised beyond grid_size in the tied configuration
#eval specMax ⟨6, 2, 8, false, true, 0⟩ 2 2
#eval specMax ⟨7, 7, 6, true, true, 0⟩ 3 2
-- the untied grid leaf
#eval (obsSpec ⟨7, 7, 6, true, true, 0⟩ 3 2 2).head?
