import JumanjiModel.Props.Env.Knapsack
import JumanjiModel.Props.Env.Game2048
import JumanjiModel.Props.Env.Minesweeper
import JumanjiModel.Props.Env.TSP
import JumanjiModel.Props.Guards
open Jm

-- ragged board accepted by the encoding (valid reads the column count off the first row only)
example : (Game2048.obsSpec 3).valid (Game2048.toNValue ⟨[[0,1,0],[2,0],[0,0,0,1]], [true,false,true,true]⟩) = true := by decide
example : (TSP.obsSpec 2).valid (TSP.toNValue ⟨[[0, 0], [1]], 1, [1, -1], [true, false]⟩) = false := by decide +kernel
example : (TSP.obsSpec 2).valid (TSP.toNValue ⟨[[0, 0], [1, 0, 0], []], 1, [1, -1], [true, false]⟩) = false := by decide +kernel
example : (TSP.obsSpec 3).valid (TSP.toNValue ⟨[[0, 0], [1, 0, 0], [1]], 1, [1, -1, -1], [true, false, true]⟩) = true := by decide +kernel

-- Knapsack: a monotone rounding fixing 0 (round up to quarters) under which legal play overshoots the budget
def rUp (x : Rat) : Rat := ((Rat.ceil (4 * x) : Int) : Rat) / 4
#eval rUp 0
#eval (Knapsack.statesAlong rUp true (Knapsack.generate 3 1 [3/8,3/8,3/8] [1,1,1]) [0,1,2]).map (fun s => (s.remaining, Knapsack.packedWeight s))
#eval decide (Knapsack.LegalPlay rUp true (Knapsack.generate 3 1 [3/8,3/8,3/8] [1,1,1]) [0,1,2])

-- Minesweeper: the constructor corollary that Guards.lean does not state
open Minesweeper in
theorem minesweeper_reset_obs_valid_of_ctor (ρ : String → Int)
    (h : Guard.accepts (Props.C10.checks "minesweeper.Generator") ρ = true) (cfg : Cfg)
    (hr : (cfg.numRows : Int) = ρ "num_rows") (hc : (cfg.numCols : Int) = ρ "num_cols")
    (hm : (cfg.numMines : Int) = ρ "num_mines") (d : List Nat) (hd : validDraw cfg d) :
    (obsSpec cfg).valid (toNValue (resetTimeStep cfg (generate cfg d)).obs) = true := by
  obtain ⟨_, _, _, h4⟩ := Props.C10.minesweeper_ctor_check ρ h
  rw [← hr, ← hc, ← hm] at h4
  exact Props.C01.minesweeper_reset_obs_valid cfg d hd (by unfold cells; exact_mod_cast h4)
