import JumanjiModel.Props.Env.CVRP
import JumanjiModel.Props.Env.Minesweeper
open Jm

namespace CVRP
/-- the support of `jax.random.randint(key, (n+1,), minval=1, maxval=max_demand)`: upper bound EXCLUSIVE; when
`max_demand ≤ 1` the span is forced to 1 and `minval = 1` is returned -/
def validUniformCode (n : Nat) (maxDemand : Int) (cd : List (List Rat)) (dd : List Int) : Prop :=
  cd.length = n + 1 ∧ dd.length = n + 1 ∧ (∀ p ∈ cd, p.length = 2 ∧ ∀ x ∈ p, 0 ≤ x ∧ x < 1) ∧
  (∀ d ∈ dd, 1 ≤ d ∧ d ≤ max 1 (maxDemand - 1))

instance (n : Nat) (m : Int) (cd : List (List Rat)) (dd : List Int) : Decidable (validUniformCode n m cd dd) := by
  unfold validUniformCode; infer_instance

theorem validUniformCode_sub (n : Nat) (m : Int) (cd : List (List Rat)) (dd : List Int) (h1 : 1 ≤ m)
    (h : validUniformCode n m cd dd) : validUniform n m cd dd := by
  obtain ⟨a, b, c, d⟩ := h
  exact ⟨a, b, c, fun x hx => ⟨(d x hx).1, by have := (d x hx).2; omega⟩⟩

/-- the configuration CVRP.__init__ accepts but for which the instance is NOT well-formed -/
example : validUniformCode 3 0 [[0,0],[0,0],[0,0],[0,0]] [1,1,1,1] ∧
    ¬ GenCert 3 0 0 (generate 3 0 [[0,0],[0,0],[0,0],[0,0]] [1,1,1,1]) ∧
    ¬ demandsOK 0 0 (generate 3 0 [[0,0],[0,0],[0,0],[0,0]] [1,1,1,1]) := by decide +kernel

/-- repaired certificate statement (type-checks; follows from cvrp_generate_cert) -/
theorem generate_cert_code (n : Nat) (maxCap maxDemand : Int) (cd : List (List Rat)) (dd : List Int)
    (h1 : 1 ≤ maxDemand) (hcon : maxDemand ≤ maxCap) (hd : validUniformCode n maxDemand cd dd) :
    GenCert n maxCap maxDemand (generate n maxCap cd dd) :=
  Props.C10.cvrp_generate_cert n maxCap maxDemand cd dd hcon (validUniformCode_sub n maxDemand cd dd h1 hd)
end CVRP

open Minesweeper Sp PzS PzS3 in
theorem minesweeper_accepts_generate_value' (cfg : Cfg) (hR : 0 < cfg.numRows) (hC : 0 < cfg.numCols)
    (hbig : cfg.numRows ≤ 2147483648 ∧ cfg.numCols ≤ 2147483648) (hM : cfg.numMines < cells cfg)
    (s : State) (hcs : Consistent cfg s) (hns : isSolved s = false) :
    (actionSpec cfg).valid (actionSpec cfg).generate = true ∧ (actionSpec cfg).generate = actionArr 0 0 ∧
    StepOK none false (step cfg s 0 0).2 = true ∧ (obsSpec cfg).valid (toNValue (step cfg s 0 0).2.obs) = true := by
  obtain ⟨_, h2, h3, h4⟩ := Props.C01.minesweeper_accepts_generate_value cfg hR hC hbig s
  exact ⟨h2, h3, h4, Props.C01.minesweeper_step_obs_valid cfg s hcs 0 0 hR hC hns hM⟩
