import JumanjiModel.Props.Env.CVRP
import JumanjiModel.Props.Env.Game2048
import JumanjiModel.Props.Guards
open Jm

-- 1. CVRP: validUniform unsatisfiable for max_demand ≤ 0 although CVRP.__init__ accepts (0,0)
example (n : Nat) (cd : List (List Rat)) (dd : List Int) : ¬ CVRP.validUniform n 0 cd dd := by
  intro h
  obtain ⟨_, h2, _, h4⟩ := h
  cases dd with
  | nil => simp at h2
  | cons d ds => have := h4 d (by simp); omega

example : Guard.accepts (Props.C10.checks "cvrp.CVRP") (fun _ => 0) = true := by decide +kernel

-- the model's reset observation for max_capacity = 0 and the demands the real generator draws (1): model says member, real gives inf/nan
#eval (CVRP.obsSpec 3).valid (CVRP.toNValue (CVRP.reset ⟨0, true, 1⟩ 3 [[0,0],[0,0],[0,0],[0,0]] [1,1,1,1]).2.obs)
#eval (CVRP.reset ⟨0, true, 1⟩ 3 [[0,0],[0,0],[0,0],[0,0]] [1,1,1,1]).2.obs.demands

-- 3. Guards: graph_coloring float guard over Int is never accepted
example (ρ : String → Int) : Guard.accepts (Props.C10.checks "graph_coloring.RandomGenerator") ρ = false := by
  have e : Props.C10.checks "graph_coloring.RandomGenerator" = Gen.Guards.c_graph_coloring_RandomGenerator := by decide +kernel
  rw [e]
  simp [Gen.Guards.c_graph_coloring_RandomGenerator, Guard.accepts, Guard.C.eval, Guard.E.eval]
  omega

-- 2. Game2048: last_iff about step
open Game2048 in
theorem game2048_step_last_iff (s : State) (a : Nat) (d : Draw) (ha : a < 4) (hs : Square s.board)
    (hm : s.actionMask = legalMask s.board) :
    (step s a d).2.stepType = .last ↔ ¬ ∃ a', legal (step s a d).1.board a' := by
  rw [Props.C09.game2048_step_eq_rules s a d ha hs hm]
  exact Props.C09.game2048_rules_last_iff s a d
