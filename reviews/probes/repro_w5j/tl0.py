import os
os.environ["JAX_PLATFORMS"]="cpu"
import jax, jax.numpy as jnp
from jumanji.environments.routing.snake import Snake
from jumanji.environments.routing.connector import Connector
for name, env, act in [("snake", Snake(num_rows=2, num_cols=3, time_limit=0), jnp.array(1)),
                       ("connector", Connector(time_limit=0), None)]:
    s, ts = env.reset(jax.random.PRNGKey(0))
    spec = env.observation_spec
    spec.validate(ts.observation); print(name, "reset obs valid; step_count", ts.observation.step_count)
    if act is None:
        act = jnp.zeros((env.num_agents,), jnp.int32)
    s2, ts2 = env.step(s, act)
    print(name, "step_type", int(ts2.step_type), "step_count", ts2.observation.step_count)
    try:
        spec.validate(ts2.observation); print(name, "step obs VALID")
    except Exception as e:
        print(name, "step obs INVALID:", type(e).__name__, str(e)[:150])
