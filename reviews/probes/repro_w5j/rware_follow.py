import jax, jax.numpy as jnp
from jumanji.environments.routing.robot_warehouse import RobotWarehouse
from jumanji.environments.routing.robot_warehouse.generator import RandomGenerator
from jumanji.environments.routing.robot_warehouse.types import Agent, Position, State
from jumanji.environments.routing.robot_warehouse.utils import compute_action_mask
env = RobotWarehouse(RandomGenerator(1,3,2,num_agents=2,sensor_range=1,request_queue_size=2), time_limit=9)
s, ts = env.reset(jax.random.PRNGKey(0))
def mk(pos0, pos1):
    agents = Agent(position=Position(x=jnp.array([pos0[0],pos1[0]]), y=jnp.array([pos0[1],pos1[1]])),
                   direction=jnp.array([1,1]), is_carrying=jnp.array([0,0]))
    grid = s.grid.at[0].set(0)
    grid = grid.at[0,pos0[0],pos0[1]].set(1).at[0,pos1[0],pos1[1]].set(2)
    return State(grid=grid, agents=agents, shelves=s.shelves, request_queue=s.request_queue,
                 step_count=s.step_count, action_mask=compute_action_mask(grid, agents), key=s.key)
for p0,p1 in [((0,0),(0,1)), ((0,1),(0,0))]:
    st = mk(p0,p1)
    ns, t = env.step(st, jnp.array([1,1]))
    print(p0,p1,'-> step_type', int(t.step_type), 'agents x', ns.agents.position.x, 'y', ns.agents.position.y)
print(ts.observation.agents_view.dtype, ts.observation.step_count.dtype, ts.observation.action_mask.dtype, ts.reward.dtype, ts.reward.shape)
