import os
os.environ["JAX_PLATFORMS"]="cpu"
import jax, jax.numpy as jnp
from jumanji.environments.routing.cvrp import CVRP
from jumanji.environments.routing.cvrp.generator import UniformGenerator
env = CVRP(UniformGenerator(3, 0, 0))
s, ts = env.reset(jax.random.PRNGKey(0))
print("demands", s.demands, "capacity", s.capacity, "obs demands", ts.observation.demands, "unvisited", None)
try:
    env.observation_spec.validate(ts.observation); print("VALID")
except Exception as e:
    print("INVALID:", type(e).__name__, str(e)[:200])
for m in (1, 2):
    g = UniformGenerator(5, m, m)
    st = g(jax.random.PRNGKey(1)); print("max_demand", m, "demands", st.demands)
