import os
os.environ["JAX_PLATFORMS"]="cpu"
import sys; sys.dont_write_bytecode=True
import jax, jax.numpy as jnp, numpy as np
from jumanji.environments.routing.pac_man.env import PacMan
from jumanji.environments.routing.pac_man.generator import AsciiGenerator
# maze with a dead-end corridor (row 1, to the right) ; 4 G, P, 4 S, 4 T ; all free cells connected
MAZE = [
 "XXXXXXXXXXXX",
 "XG        XX",   # ghost 0 at col1; corridor; dead end at col 9
 "X XXXXXXXXXX",
 "XGG G  TTTTX",
 "X XXXXXXXXXX",
 "XSSSSOOOOP X",
 "XXXXXXXXXXXX",
]
gen = AsciiGenerator(MAZE)
env = PacMan(generator=gen, time_limit=200)
grid = np.array(gen.numpy_maze)
step = jax.jit(env.step)
bad = []
for seed in range(6):
    state, ts = env.reset(jax.random.PRNGKey(seed))
    rng = np.random.default_rng(seed)
    for t in range(120):
        a = int(rng.integers(0,5))
        prev = np.array(state.ghost_locations)
        state, ts = step(state, a)
        g = np.array(state.ghost_locations)
        for i,(c,r) in enumerate(g):
            if grid[r, c] != 1:
                bad.append((seed,t,i,tuple(prev[i]),(int(c),int(r))))
        if ts.last(): break
print("ghost-on-wall events:", len(bad)); print(bad[:10])
