#!/bin/bash
# copy finished round-N adversary deliverables into /verif/seeded/<pid>-r2-<i>
cd /verif
R=${1:-3}; for p in C01 C02 C03 C04 C05 C06 C07 C08 C09 C10 C11 C12 C13 C14 C15 C16 C17 C18 C19; do for i in 1 2; do
  s=/tmp/mut$R/$p/out/change$i; d=seeded/$p-r$R-$i
  if [ -f $s/patch.diff ] && [ -f $s/demo.py ] && [ ! -d $d ]; then mkdir -p $d; cp $s/patch.diff $s/demo.py $d/; cp $s/notes.md $d/ 2>/dev/null; echo "collected $d"; fi
done; done
