"""Write the prompts of a round of adversary agents and create their scratch worktrees:  tools/mkadversary.py <round dir, e.g. /tmp/mut3>
Each agent gets only the text of one property and its own scratch worktree of /repo (outside /repo and /verif) — nothing from /verif.
The FOCUS sentences steer a round away from the source files the earlier rounds already changed."""
import json
import os
import subprocess
import sys

V = os.path.dirname(os.path.dirname(os.path.abspath(__file__)))
BASE = '''You are a software engineer asked to play the adversary in a verification study of the JAX reinforcement-learning library instadeepai/jumanji. You have your own scratch git worktree of the repository at {WT} (Python: /venv/bin/python; run tests with `cd {WT} && /venv/bin/python -m pytest -q -p no:cacheprovider <paths>`; to import your modified tree from a script put `import sys; sys.path.insert(0, "{WT}")` first). Work ONLY inside {WT} (and {WT}/out for your deliverables). Do not read or touch anything under /verif or /repo, and do not look for other people's work in /tmp. There is no network. NEVER use `git stash` (the stash is shared between worktrees): switch between patched and clean trees with `git apply <patch>` / `git apply -R <patch>` or `git checkout -- <file>`.

The property under study (call it {PID}):

TITLE: {TITLE}
STATEMENT: {STATEMENT}
QUANTIFIED OVER: {QUANT}

Your task: produce {N} different realistic change(s) to the library source that BREAK this property while the code still imports and the existing test-suite still passes. {FOCUS} The change must look like something that could slip through code review — a plausible bug, refactor or "optimisation", not vandalism — and it must need something specific to manifest: a particular configuration (non-default size, non-square grid, more agents, a small time limit, a non-default generator or reward function), a multi-step sequence of operations, an unusual but in-contract input, a particular interleaving of terminations in a batch, a late step of an episode, or two cooperating edits that each look fine alone. Changes that ordinary use (the default configuration's first few steps, or the smoke tests) would expose at once are not wanted. Prefer subtle semantic slips (wrong array used, off-by-one on a boundary, stale value, wrong axis, lost update, wrong reduction) over crude ones. Do not edit test files.

For each change i = 1..{N} deliver in {WT}/out/change<i>/ :
 - patch.diff  — `git diff` of the source change relative to HEAD (apply-able with `git apply`), containing only that change;
 - demo.py     — a small standalone script taking the repository path as its first argument (it must do `sys.path.insert(0, sys.argv[1])` before importing jumanji) that exits 0 on the unmodified tree and exits 1 (printing what went wrong) on the tree with your patch applied: a concrete demonstration that the property is violated;
 - notes.md    — which part of the property it breaks, what it needs in order to manifest (configuration, sequence, input), and which existing tests you ran.
Verify yourself: (a) with the patch applied the tests of the touched package(s) and any test file that imports the touched module pass (run them with `-n 2`; do NOT run the full suite, it will be run for you afterwards) — state the exact commands and results in notes.md; (b) demo.py exits 1 with the patch and 0 without. Leave the worktree CLEAN (no applied patch) when you finish. Keep each patch small (a few lines). Use at most 2 CPU cores. Budget: about 45 minutes. Your final message: for each change one paragraph (file, what it breaks, what it needs to manifest, tests run, demo result).'''

ROUND3 = {
    'C01': (2, "Target environments among Sokoban, PacMan, BinPack, JobShop, Knapsack, Game2048, TSP, CVRP, Tetris, FlatPack, RobotWarehouse, MMST, Maze, Minesweeper, Sudoku (one change each in two different environments); the slip may be in the spec declaration or in what the environment emits."),
    'C02': (2, "Target any environment other than BinPack and MMST, or the wrappers/generators/viewer-free library code: e.g. a value cached on the environment or generator object that depends on an earlier call, hidden global state (module-level counters, NumPy RNG), Python-level branching on a concrete value that freezes at trace time, results depending on jit vs. eager execution, or in-place modification of the content of an argument."),
    'C03': (2, "Target environments among Sokoban, PacMan, CVRP, JobShop, Minesweeper, FlatPack, Tetris, Game2048, Knapsack, TSP, Maze, Cleaner, BinPack, MultiCVRP, LevelBasedForaging, MMST (one change each in two different environments), or the timestep helpers in jumanji/types.py."),
    'C04': (2, "Target environments among Knapsack, CVRP, TSP, JobShop, BinPack, Sudoku, Connector, Maze, PacMan, Game2048, SlidingTilePuzzle, MMST, MultiCVRP, LevelBasedForaging, Sokoban, FlatPack, GraphColoring (one change each in two different environments)."),
    'C05': (2, "Target environments among CVRP, TSP, Knapsack, JobShop, BinPack, Sokoban, Minesweeper, Sudoku, LevelBasedForaging, MMST, FlatPack, PacMan, Game2048, SlidingTilePuzzle, Cleaner, Snake, MultiCVRP (one change each in two different environments)."),
    'C06': (2, "Target environments among CVRP, Knapsack, JobShop, BinPack, GraphColoring, TSP, Connector, Tetris (one change each in two different environments)."),
    'C07': (2, "Target environments among Game2048, Sokoban, PacMan, Minesweeper, Maze, Cleaner, LevelBasedForaging, SlidingTilePuzzle (one change each in two different environments)."),
    'C08': (2, "Target environments among TSP, CVRP, Knapsack, BinPack, Game2048, FlatPack, MultiCVRP, Connector, Cleaner, LevelBasedForaging, Snake, Tetris, Sudoku, Maze, RubiksCube (one change each in two different environments)."),
    'C09': (2, "Target environments among Game2048, Sokoban, SlidingTilePuzzle, PacMan, Maze, JobShop, BinPack, Connector, RobotWarehouse, Cleaner, CVRP, Knapsack, FlatPack (one change each in two different environments)."),
    'C10': (2, "Target generators among CVRP, TSP, Knapsack, JobShop, BinPack (Random/CSV/Toy), Connector, LevelBasedForaging, RubiksCube scrambling, SlidingTilePuzzle, GraphColoring, MMST, Cleaner, RobotWarehouse, Snake, Game2048, Tetris, MultiCVRP (one change each in two different generators)."),
    'C11': (2, "Target environments among Connector, RobotWarehouse, Sokoban, Cleaner, Tetris, RubiksCube, PacMan, LevelBasedForaging, Snake, or ones with a structural horizon (JobShop, BinPack, FlatPack, Sudoku, Minesweeper, Knapsack, TSP, CVRP, GraphColoring) (one change each in two different environments)."),
    'C12': (2, "Target environments among BinPack (EMS selection / normalisation), MMST (relabelling), Connector (agent-relative view), Sokoban, Maze, Cleaner, PacMan, JobShop, CVRP, Knapsack, MultiCVRP, FlatPack, Minesweeper, Game2048, GraphColoring (one change each in two different environments)."),
    'C13': (1, "Find a slip unlike 'discount taken from the reset timestep' and unlike 'obs/state not replaced': e.g. in the key derivation (which key the fresh episode is started from, whether successive resets get distinct keys), in next_obs_in_extras handling, in extras of the environment being dropped or kept, or in reward/step_type of the auto-reset step."),
    'C14': (1, "Find a slip in VmapWrapper or VmapAutoResetWrapper unlike 'reset only when all elements end': e.g. which elements are reset when several terminate in the same step, key handling per element, next_obs_in_extras for the batch, dtype/shape of the merged fields, or render."),
    'C15': (1, "Find a slip in JumanjiToGymWrapper, JumanjiToDMEnvWrapper or MultiToSingleWrapper unlike 'falsy seed' and 'termination vs truncation on the dm_env side': e.g. terminated/truncated flags on the gym side, the reward/discount reduction of MultiToSingleWrapper, the info/extras dict, the key schedule across resets, or the observation conversion."),
    'C16': (2, "Find slips unlike 'allclose equality', 'nested validate ignores extra keys' and 'generate_value': e.g. in BoundedArray/DiscreteArray/MultiDiscreteArray validate at the exact bounds, dtype checks (e.g. accepting a different integer width), shape broadcasting of bounds, replace(), pickling (__reduce__), or the gym/dm_env conversions (dtype, bounds, nested dict keys)."),
    'C17': (2, "One change in SlidingTilePuzzle (moves, solvability of generated boards, solved detection) and one in RubiksCube for cube sizes other than 3 or for half/inverse turns (move tables, scrambling, solved detection)."),
    'C18': (1, "Find a slip unlike mutating the registered kwargs, unlike kwargs precedence and unlike version parsing of multi-digit versions if you can: e.g. duplicate detection, listing (registered_environments), the id grammar for names containing digits/underscores/hyphens, or the error raised for unknown ids / unknown versions of known names."),
    'C19': (1, "Target jumanji/tree_utils.py or jumanji/testing/pytrees.py with a slip unlike 'cast to the first leaf's dtype' and unlike a wrong index in tree_add_element: e.g. negative indices, leaves of rank 0/size 0, mixed dtypes across leaves, tree structure (namedtuple/dataclass) preservation, or has_jax_arrays/has_at_least_rank style helpers in jumanji/testing/pytrees.py."),
}


def main():
    root = sys.argv[1]
    os.makedirs(root, exist_ok=True)
    props = {json.loads(l)['id']: json.loads(l) for l in open(os.path.join(V, 'properties.jsonl'))}
    for pid, (n, f) in ROUND3.items():
        p = props[pid]
        wt = f"{root}/{pid}"
        open(f'{root}/prompt_{pid}.txt', 'w').write(BASE.format(WT=wt, PID=pid, TITLE=p['title'], STATEMENT=p['statement'], QUANT=p['quantifier']['text'], N=n, FOCUS=f))
        subprocess.run(f"git -C /repo worktree add -q --detach {wt} HEAD && mkdir -p {wt}/out", shell=True, check=True)
    print(sorted(ROUND3))


if __name__ == '__main__':
    main()
