#!/bin/bash
# evaluate seeded changes sequentially: tools/seedqueue.sh "C05-1:C05 C04 C09" "C05-2:C05 C04 C07" ...
cd /verif
for item in "$@"; do
  d=${item%%:*}; pids=${item#*:}
  echo "=== $d ($pids)"
  /venv/bin/python tools/seedtest.py seeded/$d $pids 2>&1 | grep -v -i "warn"
done
