#!/bin/bash
# merge a builder's deliverables: tools/merge_env.sh /tmp/w_x Name name [Name2 name2 ...]
W=$1; shift
while [ $# -gt 0 ]; do
  N=$1; n=$2; shift 2
  mkdir -p /verif/lean/JumanjiModel/Env/$N
  cp -v $W/lean/JumanjiModel/Env/$N/*.lean /verif/lean/JumanjiModel/Env/$N/
  cp -v $W/lean/JumanjiModel/Props/Env/$N.lean /verif/lean/JumanjiModel/Props/Env/
  cp -v $W/lean/JumanjiModel/Bridge/$N.lean /verif/lean/JumanjiModel/Bridge/
  cp -v $W/harness/envs/$n.py /verif/harness/envs/
done
cd /verif && python3 tools/mkall.py
