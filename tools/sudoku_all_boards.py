"""Exhaustive C10 check of the Sudoku puzzle databases shipped in the repo: every board of every database file
is turned into the state DatabaseGenerator would produce (board - 1, get_action_mask(board - 1)) and judged by the
Lean op `sudoku.instance` (9x9, digits in range, conflict-free, mask = table of legal moves, at least one empty cell).
usage: /venv/bin/python tools/sudoku_all_boards.py        (about 1-2 min)"""
import os, sys, time
ROOT = os.path.dirname(os.path.dirname(os.path.abspath(__file__)))
sys.path.insert(0, os.path.join(ROOT, "harness"))
import common
from common import Driver, DriverError, ser
import numpy as np
import jax, jax.numpy as jnp
import jumanji.environments.logic.sudoku as pkg
from jumanji.environments.logic.sudoku.data import DATABASES
from jumanji.environments.logic.sudoku.utils import get_action_mask

data = os.path.join(os.path.dirname(os.path.abspath(pkg.__file__)), "data")
drv = Driver()
masks = jax.jit(jax.vmap(get_action_mask))
bad = 0
for level, fn in DATABASES.items():
    t = time.time()
    db = np.asarray(jnp.load(os.path.join(data, fn))).astype(np.int32) - 1
    ms = np.asarray(masks(jnp.asarray(db)))
    reqs = [dict(op="sudoku.instance", cfg={}, state={"board": ser(b), "action_mask": ser(m)}) for b, m in zip(db, ms)]
    fails = {}
    for i in range(0, len(reqs), 500):
        for k, rep in enumerate(drv.batch(reqs[i:i + 500])):
            if isinstance(rep, DriverError):
                fails.setdefault("driver_error", []).append(i + k)
                continue
            for name, ok in rep.items():
                if ok is False:
                    fails.setdefault(name, []).append(i + k)
    bad += sum(len(v) for v in fails.values())
    print(f"{level} ({fn}): {len(db)} boards, clues {int((db >= 0).sum(axis=(1, 2)).min())}..{int((db >= 0).sum(axis=(1, 2)).max())}, "
          f"violations {({k: v[:5] for k, v in fails.items()} or 0)}  [{time.time() - t:.1f}s]")
drv.close()
print("TOTAL VIOLATIONS", bad)
