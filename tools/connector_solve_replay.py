"""Replay of the Lean solving episode on the real Connector (C10 operational solvability, C08 return).

For generated boards (RandomWalkGenerator, several sizes / agent counts / keys) the driver op `connector.solve`
returns the explicit joint-action sequence `solveActs` of `Props.C10.connector_walk_board_operationally_solvable`
(read off the generator's recorded solved board).  When the certificate accepts the board, the sequence is played
on the REAL environment and the conclusions of the theorems are checked on the implementation:
  * every action is allowed by the mask the environment handed out, every agent ends where its action sends it,
  * the step types are MID … MID LAST, every agent is connected at the end (LAST by completion),
  * the final implementation state is the final state of the Lean replay,
  * the per-agent sum of rewards equals the Lean `returnL1` (= connected_reward + timestep_reward·Σ_{j≤i}(|r_j|−1)).
Boards the certificate rejects (known finding CN1) are counted and skipped.
usage: /venv/bin/python tools/connector_solve_replay.py [keys-per-config [n:k ...]]      (default 40 keys, 7 configs)"""
import os, sys
ROOT = os.path.dirname(os.path.dirname(os.path.abspath(__file__)))
sys.path.insert(0, os.path.join(ROOT, "harness"))
import common
from common import Driver, ser
from fractions import Fraction
import numpy as np
import jax, jax.numpy as jnp
from jumanji.environments.routing.connector import Connector
from jumanji.environments.routing.connector.generator import RandomWalkGenerator

MOVES = {0: (0, 0), 1: (-1, 0), 2: (0, 1), 3: (1, 0), 4: (0, -1)}
nkeys = int(sys.argv[1]) if len(sys.argv) > 1 else 40
drv = Driver()
bad = played = rejected = 0
CONFIGS = [tuple(int(x) for x in a.split(":")) for a in sys.argv[2:]] or \
    [(3, 1), (3, 2), (4, 3), (5, 3), (6, 4), (8, 5), (10, 10)]
for n, k in CONFIGS:
    gen = RandomWalkGenerator(grid_size=n, num_agents=k)
    tl = 4 * n * n
    env = Connector(generator=gen, time_limit=tl)
    step = jax.jit(env.step)
    reset = jax.jit(env.reset)
    board = jax.jit(gen.generate_board)
    cfg = {"grid_size": n, "num_agents": k, "time_limit": tl, "connected_reward": [1, 1], "timestep_reward": [-3, 100]}
    lens = []
    for seed in range(nkeys):
        key = jax.random.PRNGKey(1000 * n + seed)
        s, ts = reset(key)
        _, board_key = jax.random.split(key)              # as RandomWalkGenerator.__call__
        solved, _, _ = board(board_key)
        ag = s.agents
        sj = {"grid": ser(s.grid), "step_count": int(s.step_count), "solved": ser(solved),
              "agents": [{"id": int(ag.id[i]), "start": {"r": int(ag.start[i][0]), "c": int(ag.start[i][1])},
                          "target": {"r": int(ag.target[i][0]), "c": int(ag.target[i][1])},
                          "position": {"r": int(ag.position[i][0]), "c": int(ag.position[i][1])}} for i in range(k)]}
        rep = drv.call("connector.solve", cfg=cfg, state=sj)
        if not rep["accepted"]:
            rejected += 1
            continue
        played += 1
        acts = rep["actions"]
        lens.append(len(acts))
        errs = []
        if not rep["solution"]:
            errs.append("Lean replay does not end in a complete solution")
        ret = np.zeros(k)
        for t, a in enumerate(acts):
            mask = np.asarray(ts.observation.action_mask)
            if not all(mask[i][a[i]] for i in range(k)):
                errs.append(f"step {t}: action {a} not allowed by the mask")
            pos = np.asarray(s.agents.position)
            s, ts = step(s, jnp.asarray(a, jnp.int32))
            want = pos + np.array([MOVES[x] for x in a])
            if not (np.asarray(s.agents.position) == want).all():
                errs.append(f"step {t}: some agent did not get its move")
            ret += np.asarray(ts.reward)
            st = int(ts.step_type)
            if st != (2 if t == len(acts) - 1 else 1):
                errs.append(f"step {t}: step type {st}")
        if not bool(np.asarray(s.agents.connected).all()):
            errs.append("not every agent is connected at the end")
        if ser(s.grid) != rep["final"]["grid"]:
            errs.append("final grid differs from the Lean replay")
        lean_ret = [float(Fraction(r[0], r[1])) for r in rep["returns"]]
        if not np.allclose(ret, lean_ret, atol=1e-4):
            errs.append(f"returns {ret.tolist()} vs Lean {lean_ret}")
        if errs:
            bad += 1
            print(f"n={n} k={k} seed={seed}: " + "; ".join(errs[:4]))
    print(f"n={n} k={k}: {len(lens)} boards played, episode lengths {min(lens) if lens else '-'}..{max(lens) if lens else '-'}")
drv.close()
print(f"PLAYED {played} REJECTED-BY-CERTIFICATE {rejected} VIOLATIONS {bad}")
