"""Regenerates MANIFEST.json from the table below (keeps it valid at all times)."""
import json, os
V = os.path.dirname(os.path.dirname(os.path.abspath(__file__)))
TITLES = {l["id"]: l["title"] for l in map(json.loads, open(os.path.join(V, "properties.jsonl")))}

# property -> (category, technique, text, note)  for the checks that are built
BUILT = {}
def add(pid, text, note, technique="Lean 4 theorems over an executable model + step-local correspondence with /repo + Lean-predicate search", cat="proof"):
    BUILT[pid] = (cat, technique, text, note)

exec(open(os.path.join(V, "tools", "manifest_entries.py")).read())

PY = "/venv/bin/python"
checks = []
for pid in sorted(BUILT):
    cat, tech, text, note = BUILT[pid]
    checks.append({
        "property_id": pid,
        "quick_cmd": f"{PY} harness/check.py {pid} --tier quick",
        "thorough_cmd": f"{PY} harness/check.py {pid} --tier thorough",
        "evidence_file": f"evidence/{pid}.json",
        "replay_cmd_template": f"{PY} harness/check.py --replay {{path}}",
        "engine": "lean-model+correspondence",
        "level_claimed": {"category": cat, "text": text, "design_ref": f"DESIGN.md section 6/{pid}"},
        "level_note": note,
        "technique": tech,
    })
na = [{"property_id": p, "reason": NOT_BUILT.get(p, "check not built yet (work in progress; see DESIGN.md section 9)")}
      for p in sorted(TITLES) if p not in BUILT]
man = {
    "version": 1,
    "setup_cmd": "cd lean && lake build JumanjiModel driver",
    "hooks": {
        "guard": "JUMANJI_VERIF",
        "enable": "no hooks in /repo: the harness wraps jax.random and snapshots pytrees in its own process; only unguarded 'fix:' commits were made",
        "baseline_off_cmd": "cd /repo && /venv/bin/python -m pytest -ra -q -p no:cacheprovider --timeout=900 --continue-on-collection-errors",
        "source_commits": [],
        "add_only": True,
    },
    "engines": [{
        "name": "lean-model+correspondence", "path": "lean/ + harness/",
        "serves_properties": sorted(BUILT),
        "kind_free_text": "Lean 4 model (import-free, executable) with property theorems in lean/JumanjiModel/Props; compiled driver "
                          "(lean/Driver.lean) run by the Python correspondence harness (harness/check.py) against jumanji imported from /repo",
    }],
    "checks": checks,
    "notes": "See DESIGN.md. known_findings.json lists genuine defects (fixed by 'fix:' commits or kept as findings).",
    "not_applicable": na,
}
json.dump(man, open(os.path.join(V, "MANIFEST.json"), "w"), indent=1)
print("MANIFEST: built", sorted(BUILT), "unclaimed", [x["property_id"] for x in na])
