#!/bin/bash
# Runs the repository's pinned baseline suite (guard OFF) and compares with /root/.vp/BASELINE.json stable_pass.
# usage: tools/baseline_check.sh [extra pytest args]   (e.g. -n 8)
OUT=${BASELINE_OUT:-/root/baseline_run}
mkdir -p $OUT
cd ${BASELINE_REPO:-/repo} && /venv/bin/python -m pytest -ra -q -p no:cacheprovider --timeout=900 --continue-on-collection-errors --junitxml=$OUT/junit.xml "$@" > $OUT/log.txt 2>&1
/venv/bin/python - <<PY
import json, xml.etree.ElementTree as ET
base=json.load(open('/root/.vp/BASELINE.json'))
want=set(base['stable_pass'])
t=ET.parse('$OUT/junit.xml')
ok=set()
for tc in t.iter('testcase'):
    bad=any(c.tag in ('failure','error','skipped') for c in tc)
    name=tc.get('classname')+'::'+tc.get('name')
    if not bad: ok.add(name)
missing=sorted(want-ok)
print('stable_pass', len(want), 'passed_now', len(want&ok), 'missing', len(missing))
for m in missing[:40]: print('  MISSING', m)
PY
