#!/bin/bash
# confirm for every seeded change that the pinned baseline suite still passes with the patch applied (and re-run the demonstration)
cd /verif
for d in seeded/C*; do
  if grep -q '"baseline"' $d/meta.json 2>/dev/null; then continue; fi
  echo "=== $d"; /venv/bin/python tools/seedtest.py $d --baseline 2>&1 | grep -v -i warn | tail -2
  python3 -c "import json;m=json.load(open('$d/meta.json'));print(m.get('baseline'))" 2>/dev/null
done
