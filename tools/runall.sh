#!/bin/bash
# usage: tools/runall.sh [seed] [tier]   — runs every registered check, prints one summary line each
SEED=${1:-0}; TIER=${2:-quick}
cd /verif
for p in $(python3 -c "import json;print(' '.join(c['property_id'] for c in json.load(open('MANIFEST.json'))['checks']))" 2>/dev/null); do
  s=$(date +%s)
  VERIF_SEED=$SEED /venv/bin/python harness/check.py $p --tier $TIER > /tmp/runall_$p.log 2>&1; rc=$?
  echo "$p rc=$rc $(( $(date +%s) - s ))s $(grep -E '^\[C' /tmp/runall_$p.log | cut -c1-200) $(grep -c KNOWN-FINDING /tmp/runall_$p.log) known $(grep -E 'VIOLATION|HARNESS|TIMEOUT' /tmp/runall_$p.log | head -2 | cut -c1-160)"
done
