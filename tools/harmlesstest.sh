#!/bin/bash
# evaluate the harmless rewrites under seeded/harmless: each is applied to a scratch worktree of /repo, the named checks are run against
# it (JUMANJI_REPO) and must exit 0 (or, at worst, report a broken obligation as no-failing-input-found, which DESIGN.md then records).
# usage: tools/harmlesstest.sh "H1-snake-flipped-compare-lambda-cond:C03 C04 C09 C11" ...
cd ${VROOT:-/verif}
for item in "$@"; do
  h=${item%%:*}; pids=${item#*:}
  wt=/tmp/hl_$$_${h%%-*}
  git -C /repo worktree add -q --detach $wt HEAD
  if ! git -C $wt apply /verif/seeded/harmless/$h.diff; then echo "$h DOES NOT APPLY"; git -C /repo worktree remove --force $wt; continue; fi
  for p in $pids; do
    VERIF_EVIDENCE_DIR=/tmp/seed_evidence JUMANJI_REPO=$wt JAX_PLATFORMS=cpu timeout 3000 /venv/bin/python harness/check.py $p --tier quick > /root/hl_out.txt 2>/dev/null; rc=$?
    echo "$h $p rc=$rc :: $(grep -E "^(VIOLATION|\[C|HARNESS|TIMEOUT)" /root/hl_out.txt | cut -c1-260)"
  done
  git -C /repo worktree remove --force $wt
done
/venv/bin/python harness/translators.py >/dev/null 2>&1; rm -rf replays
