NOT_BUILT = {}
_note = ("Trusted: Lean kernel; model hand-written and tied to /repo by differential correspondence on implementation states "
         "(not a proof about the Python code itself); floats as exact rationals with float32 rounding modelled; PRNG draws as parameters.")
add("C04", "mask_iff_legal / step_agrees theorems per modelled environment (all states, all actions); every action of every visited "
           "implementation state compared with the L1 mask, the L2 rules and the environment's own reaction", _note)
add("C05", "illegal_terminates / illegal_ignored theorems per modelled environment; every illegal action of sampled implementation "
           "states replayed on the model and judged by the Lean predicate", _note)
add("C06", "step_feasible invariants per modelled CO environment (induction over legal play is Lean's); Feasible predicate (the Lean "
           "definition) evaluated on every implementation state of mask-respecting rollouts", _note)
add("C08", "telescoping theorems (return = objective; dense = sparse); objective recomputed by the Lean definition from the final "
           "implementation state and compared with the summed rewards", _note)
add("C12", "obs_faithful theorems; observation recomputed by the Lean observer from the implementation state", _note)

add("C19", "slice_transpose, slice_addElement_same/other, addElement_structure, isEqual_refl/symm/iff, assertDifferent_iff proved for all "
           "trees/batch sizes/indices over JAX's own representation of a pytree (treedef + flat leaves); random pytrees and real environment "
           "states run through the real helpers and the model", _note)

add("C16", "generate_valid, valid_iff, replace_nil/only_named/WF, equality is an equivalence that distinguishes every attribute, "
           "nested_eq_iff_children, toGym_member proved for all specs/values over a transliteration of specs.py; random spec trees and "
           "boundary values (arrays and weakly typed Python scalars) run through the real specs and the model", _note)

add("C18", "the regex matcher is proved equal to the documented grammar (sound + complete, any string, abstract character classes), "
           "round trip / normalisation, registry state machine laws; shipped ids generated from jumanji/__init__.py and checked by "
           "decide +kernel; id strings (ASCII + Unicode) and random register/make sequences run through the real module and the model", _note)

add("C07", "step_consistent / conserved theorems per modelled grid or game environment; Consistent (the Lean predicate) evaluated on every "
           "non-terminal implementation state under legal, random and adversarial play", _note)
add("C09", "refinement theorems L1 (transliteration) = L2 (readable rules) per modelled environment, e.g. the 2048 row loop = "
           "compress/merge/pad for rows of any length; every visited and synthetic transition replayed on the model", _note)

_wnote = ("Trusted: Lean kernel; the wrapper model is a transliteration of wrappers.py over an abstract environment and free PRNG keys "
          "(threefry collisions outside the model); tied to /repo by running the real wrappers on the real environments side by side with "
          "env.step / env.reset(split(key)[0]) and letting the model decide which pytree each output field must equal.")
add("C13", "step_not_last, step_last(+fields), next_obs_step/reset, fresh_keys (strictly deepening reset keys along ANY action sequence, for any "
           "key-monotone environment) proved over an arbitrary Env; real AutoResetWrapper on all 22 environment classes, both flags, multi-episode, jit/scan/vmap", _wnote)
add("C14", "vmap_step_get/reset_get and VmapAutoReset = Vmap(AutoReset) for every batch proved over an arbitrary Env; both real stacks on identical "
           "batches with staggered terminations, index-wise vs single-instance execution, render uses element 0", _wnote)

add("C03", "the final-timestep expression of every environment class is translated from the source (AST) into Gen/Protocol.lean; entry_protocol proves, "
           "for every recognised expression and ALL done flags / rewards / observations (hence any state, also after LAST), that the emitted timestep obeys the "
           "protocol; lbf_truncation_exact states the documented exception; ResetOK/StepOK evaluated on every real timestep incl. 3 post-terminal steps",
    "Trusted: Lean kernel; the AST translator (harness/translators.py gen_protocol) and the semantics given to termination/transition/truncation "
    "(transliteration of jumanji/types.py); Connector's explicit MID discount is assumed in [0,1] and not all-zero unless done (checked by the search).",
    technique="Lean 4 theorems over source-generated step expressions (translator) + Lean-predicate search on real timesteps")
add("C11", "constructor wiring `self.time_limit = …` and the `done` comparison translated from the source (AST) into Gen/TimeLimit.lean; "
           "wiring_honours_argument (Python `or` truthiness modelled) for every positive limit, ends_by_limit / ends_exactly_at_limit (counting argument), "
           "per-environment progress/horizon theorems; first-LAST index measured for limits {1,2,3,7,default,None} on every class that takes a limit",
    "Trusted: Lean kernel; AST translator (gen_timelimit); that the compared counter is the incremented one is established by the search and, for modelled "
    "environments, by their L1 models.", technique="Lean 4 theorems over source-generated wiring/comparison + first-LAST search on real environments")
add("C15", "adapter state machines over an arbitrary Env and free keys: reset_uses_schedule (i-th reset after seeding uses left(right^i(seed))), reseed_reproducible, "
           "step_relays (terminated iff discount = 0, truncated iff LAST), multiToSingle_only_aggregates; real Gym/dm_env/MultiToSingle adapters on every catalogue "
           "environment (also with fractional discounts: mean aggregator, halved discounts) vs the native API driven with the key terms the model prescribes (evaluated with the real jax.random.split)", _wnote)

add("C10", "certificate => advertised invariant theorems per generator (recursive-division certificate => all free cells 4-connected and even cells free; "
           "random walk from the goal => reachable and solvable for every draw tape; tril+transpose => symmetric loop-free graph; generator post-conditions for "
           "valid draws); the shipped Sudoku databases (11 000 boards) regenerated into Gen/SudokuDB*.lean and proved conflict-free / in range / not full by "
           "decide +kernel per chunk lifted by fastOK_sound; Connector: the route certificate yields an explicit, mask-legal, collision-free solving episode; the "
           "Lean-defined certificates are evaluated on the instances the real generators produce for many keys; key dependence checked",
    _note + " PRNG draws are parameters: theorems quantify over all draws in the stated support; that real draws lie in the support is checked per instance.")

add("C01", "the declared specs of every catalogue configuration are generated from the real spec objects into Gen/Specs.lean and proved well-formed with "
           "generate_value a member (decide +kernel over the whole table + the general theorem generate_valid); step counters stay within [0, time_limit] "
           "(counting argument), reward/discount shapes from the protocol theorem; every emitted observation/reward/discount of all 23 classes validated by "
           "the real spec.validate and by the Lean model of validate; shapes and dtypes for all inputs via jax.eval_shape",
    _note + " Value bounds of observation fields are proved only for the modelled counters and, per environment, through the L1 models; for the other fields the "
    "conformance is established by the search (every emitted value validated).")

add("C17", "RubiksCube for ALL n: rubik_l1_move_is_physical (the transliterated index manipulation of utils.py equals the geometric quarter/half turn of a layer), "
           "bijectivity, cw∘ccw = id, half = cw², cw⁴ = id, conservation, encodings mutually inverse, solved test, reachability/solvability, plus a kernel-evaluated "
           "cross-check of the tables for n = 2..7; SlidingTilePuzzle for all grid sizes: move_is_swap, opposite_cancel, conserves_multiset, solved_iff_goal, "
           "walk_solvable; every move of sizes 2..7 on all-distinct-sticker cubes and the sliding puzzle state spaces run through the real code and the model", _note)

add("C02", "scan_eq_rollout, rollout_append, vmap_step_get/reset_get over an arbitrary Env (in the model reset/step are functions: purity by construction); the "
           "property is DECIDED by the differential run: one reachable transition per configuration executed as eager / jit / vmap(1,2,5 at a random index) / "
           "scan(1,3) / fresh instance / after interleaved calls / re-jit, all compared with the single value a pure function prescribes; the same for the LAST "
           "transition of a mask-following episode and for boundary transitions (solving moves of the puzzles at sizes 2..12); every configuration (and sibling "
           "configurations sharing derived sizes) also built in reverse order in a fresh process and compared (call-history independence); argument contents "
           "snapshotted; results re-checked after later calls; jaxprs effect-free, callback-free and stable",
    "partial by nature: Python-side hidden state, in-place mutation and XLA/transform-dependent numerics cannot be exhibited by a Lean model; they are covered by "
    "the differential run only (floats within 2e-5). Eager reset of the recursive-division maze generators (Maze, Cleaner) is skipped: it needs minutes.",
    technique="differential execution of program variants against the pure reference (translation validation) + Lean algebra of scan/vmap/rollout", cat="translation_validation")
