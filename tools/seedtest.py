"""Evaluate a seeded change: tools/seedtest.py <seeded/dir> C04 [C05 ...] [--baseline]
<dir> holds patch.diff and demo.py (demo.py <repo path>: exit 0 on the clean tree, 1 with the patch).
Creates a scratch worktree of /repo outside /repo and /verif, applies the patch there, runs the demonstration on both trees, (optionally) the
pinned baseline suite on the patched tree, and the named checks (quick tier) against the patched tree (JUMANJI_REPO), then removes the worktree
and regenerates Gen/*.lean from /repo.  Results are merged into <dir>/meta.json under "runs"."""
import json
import os
import re
import subprocess
import sys
import time

V = os.path.dirname(os.path.dirname(os.path.abspath(__file__)))
PY = "/venv/bin/python"


def sh(cmd, **kw):
    return subprocess.run(cmd, shell=True, capture_output=True, text=True, **kw)


def main():
    d = os.path.abspath(sys.argv[1])
    pids = [a for a in sys.argv[2:] if not a.startswith("--")]  # flags: --baseline (whole pinned suite), --subset (the touched packages)
    baseline = "--baseline" in sys.argv
    wt = f"/tmp/st_{os.path.basename(d)}_{os.getpid()}"
    meta_path = os.path.join(d, "meta.json")
    meta = json.load(open(meta_path)) if os.path.exists(meta_path) else {}
    sh(f"git -C /repo worktree add -q --detach {wt} HEAD")
    try:
        r = sh(f"git -C {wt} apply {d}/patch.diff")
        if r.returncode != 0:
            print("PATCH DOES NOT APPLY:", r.stderr[:500])
            meta["applies"] = False
            return
        meta["applies"] = True
        env = dict(os.environ, JAX_PLATFORMS="cpu", HF_HUB_OFFLINE="1")
        c = sh(f"timeout 900 {PY} {d}/demo.py /repo", env=env)
        m = sh(f"timeout 900 {PY} {d}/demo.py {wt}", env=env)
        meta["demo"] = {"clean_exit": c.returncode, "patched_exit": m.returncode, "patched_output": (m.stdout + m.stderr)[-600:]}
        print("demo: clean", c.returncode, "patched", m.returncode)
        if "--subset" in sys.argv:
            # the pinned suite restricted to the packages the patch touches (plus the top-level test files for top-level modules):
            # every test of BASELINE.stable_pass that lives there must still pass on the patched tree
            import xml.etree.ElementTree as ET
            touched = re.findall(r"^\+\+\+ b/(\S+)", open(f"{d}/patch.diff").read(), re.M)
            paths = set()
            for t in touched:
                parts = t.split("/")
                if t.startswith("jumanji/environments/commons"):
                    paths |= {"jumanji/environments/commons", "jumanji/environments/routing/maze", "jumanji/environments/routing/cleaner", "jumanji/environments/routing/pac_man"}
                elif t.startswith("jumanji/environments/") and len(parts) >= 5:
                    paths.add("/".join(parts[:4]))
                else:
                    paths |= {"jumanji/wrappers_test.py", "jumanji/specs_test.py", "jumanji/registration_test.py", "jumanji/tree_utils_test.py", "jumanji/types_test.py", "jumanji/testing", "jumanji/env_test.py"}
            paths = sorted(p for p in paths if os.path.exists(os.path.join(wt, p)))
            jx = f"/tmp/st_junit_{os.getpid()}.xml"
            sh(f"cd {wt} && timeout 2400 {PY} -m pytest -q -p no:cacheprovider -n 4 --timeout=900 --junitxml={jx} {' '.join(paths)}", env=env)
            want = set(json.load(open("/root/.vp/BASELINE.json"))["stable_pass"])
            mods = tuple(p[:-3].replace("/", ".") if p.endswith(".py") else p.replace("/", ".") + "." for p in paths)
            want = {w for w in want if w.startswith(mods)}
            ok = set()
            try:
                for tc in ET.parse(jx).iter("testcase"):
                    if not any(c.tag in ("failure", "error", "skipped") for c in tc):
                        ok.add(tc.get("classname") + "::" + tc.get("name"))
            except Exception as e:  # noqa: BLE001
                print("junit unreadable", e)
            missing = sorted(want - ok)
            meta["baseline_subset"] = {"paths": paths, "stable_pass_there": len(want), "passed_now": len(want & ok), "missing": missing[:10]}
            print("baseline subset:", meta["baseline_subset"])
            if os.path.exists(jx):
                os.remove(jx)
        if baseline:
            out = f"/tmp/st_base_{os.getpid()}"
            b = sh(f"BASELINE_OUT={out} {V}/tools/baseline_check.sh -n 6", env=dict(env, BASELINE_REPO=wt))
            meta["baseline"] = b.stdout.strip().split("\n")[-3:]
        runs = meta.setdefault("runs", {})
        for pid in pids:
            t = time.time()
            r = sh(f"cd {V} && timeout 3000 {PY} harness/check.py {pid} --tier quick", env=dict(env, JUMANJI_REPO=wt, VERIF_SEED=os.environ.get("VERIF_SEED", "0"), VERIF_EVIDENCE_DIR="/tmp/seed_evidence"))
            lines = [ln for ln in r.stdout.split("\n") if re.match(r"VIOLATION|KNOWN-FINDING|\[C\d+\]|HARNESS|TIMEOUT", ln)]
            viol = [ln for ln in lines if ln.startswith("VIOLATION")]
            kinds = []
            for ln in viol:
                mm = re.search(r"replay=(\S+)", ln)
                if mm and os.path.exists(os.path.join(V, mm.group(1))):
                    try:
                        j = json.load(open(os.path.join(V, mm.group(1))))
                        kinds.append(f"{j.get('env')}:{j.get('kind')}" if not j.get("no_failing_input_found") else "no-failing-input-found:" + "; ".join(map(str, j.get("broken_obligations", [])))[:200])
                    except Exception:
                        pass
            runs[pid] = {"exit": r.returncode, "violations": len(viol), "kinds": kinds, "wall_s": round(time.time() - t), "summary": [ln[:220] for ln in lines if ln.startswith("[")]}
            print(pid, "exit", r.returncode, "violations", len(viol), kinds[:4], f"{time.time() - t:.0f}s")
    finally:
        sh(f"git -C /repo worktree remove --force {wt}")
        if pids:
            sh(f"cd {V} && {PY} harness/translators.py && rm -rf replays")
        json.dump(meta, open(meta_path, "w"), indent=1)


if __name__ == "__main__":
    main()
