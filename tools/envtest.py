"""Development helper: run the per-environment sweeps of some properties for some adapters, without Lean proofs.
usage: VERIF_ONLY_ENVS=knapsack /venv/bin/python tools/envtest.py [C04 C05 ...] [--tier thorough]
(JUMANJI_REPO=/path/to/worktree selects another source tree, e.g. a mutated one.)"""
import os, sys, time
ROOT = os.path.dirname(os.path.dirname(os.path.abspath(__file__)))
sys.path.insert(0, os.path.join(ROOT, "harness"))
import common, envprops
from common import Ctx

def main():
    argv = sys.argv[1:]
    if "--tier" in argv:
        i = argv.index("--tier"); tier_arg = argv[i + 1]; argv = argv[:i] + argv[i + 2:]
    else:
        tier_arg = "quick"
    args = [a for a in argv if not a.startswith("--")]
    tier = "thorough" if tier_arg == "thorough" else "quick"
    ads = envprops.load_adapters()
    pids = args or sorted(set().union(*[a.serves for a in ads.values()]) & {"C04", "C05", "C06", "C07", "C08", "C09", "C10", "C11", "C12"})
    for pid in pids:
        if not hasattr(envprops, f"_{pid.lower()}"):
            continue
        ctx = Ctx(pid, tier, int(os.environ.get("VERIF_SEED", "0")))
        t = time.time()
        envprops.run(ctx, pid)
        print(pid, "evals", ctx.evaluations, "nontrivial", len(ctx.nontrivial), "FAILURES", len(ctx.failures), "DISAGREEMENTS", len(ctx.disagreements), f"{time.time()-t:.1f}s")
        for f in ctx.failures[:3]:
            print("   F", f.env, f.kind, f.what[:300])
        for d in ctx.disagreements[:3]:
            print("   D", d["env"], d["what"][:300], str(d["case"])[:500])
        if ctx.driver:
            ctx.driver.close(); ctx.driver = None



if __name__ == "__main__":
    main()
