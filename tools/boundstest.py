"""Development helper for the C01 bounds ops: for every configuration of the selected adapters compare the interval the Lean model proves for
each observation leaf (`<name>.bounds`) with the interval the real observation_spec declares, and check emitted values against the model interval.
usage: VERIF_ONLY_ENVS=<name> /venv/bin/python tools/boundstest.py [--tier thorough]"""
import os, sys
ROOT = os.path.dirname(os.path.dirname(os.path.abspath(__file__)))
sys.path.insert(0, os.path.join(ROOT, "harness"))
import numpy as np
import common, envlib, speclib
from props import c01


def main():
    tier = "thorough" if "thorough" in sys.argv else "quick"
    ctx = common.Ctx("C01", tier, int(os.environ.get("VERIF_SEED", "0")))
    c01.bounds_sweep(ctx)
    for b in ctx.broken:
        print("DECLARED-TOO-TIGHT / BROKEN:", b)
    for f in ctx.failures[:10]:
        print("FAILURE:", f.env, f.kind, f.what[:200])
    for d in ctx.disagreements[:10]:
        print("DISAGREEMENT:", d["env"], d["what"][:200])
    print("OK" if not (ctx.broken or ctx.failures or ctx.disagreements) else "NOT OK", "evaluations", ctx.evaluations, ctx.stats)
    if ctx.driver:
        ctx.driver.close()


main()
