"""Correspondence check for the Sudoku database translation (C10, theorem Props.C10.sudoku_db_all_ok):
the boards Lean decodes from the generated literals (`Gen.SudokuDB.databases`, `Sudoku.DB.decodeBoard`, evaluated by
Lean itself) are compared, entry by entry, with the boards the real generators hold
(`jumanji.make("Sudoku-v0")` / `"Sudoku-very-easy-v0"`: `DatabaseGenerator._boards` as int32 minus 1, exactly the
expression of `DatabaseGenerator.__call__`), with boards actually returned by `reset`, and the `toy` literal with
`DummyGenerator`'s board.  Regenerates Gen/SudokuDB*.lean first, so it also fails when the generated files are stale.
usage: /venv/bin/python tools/sudoku_db_roundtrip.py        (about 10 s once the generated files are built; their cold build takes about 1 CPU-minute)"""
import os, subprocess, sys, tempfile
ROOT = os.path.dirname(os.path.dirname(os.path.abspath(__file__)))
sys.path.insert(0, os.path.join(ROOT, "harness"))
import common
import translators
import numpy as np
import jax, jax.numpy as jnp
import jumanji
from jumanji.environments.logic.sudoku.generator import DummyGenerator

notes = translators.gen_sudoku_db()
for n in notes:
    print("TRANSLATOR NOTE:", n)
ok, log = common.lake_build(["JumanjiModel.Gen.SudokuDB"])
if not ok:
    print(log[-3000:])
    print("MISMATCHES: the generated files do not build (a chunk fails the checker?)")
    sys.exit(1)
src = """import JumanjiModel.Gen.SudokuDB
open Gen.SudokuDB Sudoku.DB
def line (b : Jx.Grid Int) : String := String.intercalate " " (b.flatten.map toString)
def main : IO Unit := do
  for (level, _, _, cs) in databases do
    IO.println s!"DB {level}"
    for c in cs do
      for n in c do
        IO.println (line (decodeBoard n))
  IO.println "TOY"
  IO.println (line (decodeBoard toy))
"""
with tempfile.NamedTemporaryFile("w", suffix=".lean", delete=False) as f:
    f.write(src)
r = subprocess.run(["lake", "env", "lean", "--run", f.name], cwd=common.LEAN_DIR, capture_output=True, text=True, timeout=1200)
os.unlink(f.name)
if r.returncode != 0:
    print(r.stdout[-2000:], r.stderr[-2000:])
    sys.exit(2)
decoded, cur = {}, None
for ln in r.stdout.split("\n"):
    if ln.startswith("DB "):
        cur = ln[3:]
        decoded[cur] = []
    elif ln == "TOY":
        cur = "TOY"
        decoded[cur] = []
    elif ln.strip():
        decoded[cur].append([int(x) for x in ln.split()])
bad = 0
envs = {"mixed": "Sudoku-v0", "very-easy": "Sudoku-very-easy-v0"}
for level, rows in decoded.items():
    if level == "TOY":
        want = np.asarray(DummyGenerator()(jax.random.PRNGKey(0)).board).reshape(1, 81)
        what = "DummyGenerator"
    elif level in envs:
        env = jumanji.make(envs[level])
        gen = env.unwrapped._generator
        want = np.asarray(jnp.asarray(gen._boards, dtype=jnp.int32) - 1).reshape(-1, 81)
        what = f"{envs[level]} generator ({type(gen).__name__}._boards - 1)"
    else:
        print(f"{level}: no registered environment uses this database (compared with nothing)")
        bad += 1
        continue
    got = np.asarray(rows, dtype=np.int64).reshape(-1, 81)
    same = got.shape == want.shape and bool((got == want).all())
    print(f"{level}: {len(got)} decoded boards vs {len(want)} of {what}: {'identical' if same else 'DIFFERENT'}")
    bad += 0 if same else 1
    if level in envs:
        # boards that reset really hands out are among them
        keys = jax.random.split(jax.random.PRNGKey(int(os.environ.get('VERIF_SEED', '0'))), 64)
        states, _ = jax.vmap(env.reset)(keys)
        pool = {tuple(x) for x in got.tolist()}
        miss = sum(tuple(np.asarray(b).reshape(-1).tolist()) not in pool for b in states.board)
        print(f"  64 reset boards of {envs[level]}: {64 - miss} found among the decoded boards")
        bad += miss
print("MISMATCHES", bad + len(notes))
sys.exit(1 if bad or notes else 0)
