"""Writes seeded/SUMMARY.md and completes seeded/*/meta.json from notes.md + the recorded runs."""
import json, os, re, glob
V = os.path.dirname(os.path.dirname(os.path.abspath(__file__)))
rows = []
for d in sorted(glob.glob(os.path.join(V, "seeded", "C*"))):
    name = os.path.basename(d)
    pid = name.split("-")[0]
    mp = os.path.join(d, "meta.json")
    meta = json.load(open(mp)) if os.path.exists(mp) else {}
    notes = open(os.path.join(d, "notes.md")).read() if os.path.exists(os.path.join(d, "notes.md")) else ""
    files = re.findall(r"^diff --git a/(\S+)", open(os.path.join(d, "patch.diff")).read(), re.M)
    meta.setdefault("property", pid)
    meta["touches"] = files
    m = re.search(r"(?is)(needs?[^\n]*\n(?:.*\n){0,6})", notes)
    meta.setdefault("needs_to_manifest", (m.group(1).strip()[:600] if m else notes[:400]))
    meta["what_was_run"] = ("tools/seedtest.py: demo.py on /repo (expected exit 0) and on a scratch worktree with the patch (expected exit 1); "
                            "tools/baseline_check.sh on the patched worktree; harness/check.py <id> --tier quick with JUMANJI_REPO=<patched worktree> for the ids under 'runs'")
    json.dump(meta, open(mp, "w"), indent=1)
    runs = meta.get("runs", {})
    tgt = runs.get(pid, {})
    demo = meta.get("demo", {})
    base = " ".join(meta.get("baseline", []))[:60]
    caught = [f"{p}({'/'.join(sorted(set(k.split(':')[-1] if not k.startswith('no-failing') else 'no-failing-input-found' for k in r.get('kinds', []))))[:70]})" for p, r in runs.items() if r.get("exit") == 1]
    missed = [p for p, r in runs.items() if r.get("exit") == 0]
    rows.append((name, ", ".join(files)[:70], f"{demo.get('clean_exit')}/{demo.get('patched_exit')}", base, "yes" if tgt.get("exit") == 1 else ("NO" if tgt else "?"), "; ".join(caught), ", ".join(missed)))
out = ["# Seeded changes (independent adversary agents, given only the property text)\n",
       "Each directory holds `patch.diff`, `demo.py` (exit 0 on the clean tree, 1 with the patch), the adversary's `notes.md` and `meta.json` (what was run and the verdict of each check).",
       "`target caught` = the quick check of the property the change was written against exits 1 on the patched tree.\n",
       "| change | touches | demo clean/patched | baseline on patched tree | target caught | checks that report a violation (kinds) | checks run that stayed quiet |", "|---|---|---|---|---|---|---|"]
for r in rows:
    out.append("| " + " | ".join(r) + " |")
open(os.path.join(V, "seeded", "SUMMARY.md"), "w").write("\n".join(out) + "\n")
print("\n".join(out[-len(rows):]))
