import JumanjiModel.Wrappers
namespace Wr
variable {S A O R X : Type}

theorem Key.Desc.depth_le {k k' : Key} (h : Key.Desc k k') : k.depth ≤ k'.depth := by
  induction h with
  | refl => exact Nat.le_refl _
  | left _ ih => simp [Key.depth]; omega
  | right _ ih => simp [Key.depth]; omega

/-- an environment derives the key it stores from the key it is given, by splitting only -/
structure KeyMonotone (E : Env S A O R X) : Prop where
  reset : ∀ k, Key.Desc k (E.key (E.reset k).1)
  step : ∀ s a, Key.Desc (E.key s) (E.key (E.step s a).1)

namespace AutoReset

theorem step_not_last (E : Env S A O R X) (flag : Bool) (s : S) (a : A) (h : (E.step s a).2.last = false) :
    step E flag s a = ((E.step s a).1, maybeAddObs flag (E.step s a).2) := by
  unfold step; simp [h]

theorem step_last (E : Env S A O R X) (flag : Bool) (s : S) (a : A) (h : (E.step s a).2.last = true) :
    step E flag s a =
      ((E.reset (.left (E.key (E.step s a).1))).1,
       { maybeAddObs flag (E.step s a).2 with obs := (E.reset (.left (E.key (E.step s a).1))).2.obs }) := by
  unfold step autoReset; simp [h]

theorem step_last_fields (E : Env S A O R X) (flag : Bool) (s : S) (a : A) (h : (E.step s a).2.last = true) :
    (step E flag s a).2.stepType = (E.step s a).2.stepType ∧ (step E flag s a).2.reward = (E.step s a).2.reward ∧
    (step E flag s a).2.discount = (E.step s a).2.discount ∧ (step E flag s a).2.extras = (E.step s a).2.extras := by
  rw [step_last E flag s a h]
  cases flag <;> simp [maybeAddObs]

theorem next_obs_step (E : Env S A O R X) (s : S) (a : A) :
    (step E true s a).2.nextObs = some (E.step s a).2.obs := by
  unfold step autoReset
  split <;> simp [maybeAddObs]

theorem next_obs_reset (E : Env S A O R X) (k : Key) :
    (reset E true k).2.nextObs = some (E.reset k).2.obs := by
  unfold reset; simp [maybeAddObs]

theorem no_flag_is_plain (E : Env S A O R X) (k : Key) : reset E false k = E.reset k := by
  unfold reset; simp [maybeAddObs]

theorem key_step (E : Env S A O R X) (flag : Bool) (s : S) (a : A) :
    (step E flag s a).1 =
      if (E.step s a).2.last then (E.reset (.left (E.key (E.step s a).1))).1 else (E.step s a).1 := by
  unfold step autoReset; split <;> simp_all

/-- the reset keys along ANY action sequence have strictly increasing depth (hence are pairwise
distinct) and all lie strictly below the key of the starting state -/
theorem resetKeys_strict (E : Env S A O R X) (hE : KeyMonotone E) (flag : Bool) (as : List A) (s : S) :
    (resetKeys E flag s as).Pairwise (fun a b => a.depth < b.depth) ∧
    ∀ k ∈ resetKeys E flag s as, (E.key s).depth < k.depth := by
  induction as generalizing s with
  | nil => simp [resetKeys]
  | cons a as ih =>
    have hs1 := (hE.step s a).depth_le
    unfold resetKeys
    by_cases hl : (E.step s a).2.last = true
    · simp only [hl, if_true]
      have hst : (step E flag s a).1 = (E.reset (.left (E.key (E.step s a).1))).1 := by
        rw [key_step]; simp [hl]
      rw [hst]
      have ih' := ih (E.reset (.left (E.key (E.step s a).1))).1
      have hr := (hE.reset (.left (E.key (E.step s a).1))).depth_le
      simp only [Key.depth] at hr
      refine ⟨?_, ?_⟩
      · rw [List.pairwise_cons]
        refine ⟨?_, ih'.1⟩
        intro k hk
        have := ih'.2 k hk
        simp only [Key.depth]; omega
      · intro k hk
        simp at hk
        rcases hk with rfl | hk
        · simp only [Key.depth]; omega
        · have := ih'.2 k hk; omega
    · simp only [hl, if_false]
      have hl' : (E.step s a).2.last = false := by simpa using hl
      have hst : (step E flag s a).1 = (E.step s a).1 := by
        rw [key_step]; simp [hl']
      rw [hst]
      have ih' := ih (E.step s a).1
      exact ⟨ih'.1, fun k hk => by have := ih'.2 k hk; omega⟩

theorem fresh_keys (E : Env S A O R X) (hE : KeyMonotone E) (flag : Bool) (as : List A) (s : S) :
    (resetKeys E flag s as).Nodup := by
  have := (resetKeys_strict E hE flag as s).1
  exact this.imp (fun h he => by rw [he] at h; exact Nat.lt_irrefl _ h)

end AutoReset

namespace Vmap
theorem step_get (E : Env S A O R X) (ss : List S) (as : List A) (i : Nat) :
    (step E ss as)[i]? = (ss[i]?).bind (fun s => (as[i]?).map (fun a => E.step s a)) := by
  unfold step
  rw [List.getElem?_zipWith]
  cases ss[i]? <;> cases as[i]? <;> rfl

theorem reset_get (E : Env S A O R X) (ks : List Key) (i : Nat) :
    (reset E ks)[i]? = (ks[i]?).map E.reset := by
  unfold reset; rw [List.getElem?_map]
end Vmap

namespace VmapAutoReset
theorem maybeReset_step (E : Env S A O R X) (flag : Bool) (s : S) (a : A) :
    maybeReset E flag (E.step s a) = AutoReset.step E flag s a := by
  unfold maybeReset AutoReset.step; rfl

/-- VmapAutoResetWrapper = VmapWrapper(AutoResetWrapper(env)), for every batch -/
theorem step_eq (E : Env S A O R X) (flag : Bool) (ss : List S) (as : List A) :
    step E flag ss as = Vmap.step (AutoReset.env E flag) ss as := by
  unfold step Vmap.step AutoReset.env
  simp only [List.map_zipWith]
  congr 1

theorem reset_eq (E : Env S A O R X) (flag : Bool) (ks : List Key) :
    reset E flag ks = Vmap.reset (AutoReset.env E flag) ks := by
  unfold reset Vmap.reset AutoReset.env AutoReset.reset
  simp [List.map_map, Function.comp_def]
end VmapAutoReset

namespace Gym
variable (E : Env S A O R X) (isZero : R → Bool)

def runAll (st : St S) : List (Op A) → St S
  | [] => st
  | op :: ops => runAll (run1 E isZero st op).1 ops

def countResets : List (Op A) → Nat
  | [] => 0
  | .reset _ :: ops => countResets ops + 1
  | _ :: ops => countResets ops

/-- no re-seeding in the op list -/
def noSeed : List (Op A) → Bool
  | [] => true
  | .seed _ :: _ => false
  | .reset (some _) :: _ => false
  | _ :: ops => noSeed ops

theorem rightN_succ (i : Nat) (k : Key) : rightN (i+1) k = .right (rightN i k) := by
  induction i generalizing k with
  | zero => rfl
  | succ i ih => simp only [rightN] at ih ⊢; rw [ih]

theorem key_after (st : St S) (ops : List (Op A)) (h : noSeed ops = true) :
    (runAll E isZero st ops).key = rightN (countResets ops) st.key := by
  induction ops generalizing st with
  | nil => rfl
  | cons op ops ih =>
    cases op with
    | seed n => simp [noSeed] at h
    | reset sd =>
      cases sd with
      | some n => simp [noSeed] at h
      | none =>
        simp only [runAll, countResets, run1]
        rw [ih _ (by simpa [noSeed] using h)]
        simp only [rightN]
    | step a =>
      simp only [runAll, countResets]
      rw [ih _ (by simpa [noSeed] using h)]
      simp only [run1]
      cases st.state <;> rfl

/-- the documented key schedule: the reset that follows `i` earlier resets since seeding with `n`
calls `env.reset` with `resetKey n i` -/
theorem reset_uses_schedule (n : Nat) (ops : List (Op A)) (h : noSeed ops = true) :
    (run1 E isZero (runAll E isZero (init n) ops) (.reset none)).2 =
      .obs (E.reset (resetKey n (countResets ops))).2.obs (E.reset (resetKey n (countResets ops))).2.extras := by
  have hk := key_after E isZero (init n) ops h
  simp only [run1, resetKey]
  rw [hk]
  rfl

/-- re-seeding makes the future independent of the past -/
theorem reseed_reproducible (st : St S) (n : Nat) :
    (run1 E isZero (run1 E isZero st (.seed n)).1 (.reset none)) =
    (run1 E isZero (init n) (.reset none)) := by
  simp [run1, init]

theorem reset_with_seed (st : St S) (n : Nat) :
    run1 E isZero st (.reset (some n)) = run1 E isZero (init n) (.reset none) := by
  simp [run1, init]

/-- gym flags: terminated ↔ discount = 0, truncated ↔ step is LAST; obs/reward/extras relayed -/
theorem step_relays (st : St S) (s : S) (a : A) (hs : st.state = some s) :
    (run1 E isZero st (.step a)).2 =
      .stepped (E.step s a).2.obs (E.step s a).2.reward (isZero (E.step s a).2.discount) (E.step s a).2.last
        (E.step s a).2.extras ∧
    (run1 E isZero st (.step a)).1.state = some (E.step s a).1 := by
  simp [run1, hs]
end Gym

theorem aggregate_only (aggR aggD : R → R) (t : TS O R X) :
    (aggregate aggR aggD t).reward = aggR t.reward ∧ (aggregate aggR aggD t).discount = aggD t.discount ∧
    (aggregate aggR aggD t).stepType = t.stepType ∧ (aggregate aggR aggD t).obs = t.obs ∧
    (aggregate aggR aggD t).extras = t.extras ∧ (aggregate aggR aggD t).nextObs = t.nextObs := by
  simp [aggregate]

end Wr
