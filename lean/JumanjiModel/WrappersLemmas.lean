import JumanjiModel.Wrappers
namespace Wr
variable {S A O R X : Type}

theorem Key.Desc.depth_le {k k' : Key} (h : Key.Desc k k') : k.depth ≤ k'.depth := by
  induction h with
  | refl => exact Nat.le_refl _
  | left _ ih => simp [Key.depth]; omega
  | right _ ih => simp [Key.depth]; omega

/-- an environment derives the key it stores from the key it is given, by splitting only -/
structure KeyMonotone (E : Env S A O R X) : Prop where
  reset : ∀ k, Key.Desc k (E.key (E.reset k).1)
  step : ∀ s a, Key.Desc (E.key s) (E.key (E.step s a).1)

namespace AutoReset

theorem step_not_last (E : Env S A O R X) (flag : Bool) (s : S) (a : A) (h : (E.step s a).2.last = false) :
    step E flag s a = ((E.step s a).1, maybeAddObs flag (E.step s a).2) := by
  unfold step; simp [h]

theorem step_last (E : Env S A O R X) (flag : Bool) (s : S) (a : A) (h : (E.step s a).2.last = true) :
    step E flag s a =
      ((E.reset (.left (E.key (E.step s a).1))).1,
       { maybeAddObs flag (E.step s a).2 with obs := (E.reset (.left (E.key (E.step s a).1))).2.obs }) := by
  unfold step autoReset; simp [h]

theorem step_last_fields (E : Env S A O R X) (flag : Bool) (s : S) (a : A) (h : (E.step s a).2.last = true) :
    (step E flag s a).2.stepType = (E.step s a).2.stepType ∧ (step E flag s a).2.reward = (E.step s a).2.reward ∧
    (step E flag s a).2.discount = (E.step s a).2.discount ∧ (step E flag s a).2.extras = (E.step s a).2.extras := by
  rw [step_last E flag s a h]
  cases flag <;> simp [maybeAddObs]

theorem next_obs_step (E : Env S A O R X) (s : S) (a : A) :
    (step E true s a).2.nextObs = some (E.step s a).2.obs := by
  unfold step autoReset
  split <;> simp [maybeAddObs]

theorem next_obs_reset (E : Env S A O R X) (k : Key) :
    (reset E true k).2.nextObs = some (E.reset k).2.obs := by
  unfold reset; simp [maybeAddObs]

theorem no_flag_is_plain (E : Env S A O R X) (k : Key) : reset E false k = E.reset k := by
  unfold reset; simp [maybeAddObs]

theorem key_step (E : Env S A O R X) (flag : Bool) (s : S) (a : A) :
    (step E flag s a).1 =
      if (E.step s a).2.last then (E.reset (.left (E.key (E.step s a).1))).1 else (E.step s a).1 := by
  unfold step autoReset; split <;> simp_all

/-- the reset keys along ANY action sequence have strictly increasing depth (hence are pairwise
distinct) and all lie strictly below the key of the starting state -/
theorem resetKeys_strict (E : Env S A O R X) (hE : KeyMonotone E) (flag : Bool) (as : List A) (s : S) :
    (resetKeys E flag s as).Pairwise (fun a b => a.depth < b.depth) ∧
    ∀ k ∈ resetKeys E flag s as, (E.key s).depth < k.depth := by
  induction as generalizing s with
  | nil => simp [resetKeys]
  | cons a as ih =>
    have hs1 := (hE.step s a).depth_le
    unfold resetKeys
    by_cases hl : (E.step s a).2.last = true
    · simp only [hl, if_true]
      have hst : (step E flag s a).1 = (E.reset (.left (E.key (E.step s a).1))).1 := by
        rw [key_step]; simp [hl]
      rw [hst]
      have ih' := ih (E.reset (.left (E.key (E.step s a).1))).1
      have hr := (hE.reset (.left (E.key (E.step s a).1))).depth_le
      simp only [Key.depth] at hr
      refine ⟨?_, ?_⟩
      · rw [List.pairwise_cons]
        refine ⟨?_, ih'.1⟩
        intro k hk
        have := ih'.2 k hk
        simp only [Key.depth]; omega
      · intro k hk
        simp at hk
        rcases hk with rfl | hk
        · simp only [Key.depth]; omega
        · have := ih'.2 k hk; omega
    · simp only [hl, if_false]
      have hl' : (E.step s a).2.last = false := by simpa using hl
      have hst : (step E flag s a).1 = (E.step s a).1 := by
        rw [key_step]; simp [hl']
      rw [hst]
      have ih' := ih (E.step s a).1
      exact ⟨ih'.1, fun k hk => by have := ih'.2 k hk; omega⟩

theorem fresh_keys (E : Env S A O R X) (hE : KeyMonotone E) (flag : Bool) (as : List A) (s : S) :
    (resetKeys E flag s as).Nodup := by
  have := (resetKeys_strict E hE flag as s).1
  exact this.imp (fun h he => by rw [he] at h; exact Nat.lt_irrefl _ h)

end AutoReset

namespace Vmap
theorem step_get (E : Env S A O R X) (ss : List S) (as : List A) (i : Nat) :
    (step E ss as)[i]? = (ss[i]?).bind (fun s => (as[i]?).map (fun a => E.step s a)) := by
  unfold step
  rw [List.getElem?_zipWith]
  cases ss[i]? <;> cases as[i]? <;> rfl

theorem reset_get (E : Env S A O R X) (ks : List Key) (i : Nat) :
    (reset E ks)[i]? = (ks[i]?).map E.reset := by
  unfold reset; rw [List.getElem?_map]
end Vmap

namespace VmapAutoReset
theorem maybeReset_step (E : Env S A O R X) (flag : Bool) (s : S) (a : A) :
    maybeReset E flag (E.step s a) = AutoReset.step E flag s a := by
  unfold maybeReset AutoReset.step; rfl

/-- VmapAutoResetWrapper = VmapWrapper(AutoResetWrapper(env)), for every batch -/
theorem step_eq (E : Env S A O R X) (flag : Bool) (ss : List S) (as : List A) :
    step E flag ss as = Vmap.step (AutoReset.env E flag) ss as := by
  unfold step Vmap.step AutoReset.env
  simp only [List.map_zipWith]
  congr 1

theorem reset_eq (E : Env S A O R X) (flag : Bool) (ks : List Key) :
    reset E flag ks = Vmap.reset (AutoReset.env E flag) ks := by
  unfold reset Vmap.reset AutoReset.env AutoReset.reset
  simp [List.map_map, Function.comp_def]
end VmapAutoReset

namespace Gym
variable (E : Env S A O R X) (isZero : R → Bool)

def runAll (st : St S) : List (Op A) → St S
  | [] => st
  | op :: ops => runAll (run1 E isZero st op).1 ops

def countResets : List (Op A) → Nat
  | [] => 0
  | .reset _ :: ops => countResets ops + 1
  | _ :: ops => countResets ops

/-- no re-seeding in the op list -/
def noSeed : List (Op A) → Bool
  | [] => true
  | .seed _ :: _ => false
  | .reset (some _) :: _ => false
  | _ :: ops => noSeed ops

theorem rightN_succ (i : Nat) (k : Key) : rightN (i+1) k = .right (rightN i k) := by
  induction i generalizing k with
  | zero => rfl
  | succ i ih => simp only [rightN] at ih ⊢; rw [ih]

theorem key_after (st : St S) (ops : List (Op A)) (h : noSeed ops = true) :
    (runAll E isZero st ops).key = rightN (countResets ops) st.key := by
  induction ops generalizing st with
  | nil => rfl
  | cons op ops ih =>
    cases op with
    | seed n => simp [noSeed] at h
    | reset sd =>
      cases sd with
      | some n => simp [noSeed] at h
      | none =>
        simp only [runAll, countResets, run1]
        rw [ih _ (by simpa [noSeed] using h)]
        simp only [rightN]
    | step a =>
      simp only [runAll, countResets]
      rw [ih _ (by simpa [noSeed] using h)]
      simp only [run1]
      cases st.state <;> rfl

/-- the documented key schedule: the reset that follows `i` earlier resets since seeding with `n`
calls `env.reset` with `resetKey n i` -/
theorem reset_uses_schedule (n : Nat) (ops : List (Op A)) (h : noSeed ops = true) :
    (run1 E isZero (runAll E isZero (init n) ops) (.reset none)).2 =
      .obs (E.reset (resetKey n (countResets ops))).2.obs (E.reset (resetKey n (countResets ops))).2.extras := by
  have hk := key_after E isZero (init n) ops h
  simp only [run1, resetKey]
  rw [hk]
  rfl

/-- re-seeding makes the future independent of the past -/
theorem reseed_reproducible (st : St S) (n : Nat) :
    (run1 E isZero (run1 E isZero st (.seed n)).1 (.reset none)) =
    (run1 E isZero (init n) (.reset none)) := by
  simp [run1, init]

theorem reset_with_seed (st : St S) (n : Nat) :
    run1 E isZero st (.reset (some n)) = run1 E isZero (init n) (.reset none) := by
  simp [run1, init]

/-- gym flags: terminated ↔ discount = 0, truncated ↔ step is LAST; obs/reward/extras relayed -/
theorem step_relays (st : St S) (s : S) (a : A) (hs : st.state = some s) :
    (run1 E isZero st (.step a)).2 =
      .stepped (E.step s a).2.obs (E.step s a).2.reward (isZero (E.step s a).2.discount) (E.step s a).2.last
        (E.step s a).2.extras ∧
    (run1 E isZero st (.step a)).1.state = some (E.step s a).1 := by
  simp [run1, hs]
end Gym

/-! ### Gym flags on real values (`R := Rat`, `isZero := (· == 0)`) -/
namespace Gym

/-- `term = ~discount.astype(bool)`, `trunc = timestep.last()` on rational rewards / discounts:
terminated ↔ the native discount is 0; truncated ↔ the native step is LAST (whatever the discount) -/
theorem step_relays_rat (E : Env S A O Rat X) (st : St S) (s : S) (a : A) (hs : st.state = some s) :
    ∃ term trunc : Bool,
      (run1 E (fun d => d == 0) st (.step a)).2 =
        .stepped (E.step s a).2.obs (E.step s a).2.reward term trunc (E.step s a).2.extras ∧
      (term = true ↔ (E.step s a).2.discount = 0) ∧
      (trunc = true ↔ (E.step s a).2.stepType = .last) ∧
      (run1 E (fun d => d == 0) st (.step a)).1.state = some (E.step s a).1 ∧
      (run1 E (fun d => d == 0) st (.step a)).1.key = st.key := by
  refine ⟨(E.step s a).2.discount == 0, (E.step s a).2.last, ?_, ?_, ?_, ?_, ?_⟩
  · simp [run1, hs]
  · simp
  · simp [TS.last]
  · simp [run1, hs]
  · simp [run1, hs]

/-- `step` before the first `reset`: `self._state` is `None`, the jitted step fails -/
theorem step_before_reset (E : Env S A O R X) (isZero : R → Bool) (st : St S) (a : A) (hs : st.state = none) :
    run1 E isZero st (.step a) = (st, .error) := by
  simp [run1, hs]

end Gym

/-! ### MultiToSingleWrapper -/
namespace MultiToSingle
variable {R' : Type}

theorem step_eq (E : Env S A O R X) (aggR aggD : R → R') (s : S) (a : A) :
    step E aggR aggD s a = ((E.step s a).1, aggregate aggR aggD (E.step s a).2) := rfl

theorem reset_eq (E : Env S A O R X) (aggR aggD : R → R') (k : Key) :
    reset E aggR aggD k = ((E.reset k).1, aggregate aggR aggD (E.reset k).2) := rfl

/-- the wrapped step: the native next state; reward and discount aggregated; everything else relayed -/
theorem step_fields (E : Env S A O R X) (aggR aggD : R → R') (s : S) (a : A) :
    (step E aggR aggD s a).1 = (E.step s a).1 ∧
    (step E aggR aggD s a).2.reward = aggR (E.step s a).2.reward ∧
    (step E aggR aggD s a).2.discount = aggD (E.step s a).2.discount ∧
    (step E aggR aggD s a).2.stepType = (E.step s a).2.stepType ∧
    (step E aggR aggD s a).2.obs = (E.step s a).2.obs ∧
    (step E aggR aggD s a).2.extras = (E.step s a).2.extras ∧
    (step E aggR aggD s a).2.nextObs = (E.step s a).2.nextObs := by
  simp [step_eq, aggregate]

theorem reset_fields (E : Env S A O R X) (aggR aggD : R → R') (k : Key) :
    (reset E aggR aggD k).1 = (E.reset k).1 ∧
    (reset E aggR aggD k).2.reward = aggR (E.reset k).2.reward ∧
    (reset E aggR aggD k).2.discount = aggD (E.reset k).2.discount ∧
    (reset E aggR aggD k).2.stepType = (E.reset k).2.stepType ∧
    (reset E aggR aggD k).2.obs = (E.reset k).2.obs ∧
    (reset E aggR aggD k).2.extras = (E.reset k).2.extras ∧
    (reset E aggR aggD k).2.nextObs = (E.reset k).2.nextObs := by
  simp [reset_eq, aggregate]

/-- the wrapper keeps the states: a whole rollout of the wrapped environment is the native rollout with
every timestep aggregated -/
theorem rollout_eq (E : Env S A O R X) (aggR aggD : R → R') (s : S) (as : List A) :
    rollout (env E aggR aggD) s as = (rollout E s as).map (fun p => (p.1, aggregate aggR aggD p.2)) := by
  induction as generalizing s with
  | nil => rfl
  | cons a as ih =>
    simp only [rollout, List.map_cons]
    show step E aggR aggD s a :: rollout (env E aggR aggD) (step E aggR aggD s a).1 as = _
    rw [step_eq, ih]

private def mx (a b : Rat) : Rat := if a ≤ b then b else a

private theorem foldl_mx_ge_init (l : List Rat) (r : Rat) : r ≤ l.foldl mx r := by
  induction l generalizing r with
  | nil => exact Rat.le_refl
  | cons b l ih =>
    simp only [List.foldl_cons]
    refine Rat.le_trans ?_ (ih (mx r b))
    unfold mx; split
    · assumption
    · exact Rat.le_refl

private theorem foldl_mx_ge_mem (l : List Rat) (r : Rat) : ∀ d ∈ l, d ≤ l.foldl mx r := by
  induction l generalizing r with
  | nil => simp
  | cons b l ih =>
    intro d hd
    simp only [List.foldl_cons]
    rcases List.mem_cons.1 hd with rfl | hd
    · refine Rat.le_trans ?_ (foldl_mx_ge_init l (mx r d))
      unfold mx; split
      · exact Rat.le_refl
      · rename_i h; exact Rat.le_of_lt (Rat.not_le.1 h)
    · exact ih _ d hd

private theorem foldl_mx_mem (l : List Rat) (r : Rat) : l.foldl mx r = r ∨ l.foldl mx r ∈ l := by
  induction l generalizing r with
  | nil => simp
  | cons b l ih =>
    simp only [List.foldl_cons]
    rcases ih (mx r b) with h | h
    · rw [h]; unfold mx; split
      · right; simp
      · left; rfl
    · right; simp [h]

/-- `jnp.max` of a non-empty vector is one of its elements and bounds all of them -/
theorem maxAgg_mem (ds : List Rat) (hne : ds ≠ []) : maxAgg ds ∈ ds := by
  cases ds with
  | nil => exact absurd rfl hne
  | cons r rs =>
    show rs.foldl mx r ∈ r :: rs
    rcases foldl_mx_mem rs r with h | h
    · rw [h]; simp
    · simp [h]

theorem maxAgg_ge (ds : List Rat) : ∀ d ∈ ds, d ≤ maxAgg ds := by
  cases ds with
  | nil => simp
  | cons r rs =>
    intro d hd
    show d ≤ rs.foldl mx r
    rcases List.mem_cons.1 hd with rfl | hd
    · exact foldl_mx_ge_init rs d
    · exact foldl_mx_ge_mem rs r d hd

/-- the default discount aggregator (max) over non-negative per-agent discounts: the aggregated discount is zero
exactly when EVERY agent's discount is zero ("if any single agent is alive, the discount value won't be zero") -/
theorem maxAgg_zero_iff (ds : List Rat) (hne : ds ≠ []) (h0 : ∀ d ∈ ds, 0 ≤ d) :
    maxAgg ds = 0 ↔ ∀ d ∈ ds, d = 0 := by
  constructor
  · intro hm d hd
    have h1 := maxAgg_ge ds d hd
    rw [hm] at h1
    exact Rat.le_antisymm h1 (h0 d hd)
  · intro hall
    exact hall _ (maxAgg_mem ds hne)

theorem sumAgg_nil : sumAgg [] = 0 := rfl

private theorem foldl_add (l : List Rat) (r : Rat) : l.foldl (· + ·) r = r + l.foldl (· + ·) 0 := by
  induction l generalizing r with
  | nil => simp [Rat.add_zero]
  | cons b l ih =>
    simp only [List.foldl_cons]
    rw [ih (r + b), ih (0 + b), Rat.zero_add, Rat.add_assoc]

/-- the default reward aggregator is the sum of the agents' rewards -/
theorem sumAgg_cons (r : Rat) (rs : List Rat) : sumAgg (r :: rs) = r + sumAgg rs := by
  unfold sumAgg
  simp only [List.foldl_cons]
  rw [foldl_add, Rat.zero_add]

end MultiToSingle

/-- gym adapter over `MultiToSingleWrapper(env)` with the default aggregators: `terminated` exactly when every
agent's native discount is zero (per-agent discounts non-negative, at least one agent) -/
theorem Gym.multi_terminated_iff (E : Env S A O (List Rat) X) (st : Gym.St S) (s : S) (a : A)
    (hs : st.state = some s) (hne : (E.step s a).2.discount ≠ []) (h0 : ∀ d ∈ (E.step s a).2.discount, 0 ≤ d) :
    ∃ term trunc : Bool,
      (Gym.run1 (MultiToSingle.env E MultiToSingle.sumAgg MultiToSingle.maxAgg) (fun d => d == 0) st (.step a)).2 =
        .stepped (E.step s a).2.obs (MultiToSingle.sumAgg (E.step s a).2.reward) term trunc (E.step s a).2.extras ∧
      (term = true ↔ ∀ d ∈ (E.step s a).2.discount, d = 0) ∧
      (trunc = true ↔ (E.step s a).2.stepType = .last) := by
  obtain ⟨term, trunc, h1, h2, h3, _, _⟩ :=
    Gym.step_relays_rat (MultiToSingle.env E MultiToSingle.sumAgg MultiToSingle.maxAgg) st s a hs
  refine ⟨term, trunc, h1, ?_, h3⟩
  rw [h2]
  exact MultiToSingle.maxAgg_zero_iff _ hne h0

/-! ### JumanjiToDMEnvWrapper -/
namespace DmEnv
variable (E : Env S A O R X)

/-- the first timestep: FIRST, no reward, no discount, the observation of `env.reset(split(key)[0])`;
the adapter keeps `split(key)[1]` and the new environment state -/
theorem reset_first (st : St S) :
    (run1 E st .reset).2 =
      .ts { stepType := .first, reward := none, discount := none, obs := (E.reset (.left st.key)).2.obs } ∧
    (run1 E st .reset).1.key = .right st.key ∧
    (run1 E st .reset).1.state = some (E.reset (.left st.key)).1 := by
  simp [run1, restart]

/-- a step relays step type, reward, discount and observation of the native step unchanged (LAST is LAST
whether the episode was terminated or truncated: the native discount tells which) -/
theorem step_relays (st : St S) (s : S) (a : A) (hs : st.state = some s) :
    (run1 E st (.step a)).2 =
      .ts { stepType := (E.step s a).2.stepType, reward := some (E.step s a).2.reward,
            discount := some (E.step s a).2.discount, obs := (E.step s a).2.obs } ∧
    (run1 E st (.step a)).1.state = some (E.step s a).1 ∧
    (run1 E st (.step a)).1.key = st.key := by
  simp [run1, hs]

theorem step_before_reset (st : St S) (a : A) (hs : st.state = none) :
    run1 E st (.step a) = (st, .error) := by
  simp [run1, hs]

def countResets : List (Op A) → Nat
  | [] => 0
  | .reset :: ops => countResets ops + 1
  | .step _ :: ops => countResets ops

theorem key_after (st : St S) (ops : List (Op A)) :
    (runAll E st ops).key = Gym.rightN (countResets ops) st.key := by
  induction ops generalizing st with
  | nil => rfl
  | cons op ops ih =>
    cases op with
    | reset =>
      simp only [runAll, countResets]
      rw [ih]
      simp [run1, Gym.rightN]
    | step a =>
      simp only [runAll, countResets]
      rw [ih]
      simp only [run1]
      cases st.state <;> rfl

/-- the documented key schedule: the reset that follows `i` earlier resets of an adapter constructed
with key `k` — and any steps in between — calls `env.reset(resetKey k i)` -/
theorem key_schedule (k : Key) (ops : List (Op A)) :
    (run1 E (runAll E (init k) ops) .reset).2 =
      .ts (restart (E.reset (resetKey k (countResets ops))).2.obs) := by
  have hk := key_after E (init k) ops
  simp only [run1, resetKey]
  rw [hk]
  rfl

/-- "re-seeding" a dm_env adapter = constructing it with the key again.  Whatever an adapter did before,
from its next `reset` on its outputs depend only on its key -/
theorem reseed_reproducible (st st' : St S) (hk : st.key = st'.key) (ops : List (Op A)) :
    trace E st (.reset :: ops) = trace E st' (.reset :: ops) := by
  have h : run1 E st .reset = run1 E st' .reset := by simp [run1, hk]
  simp only [trace, h]

theorem trace_append (st : St S) (xs ys : List (Op A)) :
    trace E st (xs ++ ys) = trace E st xs ++ trace E (runAll E st xs) ys := by
  induction xs generalizing st with
  | nil => rfl
  | cons x xs ih => simp only [List.cons_append, trace, runAll, ih]

/-- what the adapter makes of a native transition -/
def relay (p : S × TS O R X) : Out O R :=
  .ts { stepType := p.2.stepType, reward := some p.2.reward, discount := some p.2.discount, obs := p.2.obs }

theorem trace_steps (st : St S) (s : S) (hs : st.state = some s) (as : List A) :
    trace E st (as.map .step) = (rollout E s as).map relay ∧
    (runAll E st (as.map .step)).key = st.key := by
  induction as generalizing st s with
  | nil => exact ⟨rfl, rfl⟩
  | cons a as ih =>
    obtain ⟨h1, h2, h3⟩ := step_relays E st s a hs
    simp only [List.map_cons, trace, runAll, rollout]
    obtain ⟨i1, i2⟩ := ih (run1 E st (.step a)).1 (E.step s a).1 h2
    rw [i1, i2, h3, h1]
    exact ⟨rfl, rfl⟩

/-- the calls of one episode / what the native API gives for it -/
def episodeOps (as : List A) : List (Op A) := .reset :: as.map .step
def episodeOut (key : Key) (as : List A) : List (Out O R) :=
  .ts (restart (E.reset key).2.obs) :: (rollout E (E.reset key).1 as).map relay
def nativeTrace (k : Key) : Nat → List (List A) → List (Out O R)
  | _, [] => []
  | i, as :: eps => episodeOut E (resetKey k i) as ++ nativeTrace k (i+1) eps

theorem trace_eq_native_aux (k : Key) (eps : List (List A)) (i : Nat) (st : St S) (hk : st.key = Gym.rightN i k) :
    trace E st (eps.flatMap episodeOps) = nativeTrace E k i eps := by
  induction eps generalizing i st with
  | nil => rfl
  | cons as eps ih =>
    simp only [List.flatMap_cons, nativeTrace]
    rw [trace_append]
    obtain ⟨r1, r2, r3⟩ := reset_first E st
    have hst := trace_steps E (run1 E st .reset).1 _ r3 as
    congr 1
    · simp only [episodeOps, trace, episodeOut, r1, hst.1, resetKey, hk, restart]
    · apply ih (i+1)
      simp only [episodeOps, runAll]
      rw [hst.2, r2, hk, Gym.rightN_succ]

/-- driving an environment through the adapter for any number of episodes (each a `reset` followed by any
steps) yields exactly the native API's outputs under the key schedule `resetKey k 0, resetKey k 1, …` -/
theorem trace_eq_native (k : Key) (eps : List (List A)) :
    trace E (init k) (eps.flatMap episodeOps) = nativeTrace E k 0 eps :=
  trace_eq_native_aux E k eps 0 (init k) rfl

end DmEnv

theorem aggregate_only {R' : Type} (aggR aggD : R → R') (t : TS O R X) :
    (aggregate aggR aggD t).reward = aggR t.reward ∧ (aggregate aggR aggD t).discount = aggD t.discount ∧
    (aggregate aggR aggD t).stepType = t.stepType ∧ (aggregate aggR aggD t).obs = t.obs ∧
    (aggregate aggR aggD t).extras = t.extras ∧ (aggregate aggR aggD t).nextObs = t.nextObs := by
  simp [aggregate]

end Wr
