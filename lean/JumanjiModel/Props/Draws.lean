/- The ranges the source ACTUALLY draws from, read off the GENERATED table of `jax.random.*` calls (Gen/Draws.lean, regenerated
from the source of every environment package on every run), tied to the hand-written support predicates (`validDraw`,
`validUniform`, `validGenDraw`, …) of the Lean generator models: a value in the support of the generated call description
satisfies the hand-written predicate — so the generator theorems (`*_generate_cert`) hold for what the source draws, not only for
what the model's author read in it.  A change of `minval=` / `maxval=` / `shape=` / `p=` / `replace=` in the source changes the
table and the tied theorem stops building.  Counted under C10. -/
import JumanjiModel.Gen.Draws
import JumanjiModel.Gen.Constants
import JumanjiModel.Props.Guards
import JumanjiModel.Props.Env.CVRP
import JumanjiModel.Props.Env.Knapsack
import JumanjiModel.Props.Env.TSP
import JumanjiModel.Props.Env.JobShop
import JumanjiModel.Props.Env.GraphColoring
import JumanjiModel.Props.Env.Minesweeper
import JumanjiModel.Props.Env.Tetris
import JumanjiModel.Props.Env.Snake
import JumanjiModel.Props.Env.Game2048
import JumanjiModel.Props.Env.MMST
import JumanjiModel.Props.Env.LBF
import JumanjiModel.Props.Env.Connector
open DrawRange

/-! ### helper lemmas about masks as weight vectors (not property theorems) -/
namespace DrawRange
/-- the support `[0, 1)` as the generic uniform support gives it -/
theorem unit01 {x : Rat} (h : 0 ≤ x ∧ (x < 1 ∨ x = 0)) : 0 ≤ x ∧ x < 1 := by
  obtain ⟨h0, h1 | h1⟩ := h
  · exact ⟨h0, h1⟩
  · exact ⟨h0, by rw [h1]; decide +kernel⟩

/-- a Boolean mask as the 0/1 weight vector `jax.random.choice(p=mask)` sees -/
def maskWeights (m : List Bool) : List Rat := m.map (fun b => if b then 1 else 0)

theorem maskWeights_pos (m : List Bool) (k : Nat) (h : 0 < (maskWeights m).getD k 0) : m.getD k false = true := by
  unfold maskWeights at h
  rcases Nat.lt_or_ge k m.length with hk | hk
  · simp only [List.getD_eq_getElem?_getD, List.getElem?_map, List.getElem?_eq_getElem hk, Option.map_some, Option.getD_some] at h ⊢
    cases hb : m[k] with
    | true => rfl
    | false => rw [hb] at h; exact absurd h (by decide +kernel)
  · simp [List.getElem?_eq_none hk] at h

theorem maskWeights_nonpos (m : List Bool) (h : ∀ w ∈ maskWeights m, w ≤ 0) : ∀ b ∈ m, b = false := by
  intro b hb
  cases b with
  | false => rfl
  | true =>
    have : (1 : Rat) ∈ maskWeights m := by
      unfold maskWeights
      exact List.mem_map.2 ⟨true, hb, by simp⟩
    exact absurd (h 1 this) (by decide +kernel)

theorem getD_map_not (l : List Bool) (d : Nat) (h : (l.map not).getD d false = true) : l.getD d true = false := by
  rcases Nat.lt_or_ge d l.length with hl | hl
  · rw [List.getD_eq_getElem?_getD, List.getElem?_map, List.getElem?_eq_getElem hl] at h
    rw [List.getD_eq_getElem?_getD, List.getElem?_eq_getElem hl]
    simpa using h
  · rw [List.getD_eq_getElem?_getD, List.getElem?_map, List.getElem?_eq_none hl] at h
    simp at h

/-- a draw WITH replacement under a mask: the mask bit of the drawn index is set, unless no bit is set at all -/
theorem okAt_mask (ρ : Env) (s : String) (m : List Bool) (hw : ρ.w s = maskWeights m) (k : Nat) (h : Wt.okAt ρ (.named s) k) :
    m.getD k false = true ∨ ∀ b ∈ m, b = false := by
  simp only [Wt.okAt, hw] at h
  rcases h with h | h
  · exact Or.inl (maskWeights_pos m k h)
  · exact Or.inr (maskWeights_nonpos m h)
/-- row-major flattening: entry `d` of the flattened grid is entry `(d / c, d % c)` of a grid with rows of length `c` -/
theorem flatten_getD {α} (x : α) (c : Nat) : ∀ (g : List (List α)) (_ : ∀ r ∈ g, r.length = c) (d : Nat) (_ : d < g.length * c),
    g.flatten.getD d x = (g.getD (d / c) []).getD (d % c) x
  | [], _, d, hd => by simp at hd
  | r :: g, hc, d, hd => by
    have hr : r.length = c := hc r (by simp)
    have hc0 : 0 < c := by
      rcases Nat.eq_zero_or_pos c with h | h
      · subst h; simp at hd
      · exact h
    by_cases h : d < c
    · have e1 : d / c = 0 := Nat.div_eq_of_lt h
      have e2 : d % c = d := Nat.mod_eq_of_lt h
      simp [e1, e2, List.getD_eq_getElem?_getD, List.getElem?_append_left (by omega : d < r.length)]
    · have hge : c ≤ d := by omega
      have ih := flatten_getD x c g (fun r' hr' => hc r' (by simp [hr'])) (d - c)
        (by simp [Nat.add_mul] at hd; omega)
      have e1 : d / c = (d - c) / c + 1 := by
        have : d = (d - c) + c := by omega
        conv => lhs; rw [this]
        exact Nat.add_div_right _ hc0
      have e2 : d % c = (d - c) % c := by
        have : d = (d - c) + c := by omega
        conv => lhs; rw [this]
        exact Nat.add_mod_right _ _
      rw [e1, e2]
      simp only [List.flatten_cons, List.getD_cons_succ]
      rw [← ih]
      simp [List.getD_eq_getElem?_getD, List.getElem?_append_right (by omega : r.length ≤ d), hr]


/-- entry `(j, k)` of a matrix with `J` rows of `O` entries is one of its entries -/
theorem at2_mem {α} (g : List (List α)) (d : α) (J O : Nat) (hJ : g.length = J) (hO : ∀ r ∈ g, r.length = O)
    (j k : Nat) (hj : j < J) (hk : k < O) : ∃ r ∈ g, JobShop.at2 g d j k ∈ r := by
  have hj' : j < g.length := by omega
  refine ⟨g[j], List.getElem_mem hj', ?_⟩
  have hr : g[j].length = O := hO _ (List.getElem_mem hj')
  unfold JobShop.at2
  have e1 : g.getD j [] = g[j] := by simp [List.getD_eq_getElem?_getD, hj']
  have hk' : k < g[j].length := by omega
  have e2 : g[j].getD k d = g[j][k] := by simp [List.getD_eq_getElem?_getD, hk']
  rw [e1, e2]
  exact List.getElem_mem _
end DrawRange

namespace Props.C10

/-- the description of a draw call, looked up in the generated table -/
abbrev drawOf (key : String) : Draw := find Gen.Draws.table key
-- The proofs below first replace `drawOf "<key>"` by the generated definition of that call (`decide +kernel`: a table lookup), unfold
-- it, and let `simp` / `omega` derive the range from WHATEVER shape the translated arguments have: an equivalent rewrite of the call
-- in the source (keyword or positional arguments, `1 + n` for `n + 1`, another import alias) does not change the theorem; a changed
-- bound, shape, population, mask or `replace=` makes the proof fail.

/-! ### CVRP -/

/-- `UniformGenerator.__call__`, `demands = randint(key, (num_nodes + 1,), minval=1, maxval=max_demand)`: `num_nodes + 1` integers,
each at least 1 and BELOW `max_demand` (or 1 when `max_demand ≤ 1`: `randint` with an empty range returns `minval`) -/
theorem cvrp_demand_draw_tied (ρ : String → Int) (dd : List Int)
    (h : inSupport (drawOf "cvrp.UniformGenerator.demands") ρ (.i1 dd)) :
    (dd.length : Int) = ρ "num_nodes" + 1 ∧ ∀ d ∈ dd, 1 ≤ d ∧ (d < ρ "max_demand" ∨ d = 1) := by
  have e : drawOf "cvrp.UniformGenerator.demands" = Gen.Draws.d_cvrp_UniformGenerator_demands := by decide +kernel
  rw [e] at h
  unfold Gen.Draws.d_cvrp_UniformGenerator_demands at h
  simp [inSupport, inSupportE, shapeOK, evalList, X.evalI, Val.hasDims, inRandint, Env.ofInt] at h
  exact ⟨by omega, fun d hd => by have := h.2 d hd; omega⟩

/-- `coordinates = uniform(key, (num_nodes + 1, 2), minval=0, maxval=1)`: `num_nodes + 1` points of `[0, 1)²` -/
theorem cvrp_coordinates_draw_tied (ρ : String → Int) (cd : List (List Rat))
    (h : inSupport (drawOf "cvrp.UniformGenerator.coordinates") ρ (.r2 cd)) :
    (cd.length : Int) = ρ "num_nodes" + 1 ∧ ∀ p ∈ cd, p.length = 2 ∧ ∀ x ∈ p, 0 ≤ x ∧ x < 1 := by
  have e : drawOf "cvrp.UniformGenerator.coordinates" = Gen.Draws.d_cvrp_UniformGenerator_coordinates := by decide +kernel
  rw [e] at h
  unfold Gen.Draws.d_cvrp_UniformGenerator_coordinates at h
  simp [inSupport, inSupportE, shapeOK, evalList, X.evalI, X.evalQ, Val.hasDims, inUniform, Bound.scQ, Env.ofInt] at h
  exact ⟨by have := h.1.1; omega, fun p hp => ⟨by have := h.1.2 p hp; omega, fun x hx => unit01 (h.2 p hp x hx)⟩⟩

/-- what the source draws is in the support the Lean generator model assumes: for a configuration with `max_demand ≥ 1`.
(With `max_demand ≤ 0` the drawn demands are all 1 and EXCEED `max_demand`; the constructors accept such a configuration
as long as `max_capacity ≥ max_demand`.) -/
theorem cvrp_draws_valid (ρ : String → Int) (n : Nat) (hn : ρ "num_nodes" = n) (hm : 1 ≤ ρ "max_demand")
    (cd : List (List Rat)) (dd : List Int)
    (hc : inSupport (drawOf "cvrp.UniformGenerator.coordinates") ρ (.r2 cd))
    (hd : inSupport (drawOf "cvrp.UniformGenerator.demands") ρ (.i1 dd)) :
    CVRP.validUniform n (ρ "max_demand") cd dd := by
  have h1 := cvrp_coordinates_draw_tied ρ cd hc
  have h2 := cvrp_demand_draw_tied ρ dd hd
  refine ⟨by omega, by omega, h1.2, fun d hdm => ?_⟩
  have := h2.2 d hdm
  omega

/-- … hence, composed with the constructor check of Props/Guards.lean: for every configuration the constructors accept with
`max_demand ≥ 1` and everything the source can draw, the generated instance satisfies the generator certificate -/
theorem cvrp_generate_cert_of_draws (ρ : String → Int) (hg : Guard.accepts (checks "cvrp.CVRP") ρ = true)
    (n : Nat) (hn : ρ "num_nodes" = n) (hm : 1 ≤ ρ "max_demand") (cd : List (List Rat)) (dd : List Int)
    (hc : inSupport (drawOf "cvrp.UniformGenerator.coordinates") ρ (.r2 cd))
    (hd : inSupport (drawOf "cvrp.UniformGenerator.demands") ρ (.i1 dd)) :
    CVRP.GenCert n (ρ "max_capacity") (ρ "max_demand") (CVRP.generate n (ρ "max_capacity") cd dd) :=
  cvrp_generate_cert_of_ctor ρ hg n cd dd (cvrp_draws_valid ρ n hn hm cd dd hc hd)

/-- (audit r4 #1) what the source draws IS the support `CVRP.validUniformCode` — for EVERY `max_demand`, also `≤ 0`, where the
documented support `validUniform` is empty: the two descriptions of the code's support (hand-written in Env/CVRP/Model.lean, derived from
the `randint` call by the translator) agree -/
theorem cvrp_draws_validCode (ρ : String → Int) (n : Nat) (hn : ρ "num_nodes" = n)
    (cd : List (List Rat)) (dd : List Int)
    (hc : inSupport (drawOf "cvrp.UniformGenerator.coordinates") ρ (.r2 cd))
    (hd : inSupport (drawOf "cvrp.UniformGenerator.demands") ρ (.i1 dd)) :
    CVRP.validUniformCode n (ρ "max_demand") cd dd := by
  have h1 := cvrp_coordinates_draw_tied ρ cd hc
  have h2 := cvrp_demand_draw_tied ρ dd hd
  refine ⟨by omega, by omega, h1.2, fun d hdm => ?_⟩
  have := h2.2 d hdm
  omega

/-- the documented range `[1, max_demand]` is NOT what is drawn: `max_demand` itself never occurs (for `max_demand ≥ 2`) -/
theorem cvrp_max_demand_never_drawn (ρ : String → Int) (hm : 2 ≤ ρ "max_demand") (dd : List Int)
    (hd : inSupport (drawOf "cvrp.UniformGenerator.demands") ρ (.i1 dd)) : ρ "max_demand" ∉ dd := by
  intro hmem
  have := (cvrp_demand_draw_tied ρ dd hd).2 _ hmem
  omega

-- non-vacuity: a draw of the default configuration shape is in the support, one with the demand `max_demand` is not
example : inSupport (drawOf "cvrp.UniformGenerator.demands") (fun n => if n = "num_nodes" then 2 else 10) (.i1 [1, 9, 3]) := by
  decide +kernel
example : ¬ inSupport (drawOf "cvrp.UniformGenerator.demands") (fun n => if n = "num_nodes" then 2 else 10) (.i1 [1, 10, 3]) := by
  decide +kernel
example : inSupport (drawOf "cvrp.UniformGenerator.coordinates") (fun _ => 1) (.r2 [[0, 1/2], [1/3, 3/4]]) := by decide +kernel
example : ¬ inSupport (drawOf "cvrp.UniformGenerator.coordinates") (fun _ => 1) (.r2 [[0, 1/2], [1/3, 1]]) := by decide +kernel

/-! ### Knapsack -/

/-- `weights, values = uniform(key, (2, num_items), minval=0, maxval=1)`: two rows of `num_items` numbers of `[0, 1)` (the source
comment says "[0, 1]"; 1 is never drawn) -/
theorem knapsack_weights_draw_tied (ρ : String → Int) (w v : List Rat)
    (h : inSupport (drawOf "knapsack.RandomGenerator.weights_values") ρ (.r2 [w, v])) :
    (w.length : Int) = ρ "num_items" ∧ (v.length : Int) = ρ "num_items" ∧
    (∀ x ∈ w, 0 ≤ x ∧ x < 1) ∧ (∀ x ∈ v, 0 ≤ x ∧ x < 1) := by
  have e : drawOf "knapsack.RandomGenerator.weights_values" = Gen.Draws.d_knapsack_RandomGenerator_weights_values := by decide +kernel
  rw [e] at h
  unfold Gen.Draws.d_knapsack_RandomGenerator_weights_values at h
  simp [inSupport, inSupportE, shapeOK, evalList, X.evalI, X.evalQ, Val.hasDims, inUniform, Bound.scQ, Env.ofInt] at h
  exact ⟨by have := h.1.1; omega, by have := h.1.2; omega, fun x hx => unit01 (h.2.1 x hx), fun x hx => unit01 (h.2.2 x hx)⟩

/-- … which is inside the support `Knapsack.validDraw` the Lean generator model assumes -/
theorem knapsack_draw_valid (ρ : String → Int) (n : Nat) (hn : ρ "num_items" = n) (w v : List Rat)
    (h : inSupport (drawOf "knapsack.RandomGenerator.weights_values") ρ (.r2 [w, v])) : Knapsack.validDraw n w v := by
  have t := knapsack_weights_draw_tied ρ w v h
  exact ⟨by omega, by omega, fun x hx => ⟨(t.2.2.1 x hx).1, Rat.le_of_lt (t.2.2.1 x hx).2⟩,
    fun x hx => ⟨(t.2.2.2 x hx).1, Rat.le_of_lt (t.2.2.2 x hx).2⟩⟩

/-- … hence the instance generated from anything the source can draw passes the certificate -/
theorem knapsack_generate_certificate_of_draw (ρ : String → Int) (n : Nat) (hn : ρ "num_items" = n) (b : Rat) (w v : List Rat)
    (h : inSupport (drawOf "knapsack.RandomGenerator.weights_values") ρ (.r2 [w, v])) :
    Knapsack.instanceOK n b (Knapsack.generate n b w v) = true :=
  knapsack_generate_certificate n b w v (knapsack_draw_valid ρ n hn w v h)

/-! ### TSP -/
/-- `coordinates = uniform(key, (num_cities, 2), minval=0, maxval=1)` is inside `TSP.validUniform`: `num_cities` points of `[0, 1)²` -/
theorem tsp_coordinates_draw_tied (ρ : String → Int) (n : Nat) (hn : ρ "num_cities" = n) (u : List (List Rat))
    (h : inSupport (drawOf "tsp.UniformGenerator.coordinates") ρ (.r2 u)) : TSP.validUniform n u := by
  have e : drawOf "tsp.UniformGenerator.coordinates" = Gen.Draws.d_tsp_UniformGenerator_coordinates := by decide +kernel
  rw [e] at h
  unfold Gen.Draws.d_tsp_UniformGenerator_coordinates at h
  simp [inSupport, inSupportE, shapeOK, evalList, X.evalI, X.evalQ, Val.hasDims, inUniform, Bound.scQ, Env.ofInt] at h
  exact ⟨by omega, fun p hp => ⟨by have := h.1.2 p hp; omega, fun x hx => unit01 (h.2 p hp x hx)⟩⟩

/-- … hence the generator certificate for anything the source can draw -/
theorem tsp_generate_cert_of_draw (ρ : String → Int) (n : Nat) (hn : ρ "num_cities" = n) (u : List (List Rat))
    (h : inSupport (drawOf "tsp.UniformGenerator.coordinates") ρ (.r2 u)) : TSP.GenCert n (TSP.generate n u) :=
  tsp_generate_cert n u (tsp_coordinates_draw_tied ρ n hn u h)

/-! ### GraphColoring -/
/-- `p_matrix = uniform(key, (num_nodes, num_nodes))` (default bounds 0, 1) is inside `GraphColoring.validUniform` -/
theorem graph_coloring_uniform_draw_tied (ρ : String → Int) (n : Nat) (hn : ρ "num_nodes" = n) (U : List (List Rat))
    (h : inSupport (drawOf "graph_coloring.RandomGenerator.p_matrix") ρ (.r2 U)) : GraphColoring.validUniform n U := by
  have e : drawOf "graph_coloring.RandomGenerator.p_matrix" = Gen.Draws.d_graph_coloring_RandomGenerator_p_matrix := by decide +kernel
  rw [e] at h
  unfold Gen.Draws.d_graph_coloring_RandomGenerator_p_matrix at h
  simp [inSupport, inSupportE, shapeOK, evalList, X.evalI, X.evalQ, Val.hasDims, inUniform, Bound.scQ, Env.ofInt] at h
  exact ⟨by omega, fun p hp => ⟨by have := h.1.2 p hp; omega, fun x hx => unit01 (h.2 p hp x hx)⟩⟩

/-! ### Tetris -/
/-- `tetromino_index = randint(key, (), 0, len(tetrominoes_list))` with the list the constants module defines
(`Gen.Constants.tetris_TETROMINOES_LIST`, 7 pieces) is inside `Tetris.validDraw` -/
theorem tetris_piece_draw_tied (ρ : String → Int) (hl : ρ "len(tetrominoes_list)" = Gen.Constants.tetris_TETROMINOES_LIST.length)
    (d : Nat) (h : inSupport (drawOf "tetris.sample_tetromino_list.tetromino_index") ρ (.i0 d)) : Tetris.validDraw d := by
  have e : drawOf "tetris.sample_tetromino_list.tetromino_index" = Gen.Draws.d_tetris_sample_tetromino_list_tetromino_index := by decide +kernel
  have e7 : Gen.Constants.tetris_TETROMINOES_LIST.length = 7 := by decide +kernel
  rw [e] at h
  unfold Gen.Draws.d_tetris_sample_tetromino_list_tetromino_index at h
  simp [inSupport, inSupportE, shapeOK, evalList, X.evalI, Val.hasDims, inRandint, Bound.scI, Env.ofInt] at h
  unfold Tetris.validDraw
  omega


/-! ### JobShop -/
/-- the three `randint` calls of `RandomGenerator.__call__` (machine ids `[0, M)`, durations `[1, D + 1)`, ops per job `[1, O + 1)`,
shapes `(J, O)`, `(J, O)`, `(J,)`) are inside `JobShop.validGenDraw` — for `M, O, D ≥ 1` (with `max_op_duration = 0` the drawn
durations are all 1 and exceed the maximum: `randint` with an empty range returns `minval`) -/
theorem jobshop_draws_tied (ρ : String → Int) (cfg : JobShop.Cfg)
    (hJ : ρ "num_jobs" = cfg.J) (hM : ρ "num_machines" = cfg.M) (hO : ρ "max_num_ops" = cfg.O) (hD : ρ "max_op_duration" = cfg.D)
    (hM1 : 1 ≤ cfg.M) (hO1 : 1 ≤ cfg.O) (hD1 : 1 ≤ cfg.D)
    (mid dur : List (List Int)) (numOps : List Int)
    (h1 : inSupport (drawOf "job_shop.RandomGenerator.ops_machine_ids") ρ (.i2 mid))
    (h2 : inSupport (drawOf "job_shop.RandomGenerator.ops_durations") ρ (.i2 dur))
    (h3 : inSupport (drawOf "job_shop.RandomGenerator.num_ops_per_job") ρ (.i1 numOps)) :
    JobShop.validGenDraw cfg mid dur numOps := by
  have e1 : drawOf "job_shop.RandomGenerator.ops_machine_ids" = Gen.Draws.d_job_shop_RandomGenerator_ops_machine_ids := by decide +kernel
  have e2 : drawOf "job_shop.RandomGenerator.ops_durations" = Gen.Draws.d_job_shop_RandomGenerator_ops_durations := by decide +kernel
  have e3 : drawOf "job_shop.RandomGenerator.num_ops_per_job" = Gen.Draws.d_job_shop_RandomGenerator_num_ops_per_job := by decide +kernel
  rw [e1] at h1; rw [e2] at h2; rw [e3] at h3
  unfold Gen.Draws.d_job_shop_RandomGenerator_ops_machine_ids at h1; unfold Gen.Draws.d_job_shop_RandomGenerator_ops_durations at h2; unfold Gen.Draws.d_job_shop_RandomGenerator_num_ops_per_job at h3
  simp [inSupport, inSupportE, shapeOK, evalList, X.evalI, Val.hasDims, inRandint, Bound.scI, Env.ofInt] at h1 h2 h3
  refine ⟨fun j hj k hk => ?_, fun j hj k hk => ?_, fun j hj => ?_⟩
  · obtain ⟨r, hr, hm⟩ := at2_mem mid (-1) cfg.J cfg.O (by omega) (fun r hr => by have := h1.1.2 r hr; omega) j k hj hk
    have := h1.2 r hr _ hm
    omega
  · obtain ⟨r, hr, hm⟩ := at2_mem dur (-1) cfg.J cfg.O (by omega) (fun r hr => by have := h2.1.2 r hr; omega) j k hj hk
    have := h2.2 r hr _ hm
    omega
  · have hl : j < numOps.length := by omega
    have := h3.2 _ (List.getElem_mem hl)
    have e : numOps.getD j 0 = numOps[j] := by simp [List.getD_eq_getElem?_getD, hl]
    rw [e]
    omega

/-! ### Minesweeper -/
/-- `choice(key, num_rows * num_cols, shape=(num_mines,), replace=False)` is inside `Minesweeper.validDraw`: `num_mines` pairwise
distinct flat indices below `rows · cols` -/
theorem minesweeper_mines_draw_tied (ρ : String → Int) (cfg : Minesweeper.Cfg)
    (hR : ρ "num_rows" = cfg.numRows) (hC : ρ "num_cols" = cfg.numCols) (hM : ρ "num_mines" = cfg.numMines)
    (d : List Nat) (h : inSupport (drawOf "minesweeper.create_flat_mine_locations.return") ρ (.i1 (d.map Int.ofNat))) :
    Minesweeper.validDraw cfg d := by
  have e : drawOf "minesweeper.create_flat_mine_locations.return" = Gen.Draws.d_minesweeper_create_flat_mine_locations_return := by decide +kernel
  rw [e] at h
  unfold Gen.Draws.d_minesweeper_create_flat_mine_locations_return at h
  simp [inSupport, inSupportE, shapeOK, evalList, X.evalI, Val.hasDims, Val.ints, pickOK, Wt.okAtNR, Pop.nodup, Env.ofInt] at h
  refine ⟨by omega, ?_, fun m hm => ?_⟩
  · have hnd := h.2.2
    rw [List.Nodup, List.pairwise_map] at hnd
    exact hnd.imp (fun hab e => hab (by rw [e]))
  · have := h.2.1 m hm
    rw [hR, hC] at this
    exact_mod_cast this


/-! ### Snake: the fruit -/
/-- the environment of the fruit draw: the mask `~body.flatten()` as a 0/1 weight vector -/
def snakeEnv (ρ : String → Int) (body : List (List Bool)) : Env :=
  { Env.ofInt ρ with w := fun s => if s = "~body.flatten()" then maskWeights (body.flatten.map not) else [] }

/-- `fruit_index = choice(key, arange(num_rows * num_cols), p=~body.flatten())` is inside `Snake.validDraw`: a cell of the board
that is not a body cell (unless every cell is) -/
theorem snake_fruit_draw_tied (ρ : String → Int) (cfg : Snake.Cfg) (hR : ρ "num_rows" = cfg.rows) (hC : ρ "num_cols" = cfg.cols)
    (body : List (List Bool)) (hs : Jx.Grid.shaped body cfg.rows cfg.cols = true)
    (d : Nat) (h : inSupportE (drawOf "snake.Snake.fruit_index") (snakeEnv ρ body) (.i0 d)) :
    Snake.validDraw cfg body d := by
  have e : drawOf "snake.Snake.fruit_index" = Gen.Draws.d_snake_Snake_fruit_index := by decide +kernel
  rw [e] at h
  unfold Gen.Draws.d_snake_Snake_fruit_index at h
  have h' := h.2 (d : Int) (List.mem_singleton.2 rfl)
  simp only [pickOK, X.evalI, bind, Option.bind, pure] at h'
  obtain ⟨-, hlt, hok⟩ := h'
  have hd : d < cfg.rows * cfg.cols := by
    have e1 : (snakeEnv ρ body).i "num_rows" = cfg.rows := hR
    have e2 : (snakeEnv ρ body).i "num_cols" = cfg.cols := hC
    rw [e1, e2] at hlt; exact_mod_cast hlt
  simp only [Jx.Grid.shaped, Bool.and_eq_true, beq_iff_eq, List.all_eq_true] at hs
  refine ⟨hd, fun hall => ?_⟩
  have hf := flatten_getD true cfg.cols body hs.2 d (by rw [hs.1]; exact hd)
  unfold Jx.Grid.get
  rw [← hf]
  rcases okAt_mask (snakeEnv ρ body) _ (body.flatten.map not) (by simp [snakeEnv]) _ hok with h2 | h2
  · rw [Int.toNat_natCast] at h2
    exact getD_map_not _ _ h2
  · exfalso
    have : Jx.Grid.all id body = true := by
      simp only [Jx.Grid.all, List.all_eq_true, id]
      intro r hr b hb
      have := h2 (!b) (List.mem_map.2 ⟨b, List.mem_flatten.2 ⟨r, hr, hb⟩, rfl⟩)
      simpa using this
    rw [this] at hall
    exact absurd hall (by decide)

/-! ### MMST -/
/-- `agent_permutation = permutation(step_key, arange(num_agents))` is inside `MMST.validDraw`: a permutation of `0 … A-1` -/
theorem mmst_permutation_draw_tied (ρ : String → Int) (A : Nat) (hA : ρ "num_agents" = A) (perm : List Nat)
    (h : inSupport (drawOf "mmst.MMST.agent_permutation") ρ (.i1 (perm.map Int.ofNat))) : MMST.validDraw A perm := by
  have e : drawOf "mmst.MMST.agent_permutation" = Gen.Draws.d_mmst_MMST_agent_permutation := by decide +kernel
  rw [e] at h
  unfold Gen.Draws.d_mmst_MMST_agent_permutation at h
  simp only [inSupport, inSupportE, Pop.elems, X.evalI, Env.ofInt, Option.map_some, hA, Int.toNat_natCast] at h
  have hnd : ((List.range A).map Int.ofNat).Nodup := by
    rw [List.Nodup, List.pairwise_map]
    exact (List.nodup_range (n := A)).imp (fun hab e => hab (Int.ofNat.inj e))
  refine ⟨by simpa using h.length_eq, ?_, fun k hk => ?_⟩
  · have := h.nodup_iff.2 hnd
    rw [List.Nodup, List.pairwise_map] at this
    exact this.imp (fun hab e => hab (by rw [e]))
  · have := h.mem_iff.1 (List.mem_map.2 ⟨k, hk, rfl⟩)
    obtain ⟨j, hj, hjk⟩ := List.mem_map.1 this
    have : j = k := Int.ofNat.inj hjk
    exact this ▸ List.mem_range.1 hj

/-! ### Snake: the head -/
/-- `head_coordinates = randint(key, (2,), minval=zeros(2), maxval=array(self.board_shape))` with `board_shape = (num_rows, num_cols)`
(read from `__init__`): a cell of the board, which is what `Snake.reset` takes as `hr hc` -/
theorem snake_head_draw_tied (ρ : String → Int) (cfg : Snake.Cfg) (hR : ρ "num_rows" = cfg.rows) (hC : ρ "num_cols" = cfg.cols)
    (hr0 : 1 ≤ cfg.rows) (hc0 : 1 ≤ cfg.cols) (hr hc : Nat)
    (h : inSupport (drawOf "snake.Snake.head_coordinates") ρ (.i1 [(hr : Int), (hc : Int)])) : hr < cfg.rows ∧ hc < cfg.cols := by
  have e : drawOf "snake.Snake.head_coordinates" = Gen.Draws.d_snake_Snake_head_coordinates := by decide +kernel
  rw [e] at h
  unfold Gen.Draws.d_snake_Snake_head_coordinates at h
  have h0 := h.2 0 (by simp)
  have h1 := h.2 1 (by simp)
  simp [Bound.atI, X.evalI, inRandint, Env.ofInt] at h0 h1
  omega

/-! ### LevelBasedForaging: the levels -/
/-- `sample_levels`: `randint(key, shape, minval=1, maxval=max_level + 1)`: levels in `[1, max_level]`, the range
`LBF.validDraw` assumes for agent levels (`max_level = max_agent_level`) and food levels (`max_level = max_food_level`) -/
theorem lbf_levels_draw_tied (ρ : String → Int) (ls : List Int) (hm : 1 ≤ ρ "max_level")
    (h : inSupport (drawOf "lbf.RandomGenerator.sample_levels.return") ρ (.i1 ls)) : ∀ l ∈ ls, 1 ≤ l ∧ l ≤ ρ "max_level" := by
  have e : drawOf "lbf.RandomGenerator.sample_levels.return" = Gen.Draws.d_lbf_RandomGenerator_sample_levels_return := by decide +kernel
  rw [e] at h
  unfold Gen.Draws.d_lbf_RandomGenerator_sample_levels_return at h
  simp [inSupport, inSupportE, shapeOK, X.evalI, inRandint, Env.ofInt] at h
  intro l hl
  have := h l hl
  omega

/-! ### Game2048: the value of the new tile -/
/-- `cell_value = choice(subkey, array([1, 2]), p=array([0.9, 0.1]))`: 1 or 2, the value clause of `Game2048.validDraw` -/
theorem game2048_value_draw_tied (ρ : String → Int) (v : Nat)
    (h : inSupport (drawOf "game_2048.Game2048.cell_value") ρ (.i0 v)) : v = 1 ∨ v = 2 := by
  have e : drawOf "game_2048.Game2048.cell_value" = Gen.Draws.d_game_2048_Game2048_cell_value := by decide +kernel
  rw [e] at h
  unfold Gen.Draws.d_game_2048_Game2048_cell_value at h
  have h' := h.2 (v : Int) (List.mem_singleton.2 rfl)
  obtain ⟨k, hk, hv, -⟩ := h'
  have : k = 0 ∨ k = 1 := by simp at hk; omega
  rcases this with rfl | rfl <;> simp at hv <;> omega

/-! ### Connector: UniformRandomGenerator -/
/-- `starts_flat, targets_flat = choice(key, arange(grid_size**2), shape=(2, num_agents), replace=False)` is inside
`Connector.validUniformDraw`: `2k` pairwise different cells below `n²` -/
theorem connector_uniform_draw_tied (ρ : String → Int) (n k : Nat) (hn : ρ "grid_size" = n) (hk : ρ "num_agents" = k)
    (starts targets : List Nat)
    (h : inSupport (drawOf "connector.UniformRandomGenerator.starts_flat_targets_flat") ρ
      (.i2 [starts.map Int.ofNat, targets.map Int.ofNat])) :
    Connector.validUniformDraw n k (starts ++ targets) = true := by
  have e : drawOf "connector.UniformRandomGenerator.starts_flat_targets_flat" = Gen.Draws.d_connector_UniformRandomGenerator_starts_flat_targets_flat := by decide +kernel
  rw [e] at h
  unfold Gen.Draws.d_connector_UniformRandomGenerator_starts_flat_targets_flat at h
  simp [inSupport, inSupportE, shapeOK, evalList, X.evalI, Val.hasDims, Val.ints, pickOK, Wt.okAtNR, Pop.nodup, Env.ofInt] at h
  obtain ⟨⟨hl1, hl2⟩, hr, hnd⟩ := h
  rw [← List.map_append, List.Nodup, List.pairwise_map] at hnd
  have hnd' : (starts ++ targets).Nodup := hnd.imp (fun hab e => hab (by rw [e]))
  simp only [Connector.validUniformDraw, Bool.and_eq_true, beq_iff_eq, decide_eq_true_eq, List.all_eq_true, List.length_append]
  refine ⟨⟨by omega, hnd'⟩, fun c hc => ?_⟩
  have := (hr c (by rcases List.mem_append.1 hc with h' | h'
                    · exact Or.inl ⟨c, h', rfl⟩
                    · exact Or.inr ⟨c, h', rfl⟩)).2
  rw [hn] at this
  have h2 : ((c : Int)) < ((n * n : Nat) : Int) := by rw [Int.pow_succ, Int.pow_succ, Int.pow_zero, Int.one_mul] at this; exact_mod_cast this
  exact_mod_cast h2

-- non-vacuity: concrete values are in the supports, values at the excluded end / repeated cells are not
example : inSupport (drawOf "knapsack.RandomGenerator.weights_values") (fun _ => 2) (.r2 [[0, 1/2], [1/3, 3/4]]) := by decide +kernel
example : ¬ inSupport (drawOf "knapsack.RandomGenerator.weights_values") (fun _ => 2) (.r2 [[0, 1/2], [1/3, 1]]) := by decide +kernel
example : inSupport (drawOf "tsp.UniformGenerator.coordinates") (fun _ => 2) (.r2 [[0, 1/2], [1/3, 3/4]]) := by decide +kernel
example : ¬ inSupport (drawOf "tsp.UniformGenerator.coordinates") (fun _ => 2) (.r2 [[0, 1/2], [1/3, 1]]) := by decide +kernel
example : inSupport (drawOf "graph_coloring.RandomGenerator.p_matrix") (fun _ => 2) (.r2 [[0, 1/2], [1/3, 3/4]]) := by decide +kernel
example : inSupport (drawOf "job_shop.RandomGenerator.ops_machine_ids") (fun _ => 2) (.i2 [[0, 1], [1, 0]]) := by decide +kernel
example : ¬ inSupport (drawOf "job_shop.RandomGenerator.ops_machine_ids") (fun _ => 2) (.i2 [[0, 2], [1, 0]]) := by decide +kernel
example : inSupport (drawOf "job_shop.RandomGenerator.ops_durations") (fun _ => 2) (.i2 [[1, 2], [2, 1]]) := by decide +kernel
example : ¬ inSupport (drawOf "job_shop.RandomGenerator.ops_durations") (fun _ => 2) (.i2 [[1, 3], [2, 1]]) := by decide +kernel
example : inSupport (drawOf "job_shop.RandomGenerator.num_ops_per_job") (fun _ => 2) (.i1 [1, 2]) := by decide +kernel
example : ¬ inSupport (drawOf "job_shop.RandomGenerator.num_ops_per_job") (fun _ => 2) (.i1 [0, 2]) := by decide +kernel
example : inSupport (drawOf "minesweeper.create_flat_mine_locations.return") (fun _ => 3) (.i1 [0, 8, 3]) := by decide +kernel
example : ¬ inSupport (drawOf "minesweeper.create_flat_mine_locations.return") (fun _ => 3) (.i1 [0, 0, 3]) := by decide +kernel
example : ¬ inSupport (drawOf "minesweeper.create_flat_mine_locations.return") (fun _ => 3) (.i1 [0, 9, 3]) := by decide +kernel
example : inSupport (drawOf "tetris.sample_tetromino_list.tetromino_index") (fun _ => 7) (.i0 6) := by decide +kernel
example : ¬ inSupport (drawOf "tetris.sample_tetromino_list.tetromino_index") (fun _ => 7) (.i0 7) := by decide +kernel
example : inSupportE (drawOf "snake.Snake.fruit_index") (snakeEnv (fun _ => 2) [[true, false], [false, false]]) (.i0 1) := by decide +kernel
example : ¬ inSupportE (drawOf "snake.Snake.fruit_index") (snakeEnv (fun _ => 2) [[true, false], [false, false]]) (.i0 0) := by decide +kernel
example : inSupport (drawOf "snake.Snake.head_coordinates") (fun n => if n = "num_rows" then 2 else 3) (.i1 [1, 2]) := by decide +kernel
example : ¬ inSupport (drawOf "snake.Snake.head_coordinates") (fun n => if n = "num_rows" then 2 else 3) (.i1 [2, 0]) := by decide +kernel
example : inSupport (drawOf "mmst.MMST.agent_permutation") (fun _ => 3) (.i1 [2, 0, 1]) := by decide +kernel
example : ¬ inSupport (drawOf "mmst.MMST.agent_permutation") (fun _ => 3) (.i1 [0, 0, 1]) := by decide +kernel
example : inSupport (drawOf "lbf.RandomGenerator.sample_levels.return") (fun _ => 2) (.i1 [1, 2]) := by decide +kernel
example : ¬ inSupport (drawOf "lbf.RandomGenerator.sample_levels.return") (fun _ => 2) (.i1 [3]) := by decide +kernel
example : inSupport (drawOf "game_2048.Game2048.cell_value") (fun _ => 0) (.i0 2) := by decide +kernel
example : ¬ inSupport (drawOf "game_2048.Game2048.cell_value") (fun _ => 0) (.i0 3) := by decide +kernel
example : inSupport (drawOf "connector.UniformRandomGenerator.starts_flat_targets_flat") (fun _ => 2) (.i2 [[0, 1], [2, 3]]) := by decide +kernel
example : ¬ inSupport (drawOf "connector.UniformRandomGenerator.starts_flat_targets_flat") (fun _ => 2) (.i2 [[0, 1], [1, 3]]) := by decide +kernel
-- an entry that does not exist, or a call the translator could not read, gives NO information: nothing can be derived from it
example : inSupport (drawOf "no.such.entry") (fun _ => 0) (.i0 12345) := by decide +kernel

end Props.C10
