/-
C11 / C01 at EPISODE level for the L1 environment models: the generic theorems of
`Core/EpisodeLemmas.lean` (induction over action lists of an abstract step system) instantiated with each
environment's L1 `step`, its step counter and the single-step facts proved in `Props/Env/*.lean`
(`*_last_iff`, `*_step_count`, `*_time_limit`).

Reading guide.  `Ep.rollout (E.step cfg) s as` is the list of `(successor state, emitted timestep)` obtained by
iterating the L1 `step` of environment `E` from state `s` over the action list `as` (no stop at LAST: the
library allows stepping on).  `Ep.firstLastTS` of the emitted timesteps is the 1-based index of the first LAST
timestep — exactly what `harness/props/c11.py` measures on the real environments.
For every class with a `time_limit` (comparison `>=`, `Props.C11.table_ok`), every start state with step
counter 0 (every `reset` state), every positive limit `T` and EVERY action list of length ≥ T:
* `E_rollout_ends_by_limit`: the first LAST exists and has index `k` with `0 < k ≤ T` (never later);
* `E_rollout_ends_exactly_at_limit` (where `E_last_iff` is an equivalence): if no other cause of termination
  holds at any step before `T`, then `k = T` (never earlier);
* `Props.C01.E_rollout_count_within_limit`: the step counter of every state — and, where the observation shows
  it, of every emitted observation — up to and including the first LAST timestep is its index, within `[0, T]`.
Draws (Tetris piece, Snake fruit, PacMan ghost moves, …) are part of the action type: the theorems hold for all draws.
-/
import JumanjiModel.Core.EpisodeLemmas
import JumanjiModel.Props.Env.Maze
import JumanjiModel.Props.Env.Cleaner
import JumanjiModel.Props.Env.Connector
import JumanjiModel.Env.Connector.PlanEpisodeLemmas
import JumanjiModel.Props.Env.LBF
import JumanjiModel.Props.Env.FlatPack
import JumanjiModel.Props.Env.Tetris
import JumanjiModel.Props.Env.RubiksCube
import JumanjiModel.Props.Env.SlidingTilePuzzle
import JumanjiModel.Props.Env.MMST
import JumanjiModel.Props.Env.Snake
import JumanjiModel.Props.Env.Sokoban
import JumanjiModel.Props.Env.PacMan
import JumanjiModel.Props.Env.RobotWarehouse
open Jm Ep

/-! ## the step systems -/
namespace Props.C11

/-- Maze: actions `Int`, counter `step_count`, invariant: the walls have the configured shape -/
abbrev mazeSys (cfg : Maze.Cfg) : Sys Maze.State Int := ofStep (Maze.step cfg) (·.stepCount)
def mazeInv (cfg : Maze.Cfg) (s : Maze.State) : Prop := Jx.Grid.shaped s.walls cfg.numRows cfg.numCols = true
/-- the other causes: target reached or no move possible, in the successor state -/
def mazeOther (cfg : Maze.Cfg) (s : Maze.State) (a : Int) : Prop :=
  Maze.atTarget (Maze.step cfg s a).1 ∨ Maze.stuck cfg (Maze.step cfg s a).1

theorem maze_exact (cfg : Maze.Cfg) : Exact (mazeSys cfg) (mazeInv cfg) (mazeOther cfg) .ge cfg.timeLimit :=
  Exact.of_step (fun _ _ h => h) (fun s a _ => maze_step_count cfg s a) (fun s a hi => by
    rw [maze_last_iff cfg s a hi, Maze.endsSpec, maze_step_count]
    unfold mazeOther
    constructor
    · rintro (h | h | h)
      · exact Or.inl (Or.inl h)
      · exact Or.inr h
      · exact Or.inl (Or.inr h)
    · rintro ((h | h) | h)
      · exact Or.inl h
      · exact Or.inr (Or.inr h)
      · exact Or.inr (Or.inl h))

abbrev cleanerSys (cfg : Cleaner.Cfg) : Sys Cleaner.State (List Int) := ofStep (Cleaner.step cfg) (·.stepCount)
/-- the other causes: an invalid component of the joint action, or no dirty tile left -/
def cleanerOther (cfg : Cleaner.Cfg) (s : Cleaner.State) (a : List Int) : Prop :=
  (Cleaner.isActionValid a s.actionMask).all id = false ∨ Cleaner.anyDirty (Cleaner.step cfg s a).1.grid = false

theorem cleaner_exact (cfg : Cleaner.Cfg) :
    Exact (cleanerSys cfg) (fun _ => True) (cleanerOther cfg) .ge cfg.timeLimit :=
  Exact.of_step (fun _ _ h => h) (fun s a _ => cleaner_step_count cfg s a) (fun s a _ => by
    rw [cleaner_last_iff cfg s a]
    unfold cleanerOther
    constructor
    · rintro (h | h | h)
      · exact Or.inl (Or.inl h)
      · exact Or.inl (Or.inr h)
      · exact Or.inr h
    · rintro ((h | h) | h)
      · exact Or.inl h
      · exact Or.inr (Or.inl h)
      · exact Or.inr (Or.inr h))

abbrev connectorSys (cfg : Connector.Cfg) : Sys Connector.State (List Int) :=
  ofStep (Connector.step cfg) (·.stepCount)
/-- the other cause: every agent connected or blocked in the successor state -/
def connectorOther (cfg : Connector.Cfg) (s : Connector.State) (acts : List Int) : Prop :=
  (List.zipWith Connector.connectedOrBlocked (Connector.step cfg s acts).1.agents
    (Connector.actionMask (Connector.step cfg s acts).1.grid (Connector.step cfg s acts).1.agents)).all id = true

theorem connector_exact (cfg : Connector.Cfg) :
    Exact (connectorSys cfg) (fun _ => True) (connectorOther cfg) .ge cfg.timeLimit :=
  Exact.of_step (fun _ _ h => h) (fun s a _ => connector_step_count cfg s a) (fun s a _ => by
    rw [connector_last_iff cfg s a, connector_step_count]; exact Iff.rfl)

abbrev lbfSys (cfg : LBF.Cfg) : Sys LBF.State (List Int) := ofStep (LBF.step cfg) (·.stepCount)
/-- the other cause: all food eaten in the successor state -/
def lbfOther (cfg : LBF.Cfg) (s : LBF.State) (a : List Int) : Prop :=
  (LBF.step cfg s a).1.foods.all (fun f => f.eaten) = true

theorem lbf_exact (cfg : LBF.Cfg) : Exact (lbfSys cfg) (fun _ => True) (lbfOther cfg) .ge cfg.timeLimit :=
  Exact.of_step (fun _ _ h => h) (fun s a _ => lbf_step_count cfg s a) (fun s a _ => by
    rw [lbf_last_iff cfg s a, lbf_step_count]; exact Iff.rfl)

/-- FlatPack has no `time_limit`; its structural horizon is the number of blocks, which `step` never changes
(invariant `numBlocks = N`), and nothing else ends an episode -/
abbrev flatpackSys (rnd : Rat → Rat) (cfg : FlatPack.Cfg) : Sys FlatPack.State FlatPack.Action :=
  ofStep (FlatPack.step rnd cfg) (fun s => (s.stepCount : Int))

theorem flatpack_exact (rnd : Rat → Rat) (cfg : FlatPack.Cfg) (N : Nat) :
    Exact (flatpackSys rnd cfg) (fun s => s.numBlocks = N) (fun _ _ => False) .ge (N : Int) :=
  Exact.of_step (fun s a h => by rw [(flatpack_step_count rnd cfg s a).2]; exact h)
    (fun s a _ => by rw [(flatpack_step_count rnd cfg s a).1]; omega)
    (fun s a hi => by
      rw [flatpack_last_iff rnd cfg s a, hi]
      constructor
      · intro h; right; omega
      · rintro (h | h)
        · exact h.elim
        · omega)

/-- Tetris: an action is (rotation, column) plus the draw of the next piece -/
abbrev tetrisStep (cfg : Tetris.Cfg) (s : Tetris.State) (a : Int × Int × Nat) := Tetris.step cfg s a.1 a.2.1 a.2.2
abbrev tetrisSys (cfg : Tetris.Cfg) : Sys Tetris.State (Int × Int × Nat) :=
  ofStep (tetrisStep cfg) (fun s => (s.stepCount : Int))
/-- the other causes: an invalid placement, or no valid placement left for the next piece -/
def tetrisOther (cfg : Tetris.Cfg) (s : Tetris.State) (a : Int × Int × Nat) : Prop :=
  Tetris.isValid s a.1 a.2.1 = false ∨ (tetrisStep cfg s a).1.actionMask.any (fun r => r.any id) = false

theorem tetris_exact (cfg : Tetris.Cfg) :
    Exact (tetrisSys cfg) (fun _ => True) (tetrisOther cfg) .ge (cfg.timeLimit : Int) :=
  Exact.of_step (fun _ _ h => h)
    (fun s a _ => by show ((Tetris.step cfg s a.1 a.2.1 a.2.2).1.stepCount : Int) = _; rw [tetris_step_count]; omega)
    (fun s a _ => by
      show (Tetris.step cfg s a.1 a.2.1 a.2.2).2.stepType = .last ↔ _
      rw [tetris_last_iff cfg s a.1 a.2.1 a.2.2, tetris_step_count]
      unfold tetrisOther tetrisStep
      constructor
      · rintro (h | h | h)
        · exact Or.inl (Or.inl h)
        · exact Or.inl (Or.inr h)
        · right; omega
      · rintro ((h | h) | h)
        · exact Or.inl h
        · exact Or.inr (Or.inl h)
        · right; right; omega)

abbrev rubikSys (cfg : RubiksCube.Cfg) : Sys RubiksCube.State (Int × Int × Int) :=
  ofStep (RubiksCube.step cfg) (·.stepCount)
/-- the other cause: the cube is solved after the move -/
def rubikOther (cfg : RubiksCube.Cfg) (s : RubiksCube.State) (a : Int × Int × Int) : Prop :=
  RubiksCube.isSolved (RubiksCube.step cfg s a).1.cube = true

theorem rubik_exact (cfg : RubiksCube.Cfg) :
    Exact (rubikSys cfg) (fun _ => True) (rubikOther cfg) .ge cfg.timeLimit :=
  Exact.of_step (fun _ _ h => h) (fun s a _ => rubik_step_count cfg s a) (fun s a _ => by
    rw [rubik_last_iff cfg s a, rubik_step_count]; exact Or.comm)

abbrev slidingSys (cfg : SlidingTilePuzzle.Cfg) : Sys SlidingTilePuzzle.State Int :=
  ofStep (SlidingTilePuzzle.step cfg) (·.stepCount)
/-- the other cause: the board is the goal board after the move -/
def slidingOther (cfg : SlidingTilePuzzle.Cfg) (s : SlidingTilePuzzle.State) (a : Int) : Prop :=
  (SlidingTilePuzzle.step cfg s a).1.puzzle = SlidingTilePuzzle.goal cfg.n

theorem sliding_exact (cfg : SlidingTilePuzzle.Cfg) :
    Exact (slidingSys cfg) (fun _ => True) (slidingOther cfg) .ge cfg.timeLimit :=
  Exact.of_step (fun _ _ h => h) (fun s a _ => sliding_step_count cfg s a) (fun s a _ => by
    rw [sliding_last_iff cfg s a, sliding_step_count]; exact Iff.rfl)

/-- MMST: an action is the joint action plus the permutation drawn for conflict resolution -/
abbrev mmstStep (cfg : MMST.Cfg) (s : MMST.State) (a : List Int × List Nat) := MMST.step cfg s a.1 a.2
abbrev mmstSys (cfg : MMST.Cfg) : Sys MMST.State (List Int × List Nat) := ofStep (mmstStep cfg) (·.stepCount)
/-- the other cause: every agent has finished in the successor state -/
def mmstOther (cfg : MMST.Cfg) (s : MMST.State) (a : List Int × List Nat) : Prop :=
  (mmstStep cfg s a).1.finished.all id = true

theorem mmst_exact (cfg : MMST.Cfg) :
    Exact (mmstSys cfg) (fun _ => True) (mmstOther cfg) .ge (cfg.timeLimit : Int) :=
  Exact.of_step (fun _ _ h => h) (fun s a _ => mmst_step_count cfg s a.1 a.2)
    (fun s a _ => MMST.step_last_iff cfg s a.1 a.2)

/-! One direction only is proved for the single step of Snake, Sokoban, PacMan and RobotWarehouse
(`*_step_count` / `*_time_limit`: reaching the limit forces LAST); their episodes end BY the limit. -/

abbrev snakeStep (rnd : Rat → Rat) (cfg : Snake.Cfg) (s : Snake.State) (a : Int × Nat) := Snake.step rnd cfg s a.1 a.2
abbrev snakeSys (rnd : Rat → Rat) (cfg : Snake.Cfg) : Sys Snake.State (Int × Nat) :=
  ofStep (snakeStep rnd cfg) (·.stepCount)
theorem snake_limited (rnd : Rat → Rat) (cfg : Snake.Cfg) :
    Limited (snakeSys rnd cfg) (fun _ => True) .ge cfg.timeLimit :=
  Limited.of_step (fun _ _ h => h) (fun s a _ => (snake_step_count rnd cfg s a.1 a.2).1)
    (fun s a _ h => (snake_step_count rnd cfg s a.1 a.2).2 h)

abbrev sokobanSys (rnd : Rat → Rat) (cfg : Sokoban.Cfg) : Sys Sokoban.State Int :=
  ofStep (Sokoban.step rnd cfg) (·.stepCount)
theorem sokoban_limited (rnd : Rat → Rat) (cfg : Sokoban.Cfg) :
    Limited (sokobanSys rnd cfg) (fun _ => True) .ge cfg.timeLimit :=
  Limited.of_step (fun _ _ h => h) (fun s a _ => (sokoban_step_count rnd cfg s a).1)
    (fun s a _ h => (sokoban_step_count rnd cfg s a).2 h)

abbrev pacmanStep (tl : Int) (s : PacMan.State) (a : Int × PacMan.Draw) := PacMan.step tl s a.1 a.2
abbrev pacmanSys (tl : Int) : Sys PacMan.State (Int × PacMan.Draw) := ofStep (pacmanStep tl) (·.stepCount)
theorem pacman_limited (tl : Int) : Limited (pacmanSys tl) (fun _ => True) .ge tl :=
  Limited.of_step (fun _ _ h => h) (fun s a _ => (pacman_time_limit tl s a.1 a.2).1)
    (fun s a _ h => (pacman_time_limit tl s a.1 a.2).2 h)

abbrev rwareStep (cfg : RobotWarehouse.Cfg) (s : RobotWarehouse.State) (a : List Int × List Int) :=
  RobotWarehouse.step cfg s a.1 a.2
abbrev rwareSys (cfg : RobotWarehouse.Cfg) : Sys RobotWarehouse.State (List Int × List Int) :=
  ofStep (rwareStep cfg) (·.stepCount)
theorem rware_limited (cfg : RobotWarehouse.Cfg) : Limited (rwareSys cfg) (fun _ => True) .ge cfg.timeLimit :=
  Limited.of_step (fun _ _ h => h) (fun s a _ => (rware_time_limit cfg s a.1 a.2).1)
    (fun s a _ h => (rware_time_limit cfg s a.1 a.2).2 h)

/-! ## never later: the first LAST timestep of the rollout has index `0 < k ≤ T` -/

theorem maze_rollout_ends_by_limit (cfg : Maze.Cfg) (hT : 0 < cfg.timeLimit) (s : Maze.State)
    (hs : Jx.Grid.shaped s.walls cfg.numRows cfg.numCols = true) (h0 : s.stepCount = 0)
    (as : List Int) (hlen : cfg.timeLimit ≤ as.length) :
    ∃ k, firstLastTS ((rollout (Maze.step cfg) s as).map (·.2)) = some k ∧ 0 < k ∧ (k : Int) ≤ cfg.timeLimit :=
  rollout_ends_by_limit (maze_exact cfg).toLimited hT s hs h0 as hlen

theorem cleaner_rollout_ends_by_limit (cfg : Cleaner.Cfg) (hT : 0 < cfg.timeLimit) (s : Cleaner.State)
    (h0 : s.stepCount = 0) (as : List (List Int)) (hlen : cfg.timeLimit ≤ as.length) :
    ∃ k, firstLastTS ((rollout (Cleaner.step cfg) s as).map (·.2)) = some k ∧ 0 < k ∧ (k : Int) ≤ cfg.timeLimit :=
  rollout_ends_by_limit (cleaner_exact cfg).toLimited hT s trivial h0 as hlen

theorem connector_rollout_ends_by_limit (cfg : Connector.Cfg) (hT : 0 < cfg.timeLimit) (s : Connector.State)
    (h0 : s.stepCount = 0) (as : List (List Int)) (hlen : cfg.timeLimit ≤ as.length) :
    ∃ k, firstLastTS ((rollout (Connector.step cfg) s as).map (·.2)) = some k ∧ 0 < k ∧ (k : Int) ≤ cfg.timeLimit :=
  rollout_ends_by_limit (connector_exact cfg).toLimited hT s trivial h0 as hlen

theorem lbf_rollout_ends_by_limit (cfg : LBF.Cfg) (hT : 0 < cfg.timeLimit) (s : LBF.State)
    (h0 : s.stepCount = 0) (as : List (List Int)) (hlen : cfg.timeLimit ≤ as.length) :
    ∃ k, firstLastTS ((rollout (LBF.step cfg) s as).map (·.2)) = some k ∧ 0 < k ∧ (k : Int) ≤ cfg.timeLimit :=
  rollout_ends_by_limit (lbf_exact cfg).toLimited hT s trivial h0 as hlen

theorem tetris_rollout_ends_by_limit (cfg : Tetris.Cfg) (hT : 0 < cfg.timeLimit) (s : Tetris.State)
    (h0 : s.stepCount = 0) (as : List (Int × Int × Nat)) (hlen : cfg.timeLimit ≤ as.length) :
    ∃ k, firstLastTS ((rollout (tetrisStep cfg) s as).map (·.2)) = some k ∧ 0 < k ∧ k ≤ cfg.timeLimit := by
  obtain ⟨k, h1, h2, h3⟩ := rollout_ends_by_limit (tetris_exact cfg).toLimited (by omega) s trivial
    (by simp [h0]) as (by omega)
  exact ⟨k, h1, h2, by omega⟩

theorem rubik_rollout_ends_by_limit (cfg : RubiksCube.Cfg) (hT : 0 < cfg.timeLimit) (s : RubiksCube.State)
    (h0 : s.stepCount = 0) (as : List (Int × Int × Int)) (hlen : cfg.timeLimit ≤ as.length) :
    ∃ k, firstLastTS ((rollout (RubiksCube.step cfg) s as).map (·.2)) = some k ∧ 0 < k ∧ (k : Int) ≤ cfg.timeLimit :=
  rollout_ends_by_limit (rubik_exact cfg).toLimited hT s trivial h0 as hlen

theorem sliding_rollout_ends_by_limit (cfg : SlidingTilePuzzle.Cfg) (hT : 0 < cfg.timeLimit)
    (s : SlidingTilePuzzle.State) (h0 : s.stepCount = 0) (as : List Int) (hlen : cfg.timeLimit ≤ as.length) :
    ∃ k, firstLastTS ((rollout (SlidingTilePuzzle.step cfg) s as).map (·.2)) = some k ∧ 0 < k ∧
      (k : Int) ≤ cfg.timeLimit :=
  rollout_ends_by_limit (sliding_exact cfg).toLimited hT s trivial h0 as hlen

theorem mmst_rollout_ends_by_limit (cfg : MMST.Cfg) (hT : 0 < cfg.timeLimit) (s : MMST.State)
    (h0 : s.stepCount = 0) (as : List (List Int × List Nat)) (hlen : cfg.timeLimit ≤ as.length) :
    ∃ k, firstLastTS ((rollout (mmstStep cfg) s as).map (·.2)) = some k ∧ 0 < k ∧ k ≤ cfg.timeLimit := by
  obtain ⟨k, h1, h2, h3⟩ := rollout_ends_by_limit (mmst_exact cfg).toLimited (by omega) s trivial h0 as (by omega)
  exact ⟨k, h1, h2, by omega⟩

theorem snake_rollout_ends_by_limit (rnd : Rat → Rat) (cfg : Snake.Cfg) (hT : 0 < cfg.timeLimit) (s : Snake.State)
    (h0 : s.stepCount = 0) (as : List (Int × Nat)) (hlen : cfg.timeLimit ≤ as.length) :
    ∃ k, firstLastTS ((rollout (snakeStep rnd cfg) s as).map (·.2)) = some k ∧ 0 < k ∧ (k : Int) ≤ cfg.timeLimit :=
  rollout_ends_by_limit (snake_limited rnd cfg) hT s trivial h0 as hlen

theorem sokoban_rollout_ends_by_limit (rnd : Rat → Rat) (cfg : Sokoban.Cfg) (hT : 0 < cfg.timeLimit)
    (s : Sokoban.State) (h0 : s.stepCount = 0) (as : List Int) (hlen : cfg.timeLimit ≤ as.length) :
    ∃ k, firstLastTS ((rollout (Sokoban.step rnd cfg) s as).map (·.2)) = some k ∧ 0 < k ∧ (k : Int) ≤ cfg.timeLimit :=
  rollout_ends_by_limit (sokoban_limited rnd cfg) hT s trivial h0 as hlen

theorem pacman_rollout_ends_by_limit (tl : Int) (hT : 0 < tl) (s : PacMan.State)
    (h0 : s.stepCount = 0) (as : List (Int × PacMan.Draw)) (hlen : tl ≤ as.length) :
    ∃ k, firstLastTS ((rollout (pacmanStep tl) s as).map (·.2)) = some k ∧ 0 < k ∧ (k : Int) ≤ tl :=
  rollout_ends_by_limit (pacman_limited tl) hT s trivial h0 as hlen

theorem rware_rollout_ends_by_limit (cfg : RobotWarehouse.Cfg) (hT : 0 < cfg.timeLimit) (s : RobotWarehouse.State)
    (h0 : s.stepCount = 0) (as : List (List Int × List Int)) (hlen : cfg.timeLimit ≤ as.length) :
    ∃ k, firstLastTS ((rollout (rwareStep cfg) s as).map (·.2)) = some k ∧ 0 < k ∧ (k : Int) ≤ cfg.timeLimit :=
  rollout_ends_by_limit (rware_limited cfg) hT s trivial h0 as hlen

/-- FlatPack (structural horizon): EVERY episode ends exactly at step `num_blocks`, whatever is played -/
theorem flatpack_rollout_ends_exactly_at_num_blocks (rnd : Rat → Rat) (cfg : FlatPack.Cfg) (s : FlatPack.State)
    (hT : 0 < s.numBlocks) (h0 : s.stepCount = 0) (as : List FlatPack.Action) (hlen : s.numBlocks ≤ as.length) :
    firstLastTS ((rollout (FlatPack.step rnd cfg) s as).map (·.2)) = some s.numBlocks := by
  have := rollout_ends_exactly_at_limit (flatpack_exact rnd cfg s.numBlocks) (by omega) s rfl (by simp [h0]) as
    (by omega) (fun _ _ _ _ h => h)
  simpa using this

/-! ## never earlier: without another cause before step `T`, the first LAST timestep is number `T` exactly -/

theorem maze_rollout_ends_exactly_at_limit (cfg : Maze.Cfg) (hT : 0 < cfg.timeLimit) (s : Maze.State)
    (hs : Jx.Grid.shaped s.walls cfg.numRows cfg.numCols = true) (h0 : s.stepCount = 0)
    (as : List Int) (hlen : cfg.timeLimit ≤ as.length)
    (hno : ∀ (j : Nat) (a : Int), (j : Int) + 1 < cfg.timeLimit → as[j]? = some a →
      ¬ mazeOther cfg ((mazeSys cfg).stateAt s as j) a) :
    firstLastTS ((rollout (Maze.step cfg) s as).map (·.2)) = some cfg.timeLimit.toNat :=
  rollout_ends_exactly_at_limit (maze_exact cfg) hT s hs h0 as hlen hno

theorem cleaner_rollout_ends_exactly_at_limit (cfg : Cleaner.Cfg) (hT : 0 < cfg.timeLimit) (s : Cleaner.State)
    (h0 : s.stepCount = 0) (as : List (List Int)) (hlen : cfg.timeLimit ≤ as.length)
    (hno : ∀ (j : Nat) (a : List Int), (j : Int) + 1 < cfg.timeLimit → as[j]? = some a →
      ¬ cleanerOther cfg ((cleanerSys cfg).stateAt s as j) a) :
    firstLastTS ((rollout (Cleaner.step cfg) s as).map (·.2)) = some cfg.timeLimit.toNat :=
  rollout_ends_exactly_at_limit (cleaner_exact cfg) hT s trivial h0 as hlen hno

theorem connector_rollout_ends_exactly_at_limit (cfg : Connector.Cfg) (hT : 0 < cfg.timeLimit) (s : Connector.State)
    (h0 : s.stepCount = 0) (as : List (List Int)) (hlen : cfg.timeLimit ≤ as.length)
    (hno : ∀ (j : Nat) (a : List Int), (j : Int) + 1 < cfg.timeLimit → as[j]? = some a →
      ¬ connectorOther cfg ((connectorSys cfg).stateAt s as j) a) :
    firstLastTS ((rollout (Connector.step cfg) s as).map (·.2)) = some cfg.timeLimit.toNat :=
  rollout_ends_exactly_at_limit (connector_exact cfg) hT s trivial h0 as hlen hno

theorem lbf_rollout_ends_exactly_at_limit (cfg : LBF.Cfg) (hT : 0 < cfg.timeLimit) (s : LBF.State)
    (h0 : s.stepCount = 0) (as : List (List Int)) (hlen : cfg.timeLimit ≤ as.length)
    (hno : ∀ (j : Nat) (a : List Int), (j : Int) + 1 < cfg.timeLimit → as[j]? = some a →
      ¬ lbfOther cfg ((lbfSys cfg).stateAt s as j) a) :
    firstLastTS ((rollout (LBF.step cfg) s as).map (·.2)) = some cfg.timeLimit.toNat :=
  rollout_ends_exactly_at_limit (lbf_exact cfg) hT s trivial h0 as hlen hno

theorem tetris_rollout_ends_exactly_at_limit (cfg : Tetris.Cfg) (hT : 0 < cfg.timeLimit) (s : Tetris.State)
    (h0 : s.stepCount = 0) (as : List (Int × Int × Nat)) (hlen : cfg.timeLimit ≤ as.length)
    (hno : ∀ (j : Nat) (a : Int × Int × Nat), j + 1 < cfg.timeLimit → as[j]? = some a →
      ¬ tetrisOther cfg ((tetrisSys cfg).stateAt s as j) a) :
    firstLastTS ((rollout (tetrisStep cfg) s as).map (·.2)) = some cfg.timeLimit := by
  have := rollout_ends_exactly_at_limit (tetris_exact cfg) (by omega) s trivial (by simp [h0]) as (by omega)
    (fun j a hj => hno j a (by omega))
  simpa using this

theorem rubik_rollout_ends_exactly_at_limit (cfg : RubiksCube.Cfg) (hT : 0 < cfg.timeLimit) (s : RubiksCube.State)
    (h0 : s.stepCount = 0) (as : List (Int × Int × Int)) (hlen : cfg.timeLimit ≤ as.length)
    (hno : ∀ (j : Nat) (a : Int × Int × Int), (j : Int) + 1 < cfg.timeLimit → as[j]? = some a →
      ¬ rubikOther cfg ((rubikSys cfg).stateAt s as j) a) :
    firstLastTS ((rollout (RubiksCube.step cfg) s as).map (·.2)) = some cfg.timeLimit.toNat :=
  rollout_ends_exactly_at_limit (rubik_exact cfg) hT s trivial h0 as hlen hno

theorem sliding_rollout_ends_exactly_at_limit (cfg : SlidingTilePuzzle.Cfg) (hT : 0 < cfg.timeLimit)
    (s : SlidingTilePuzzle.State) (h0 : s.stepCount = 0) (as : List Int) (hlen : cfg.timeLimit ≤ as.length)
    (hno : ∀ (j : Nat) (a : Int), (j : Int) + 1 < cfg.timeLimit → as[j]? = some a →
      ¬ slidingOther cfg ((slidingSys cfg).stateAt s as j) a) :
    firstLastTS ((rollout (SlidingTilePuzzle.step cfg) s as).map (·.2)) = some cfg.timeLimit.toNat :=
  rollout_ends_exactly_at_limit (sliding_exact cfg) hT s trivial h0 as hlen hno

theorem mmst_rollout_ends_exactly_at_limit (cfg : MMST.Cfg) (hT : 0 < cfg.timeLimit) (s : MMST.State)
    (h0 : s.stepCount = 0) (as : List (List Int × List Nat)) (hlen : cfg.timeLimit ≤ as.length)
    (hno : ∀ (j : Nat) (a : List Int × List Nat), j + 1 < cfg.timeLimit → as[j]? = some a →
      ¬ mmstOther cfg ((mmstSys cfg).stateAt s as j) a) :
    firstLastTS ((rollout (mmstStep cfg) s as).map (·.2)) = some cfg.timeLimit := by
  have := rollout_ends_exactly_at_limit (mmst_exact cfg) (by omega) s trivial h0 as (by omega)
    (fun j a hj => hno j a (by omega))
  simpa using this

/-! ## non-vacuity: concrete instances (the hypotheses are satisfiable, the index is the limit) -/

-- RubiksCube 2×2×2, time limit 3, from a scrambled cube, quarter turns of the same face: not solved before the limit.
-- The theorem applies (all hypotheses discharged, `hno` by evaluating the two steps before the limit) …
example :
    firstLastTS ((rollout (RubiksCube.step { n := 2, timeLimit := 3 }) (RubiksCube.genState 2 [0, 7])
      [(0, 0, 0), (0, 0, 0), (0, 0, 0), (0, 0, 0)]).map (·.2)) = some 3 :=
  rubik_rollout_ends_exactly_at_limit { n := 2, timeLimit := 3 } (by decide) (RubiksCube.genState 2 [0, 7]) rfl
    [(0, 0, 0), (0, 0, 0), (0, 0, 0), (0, 0, 0)] (by decide)
    (fun j a hj ha => by
      match j, hj, ha with
      | 0, _, ha => simp at ha; subst ha; unfold rubikOther; decide +kernel
      | 1, _, ha => simp at ha; subst ha; unfold rubikOther; decide +kernel
      | (n + 2), hj, _ => simp at hj; omega)
-- … and agrees with evaluating the rollout
example :
    let cfg : RubiksCube.Cfg := { n := 2, timeLimit := 3 }
    let s := RubiksCube.genState 2 [0, 7]
    firstLastTS ((rollout (RubiksCube.step cfg) s [(0, 0, 0), (0, 0, 0), (0, 0, 0), (0, 0, 0)]).map (·.2)) = some 3 := by
  decide +kernel
-- (`flatpack_rollout_ends_exactly_at_num_blocks` and the `*_rollout_ends_by_limit` / `*_rollout_count_within_limit`
-- theorems have no hypotheses beyond `stepCount = 0`, a positive limit and a long enough action list; Maze also
-- needs the shape of the walls, which every generated maze has.)

end Props.C11

/-! ## C01: the step counter stays within `[0, T]` up to and including the terminal timestep -/
namespace Props.C01
open Props.C11

/-- Maze (the observation carries `step_count`): entry `j` of the rollout, `j < k` = index of the first LAST,
has state counter and observation counter `j + 1 ∈ [0, T]` -/
theorem maze_rollout_count_within_limit (cfg : Maze.Cfg) (hT : 0 < cfg.timeLimit) (s : Maze.State)
    (hs : Jx.Grid.shaped s.walls cfg.numRows cfg.numCols = true) (h0 : s.stepCount = 0)
    (as : List Int) (hlen : cfg.timeLimit ≤ as.length) :
    ∃ k, firstLastTS ((rollout (Maze.step cfg) s as).map (·.2)) = some k ∧
      ∀ j e, j < k → (rollout (Maze.step cfg) s as)[j]? = some e →
        e.2.obs.stepCount = (j : Int) + 1 ∧ 0 ≤ e.2.obs.stepCount ∧ e.2.obs.stepCount ≤ cfg.timeLimit :=
  rollout_obs_count_within_limit (maze_exact cfg).toLimited (·.stepCount)
    (fun s a hi => by rw [Maze.obs_faithful cfg s a hi]; rfl) hT s hs h0 as hlen

theorem cleaner_rollout_count_within_limit (cfg : Cleaner.Cfg) (hT : 0 < cfg.timeLimit) (s : Cleaner.State)
    (h0 : s.stepCount = 0) (as : List (List Int)) (hlen : cfg.timeLimit ≤ as.length) :
    ∃ k, firstLastTS ((rollout (Cleaner.step cfg) s as).map (·.2)) = some k ∧
      ∀ j e, j < k → (rollout (Cleaner.step cfg) s as)[j]? = some e →
        e.2.obs.stepCount = (j : Int) + 1 ∧ 0 ≤ e.2.obs.stepCount ∧ e.2.obs.stepCount ≤ cfg.timeLimit :=
  rollout_obs_count_within_limit (cleaner_exact cfg).toLimited (·.stepCount)
    (fun s a _ => by rw [Cleaner.step_obs cfg s a]; rfl) hT s trivial h0 as hlen

theorem connector_rollout_count_within_limit (cfg : Connector.Cfg) (hT : 0 < cfg.timeLimit) (s : Connector.State)
    (h0 : s.stepCount = 0) (as : List (List Int)) (hlen : cfg.timeLimit ≤ as.length) :
    ∃ k, firstLastTS ((rollout (Connector.step cfg) s as).map (·.2)) = some k ∧
      ∀ j e, j < k → (rollout (Connector.step cfg) s as)[j]? = some e →
        e.2.obs.stepCount = (j : Int) + 1 ∧ 0 ≤ e.2.obs.stepCount ∧ e.2.obs.stepCount ≤ cfg.timeLimit :=
  rollout_obs_count_within_limit (connector_exact cfg).toLimited (·.stepCount)
    (fun s a _ => by rw [Connector.obs_faithful cfg s a]; rfl) hT s trivial h0 as hlen

theorem lbf_rollout_count_within_limit (cfg : LBF.Cfg) (hT : 0 < cfg.timeLimit) (s : LBF.State)
    (h0 : s.stepCount = 0) (as : List (List Int)) (hlen : cfg.timeLimit ≤ as.length) :
    ∃ k, firstLastTS ((rollout (LBF.step cfg) s as).map (·.2)) = some k ∧
      ∀ j e, j < k → (rollout (LBF.step cfg) s as)[j]? = some e →
        e.2.obs.stepCount = (j : Int) + 1 ∧ 0 ≤ e.2.obs.stepCount ∧ e.2.obs.stepCount ≤ cfg.timeLimit :=
  rollout_obs_count_within_limit (lbf_exact cfg).toLimited (·.stepCount)
    (fun s a _ => by rw [LBF.obs_faithful cfg s a]; rfl) hT s trivial h0 as hlen

theorem rubik_rollout_count_within_limit (cfg : RubiksCube.Cfg) (hT : 0 < cfg.timeLimit) (s : RubiksCube.State)
    (h0 : s.stepCount = 0) (as : List (Int × Int × Int)) (hlen : cfg.timeLimit ≤ as.length) :
    ∃ k, firstLastTS ((rollout (RubiksCube.step cfg) s as).map (·.2)) = some k ∧
      ∀ j e, j < k → (rollout (RubiksCube.step cfg) s as)[j]? = some e →
        e.2.obs.stepCount = (j : Int) + 1 ∧ 0 ≤ e.2.obs.stepCount ∧ e.2.obs.stepCount ≤ cfg.timeLimit :=
  rollout_obs_count_within_limit (rubik_exact cfg).toLimited (·.stepCount)
    (fun s a _ => by rw [(Props.C12.rubik_obs_faithful cfg s a).1]; rfl) hT s trivial h0 as hlen

theorem sliding_rollout_count_within_limit (cfg : SlidingTilePuzzle.Cfg) (hT : 0 < cfg.timeLimit)
    (s : SlidingTilePuzzle.State) (h0 : s.stepCount = 0) (as : List Int) (hlen : cfg.timeLimit ≤ as.length) :
    ∃ k, firstLastTS ((rollout (SlidingTilePuzzle.step cfg) s as).map (·.2)) = some k ∧
      ∀ j e, j < k → (rollout (SlidingTilePuzzle.step cfg) s as)[j]? = some e →
        e.2.obs.stepCount = (j : Int) + 1 ∧ 0 ≤ e.2.obs.stepCount ∧ e.2.obs.stepCount ≤ cfg.timeLimit :=
  rollout_obs_count_within_limit (sliding_exact cfg).toLimited (·.stepCount)
    (fun s a _ => by rw [Props.C12.sliding_obs_faithful cfg s a]; rfl) hT s trivial h0 as hlen

theorem mmst_rollout_count_within_limit (cfg : MMST.Cfg) (hT : 0 < cfg.timeLimit) (s : MMST.State)
    (h0 : s.stepCount = 0) (as : List (List Int × List Nat)) (hlen : cfg.timeLimit ≤ as.length) :
    ∃ k, firstLastTS ((rollout (mmstStep cfg) s as).map (·.2)) = some k ∧
      ∀ j e, j < k → (rollout (mmstStep cfg) s as)[j]? = some e →
        e.2.obs.stepCount = (j : Int) + 1 ∧ 0 ≤ e.2.obs.stepCount ∧ e.2.obs.stepCount ≤ (cfg.timeLimit : Int) :=
  rollout_obs_count_within_limit (mmst_exact cfg).toLimited (·.stepCount)
    (fun s a _ => by show (MMST.step cfg s a.1 a.2).2.obs.stepCount = _; rw [MMST.obs_faithful cfg s a.1 a.2]; rfl)
    (by omega) s trivial h0 as (by omega)

theorem sokoban_rollout_count_within_limit (rnd : Rat → Rat) (cfg : Sokoban.Cfg) (hT : 0 < cfg.timeLimit)
    (s : Sokoban.State) (h0 : s.stepCount = 0) (as : List Int) (hlen : cfg.timeLimit ≤ as.length) :
    ∃ k, firstLastTS ((rollout (Sokoban.step rnd cfg) s as).map (·.2)) = some k ∧
      ∀ j e, j < k → (rollout (Sokoban.step rnd cfg) s as)[j]? = some e →
        e.2.obs.stepCount = (j : Int) + 1 ∧ 0 ≤ e.2.obs.stepCount ∧ e.2.obs.stepCount ≤ cfg.timeLimit :=
  rollout_obs_count_within_limit (sokoban_limited rnd cfg) (·.stepCount)
    (fun s a _ => by rw [Sokoban.obs_faithful rnd cfg s a]; rfl) hT s trivial h0 as hlen

theorem snake_rollout_count_within_limit (rnd : Rat → Rat) (cfg : Snake.Cfg) (hT : 0 < cfg.timeLimit)
    (s : Snake.State) (h0 : s.stepCount = 0) (as : List (Int × Nat)) (hlen : cfg.timeLimit ≤ as.length) :
    ∃ k, firstLastTS ((rollout (snakeStep rnd cfg) s as).map (·.2)) = some k ∧
      ∀ j e, j < k → (rollout (snakeStep rnd cfg) s as)[j]? = some e →
        e.2.obs.stepCount = (j : Int) + 1 ∧ 0 ≤ e.2.obs.stepCount ∧ e.2.obs.stepCount ≤ cfg.timeLimit :=
  rollout_obs_count_within_limit (snake_limited rnd cfg) (·.stepCount)
    (fun s a _ => by show (Snake.step rnd cfg s a.1 a.2).2.obs.stepCount = _; rw [Snake.step_obs rnd cfg s a.1 a.2]; rfl)
    hT s trivial h0 as hlen

/-- Tetris (`step_count` is a `Nat` in the model): the bound that `DiscreteArray(time_limit)` violated and
`BoundedArray(0, time_limit)` satisfies — the counter of the terminal observation IS `time_limit` when nothing
else ends the episode (`tetris_rollout_ends_exactly_at_limit`) -/
theorem tetris_rollout_count_within_limit (cfg : Tetris.Cfg) (hT : 0 < cfg.timeLimit) (s : Tetris.State)
    (h0 : s.stepCount = 0) (as : List (Int × Int × Nat)) (hlen : cfg.timeLimit ≤ as.length) :
    ∃ k, firstLastTS ((rollout (tetrisStep cfg) s as).map (·.2)) = some k ∧
      ∀ j e, j < k → (rollout (tetrisStep cfg) s as)[j]? = some e →
        e.1.stepCount = j + 1 ∧ e.1.stepCount ≤ cfg.timeLimit := by
  obtain ⟨k, hk, hall⟩ := rollout_count_within_limit (tetris_exact cfg).toLimited (by omega) s trivial
    (by simp [h0]) as (by omega)
  refine ⟨k, hk, fun j e hj he => ?_⟩
  obtain ⟨h1, _, h3⟩ := hall j e hj he
  exact ⟨by omega, by omega⟩

theorem pacman_rollout_count_within_limit (tl : Int) (hT : 0 < tl) (s : PacMan.State)
    (h0 : s.stepCount = 0) (as : List (Int × PacMan.Draw)) (hlen : tl ≤ as.length) :
    ∃ k, firstLastTS ((rollout (pacmanStep tl) s as).map (·.2)) = some k ∧
      ∀ j e, j < k → (rollout (pacmanStep tl) s as)[j]? = some e →
        e.1.stepCount = (j : Int) + 1 ∧ 0 ≤ e.1.stepCount ∧ e.1.stepCount ≤ tl :=
  rollout_count_within_limit (pacman_limited tl) hT s trivial h0 as hlen

theorem rware_rollout_count_within_limit (cfg : RobotWarehouse.Cfg) (hT : 0 < cfg.timeLimit)
    (s : RobotWarehouse.State) (h0 : s.stepCount = 0) (as : List (List Int × List Int))
    (hlen : cfg.timeLimit ≤ as.length) :
    ∃ k, firstLastTS ((rollout (rwareStep cfg) s as).map (·.2)) = some k ∧
      ∀ j e, j < k → (rollout (rwareStep cfg) s as)[j]? = some e →
        e.2.obs.stepCount = (j : Int) + 1 ∧ 0 ≤ e.2.obs.stepCount ∧ e.2.obs.stepCount ≤ cfg.timeLimit :=
  rollout_obs_count_within_limit (rware_limited cfg) (·.stepCount)
    (fun s a _ => (Props.C12.rware_obs_copied_partial cfg s a.1 a.2).2.1) hT s trivial h0 as hlen

end Props.C01

/-! ### audit r6 #9 / #4 (Connector): whole-episode composition, and the plan theorems RESPECTING `time_limit` -/

namespace Props.C01
open Connector Sp PzS PkS MaS in
/-- ONE statement for "every observation of every episode, reset to the first LAST inclusive" (audit r6 #9): from any state with the
invariant and counter 0 (every reset state of either generator: `connector_specInv_invariant`), for ANY joint actions of the right
length, with `0 < time_limit`: the reset observation is a member of the declared spec, there IS a first LAST timestep, it comes at
step `k ≤ time_limit`, and the observation of every step up to and including that one is a member -/
theorem connector_episode_obs_valid (cfg : Connector.Cfg) (hn : 0 < cfg.n) (hk : 0 < cfg.k) (hT : 0 < cfg.timeLimit)
    (s0 : Connector.State) (h : SpecInv cfg s0) (h0 : s0.stepCount = 0) (as : List (List Int))
    (has : ∀ a ∈ as, a.length = cfg.k) (hlen : cfg.timeLimit ≤ as.length) :
    (obsSpec cfg).valid (toNValue (resetTs cfg s0).obs) = true ∧
    ∃ k, Ep.firstLastTS ((Ep.rollout (Connector.step cfg) s0 as).map (·.2)) = some k ∧ 0 < k ∧ (k : Int) ≤ cfg.timeLimit ∧
      ∀ j e, j < k → (Ep.rollout (Connector.step cfg) s0 as)[j]? = some e → (obsSpec cfg).valid (toNValue e.2.obs) = true := by
  refine ⟨Connector.reset_obs_valid cfg hn hk (by omega) s0 h h0, ?_⟩
  obtain ⟨k, hk1, hk2, hk3⟩ := Props.C11.connector_rollout_ends_by_limit cfg hT s0 h0 as hlen
  exact ⟨k, hk1, hk2, hk3, fun j e hj he =>
    Connector.rollout_obs_valid cfg hn hk s0 h h0 as has j (by omega) e he⟩
end Props.C01

namespace Props.C10
open Connector

/-- the solving episode of a route plan is a REAL episode when it fits in the limit (audit r6 #4): from a state with counter 0 and a
route plan whose episode `planActs` has `1 ≤ length ≤ time_limit` steps, the FIRST LAST timestep of the rollout of the
implementation model `step` is the final step of the plan — no earlier step ends the episode (neither by completion nor by the
limit), so `finalL1` of `connector_plan_solves` is the state at that LAST timestep -/
theorem connector_plan_first_last (cfg : Cfg) (s0 : State) (routes : List (List Pos))
    (P : Connector.Plan cfg.n cfg.k s0 routes) (h0 : s0.stepCount = 0)
    (hpos : 0 < (planActs cfg.k routes).length)
    (hfit : ((planActs cfg.k routes).length : Int) ≤ cfg.timeLimit) :
    firstLastTS ((rollout (step cfg) s0 (planActs cfg.k routes)).map (·.2)) = some (planActs cfg.k routes).length := by
  rw [firstLast_ofStep (step cfg) (·.stepCount), firstLast_spec]
  have key : ∀ j, j < (planActs cfg.k routes).length →
      ((ofStep (step cfg) (·.stepCount)).lastAt s0 (planActs cfg.k routes) (j + 1) = true ↔
        j + 1 = (planActs cfg.k routes).length) := by
    intro j hj
    have ha : (planActs cfg.k routes)[j]? = some (planActs cfg.k routes)[j] := List.getElem?_eq_getElem hj
    have hs := Connector.traceL1_getElem? cfg (planActs cfg.k routes) s0 j (by omega)
    have hp := (connector_plan_playable cfg s0 routes P j _ _ hs ha).2.2.2.2.2
    have hc := Connector.stateAt_stepCount cfg (planActs cfg.k routes) s0 j (by omega)
    simp only [Sys.lastAt, ha]
    show ((step cfg _ _).2.stepType == .last) = true ↔ _
    rw [beq_iff_eq, hp, hc, h0]
    constructor
    · rintro (h | h)
      · exact h
      · omega
    · exact Or.inl
  refine ⟨hpos, ?_, ?_⟩
  · obtain ⟨m, hm⟩ : ∃ m, (planActs cfg.k routes).length = m + 1 := ⟨_, (Nat.succ_pred_eq_of_pos hpos).symm⟩
    rw [hm]; exact (key m (by omega)).2 hm.symm
  · intro j hj1 hj2
    obtain ⟨m, rfl⟩ : ∃ m, j = m + 1 := ⟨j - 1, by omega⟩
    cases hl : (ofStep (step cfg) (·.stepCount)).lastAt s0 (planActs cfg.k routes) (m + 1) with
    | false => rfl
    | true => have := (key m (by omega)).1 hl; omega

/-- THE GENERATOR'S PROMISE respecting `time_limit`: for every draw of `RandomWalkGenerator` in which no agent is boxed in, if the
solving episode read off the recorded solution fits in the limit, then played on `step` from the emitted reset state its first LAST
timestep is its final step, and the state reached there is a complete solution -/
theorem connector_walk_generated_board_solved_within_limit (cfg : Cfg) (hn : 0 < cfg.n) (hk : 0 < cfg.k)
    (init : List (Int × Int)) (tape : List (List Int)) (hv : validWalkDraw cfg.n cfg.k init tape = true)
    (hnb : ∀ d ∈ init, d.2 ≠ -1)
    (hfit : ((solveActs cfg.n cfg.k (walkGenerate cfg.n cfg.k init tape).2 (walkGenerate cfg.n cfg.k init tape).1).length : Int)
        ≤ cfg.timeLimit)
    (hpos : 0 < (solveActs cfg.n cfg.k (walkGenerate cfg.n cfg.k init tape).2 (walkGenerate cfg.n cfg.k init tape).1).length) :
    Ep.firstLastTS ((Ep.rollout (step cfg) (walkGenerate cfg.n cfg.k init tape).2
      (solveActs cfg.n cfg.k (walkGenerate cfg.n cfg.k init tape).2 (walkGenerate cfg.n cfg.k init tape).1)).map (·.2)) =
      some (solveActs cfg.n cfg.k (walkGenerate cfg.n cfg.k init tape).2 (walkGenerate cfg.n cfg.k init tape).1).length ∧
    solutionB cfg.n cfg.k (finalL1 cfg (walkGenerate cfg.n cfg.k init tape).2
      (solveActs cfg.n cfg.k (walkGenerate cfg.n cfg.k init tape).2 (walkGenerate cfg.n cfg.k init tape).1)) = true := by
  refine ⟨?_, (connector_walk_generated_board_solvable cfg hn hk init tape hv hnb).2⟩
  have P := connector_cert_gives_plan cfg.n cfg.k _ _
    (connector_walk_reset_fresh cfg.n cfg.k hn hk init tape hv hnb)
    (connector_walk_solved_board cfg.n cfg.k hn hk init tape hv hnb)
  unfold solveActs at hfit hpos ⊢
  exact connector_plan_first_last cfg _ _ P rfl hpos hfit

/-- the hypotheses are satisfiable and the bound is sharp: on the certified 3 × 3 board the 4-step solving episode has its first LAST
at step 4 when `time_limit = 4`; with `time_limit = 2` it does not fit (`connector_plan_ignores_time_limit_witness`) -/
example :
    let s : State := ⟨[[2, 0, 3], [0, 0, 0], [5, 0, 6]], 0, [⟨0, (0, 0), (0, 2), (0, 0)⟩, ⟨1, (2, 0), (2, 2), (2, 0)⟩]⟩
    let solved : Jx.Grid Int := [[2, 1, 3], [0, 0, 0], [5, 4, 6]]
    Ep.firstLastTS ((Ep.rollout (step ⟨3, 2, 4, 1, -3/100⟩) s (solveActs 3 2 s solved)).map (·.2)) = some 4 := by decide +kernel
end Props.C10
