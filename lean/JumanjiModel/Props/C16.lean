/- Property C16 — specs form a consistent algebra (all specs, all values). -/
import JumanjiModel.Spec.Lemmas
open Sp

namespace Props.C16

/-- `generate_value()` is accepted by `validate` (every well-formed leaf spec) -/
theorem generate_valid (l : Leaf) (h : l.WF = true) : l.valid l.generate = true := Leaf.generate_valid l h

/-- … and for nested specs -/
theorem nested_generate_valid (s : Nested) (h : ∀ p ∈ s, p.2.WF = true) : s.valid s.generate = true :=
  Nested.generate_valid s h

/-- `validate` accepts exactly the values with the declared shape and dtype whose elements lie
within the inclusive bounds -/
theorem valid_iff (l : Leaf) (v : Arr) : l.valid v = true ↔
    v.shape = l.shape ∧ v.dtype = l.dtype ∧ v.data.length = prod l.shape ∧
    ((l.lower = none ∧ l.upper = none) ∨
     ∃ lo hi, l.lower = some lo ∧ l.upper = some hi ∧
       ∀ k (h1 : k < v.data.length) (h2 : k < (List.zip lo hi).length),
         (List.zip lo hi)[k].1 ≤ v.data[k] ∧ v.data[k] ≤ (List.zip lo hi)[k].2) := Leaf.valid_iff l v

/-- `replace()` without arguments yields the spec itself -/
theorem replace_nil (l : Leaf) (h : l.WF = true) : l.replace [] = some l := Leaf.replace_nil l h
/-- `replace` changes only the named attribute -/
theorem replace_name (l l' : Leaf) (n : String) (h : l.replace [.name n] = some l') :
    l'.name = n ∧ l'.shape = l.shape ∧ l'.dtype = l.dtype ∧ l'.lower = l.lower ∧ l'.upper = l.upper :=
  Leaf.replace_name l l' n h
theorem replace_dtype (l l' : Leaf) (d : DType) (h : l.replace [.dtype d] = some l') :
    l'.dtype = d ∧ l'.shape = l.shape ∧ l'.name = l.name := Leaf.replace_dtype l l' d h
theorem replace_shape (l l' : Leaf) (s : List Nat) (h : l.replace [.shape s] = some l') :
    l'.shape = s ∧ l'.dtype = l.dtype ∧ l'.name = l.name := Leaf.replace_shape l l' s h
/-- the result of `replace` went through the constructor's checks -/
theorem replace_WF (l l' : Leaf) (kws : List Leaf.Kw) (h : l.replace kws = some l') : l'.WF = true :=
  Leaf.replace_WF l l' kws h

/-- equality among specs of the same kind is an equivalence relation … -/
theorem eq_refl (l : Leaf) : l.beq l = true := Leaf.beq_refl l
theorem eq_symm (a b : Leaf) : a.beq b = b.beq a := Leaf.beq_symm a b
theorem eq_trans (a b c : Leaf) (h1 : a.beq b = true) (h2 : b.beq c = true) : a.beq c = true :=
  Leaf.beq_trans a b c h1 h2
/-- … that distinguishes any difference in shape, dtype, name or (effective) bounds … -/
theorem eq_distinguishes (a b : Leaf) (h : a.beq b = true) :
    a.shape = b.shape ∧ a.dtype = b.dtype ∧ a.name = b.name ∧ a.lower = b.lower ∧ a.upper = b.upper :=
  Leaf.beq_attrs a b h
/-- … and in num_values -/
theorem eq_numValues {k d n k' d' n'} (h : (Leaf.discrete k d n).beq (Leaf.discrete k' d' n') = true) : k = k' :=
  Leaf.beq_numValues h
theorem eq_numValuesArr {s nv d n s' nv' d' n'}
    (h : (Leaf.multiDiscrete s nv d n).beq (Leaf.multiDiscrete s' nv' d' n') = true) : nv = nv' :=
  Leaf.beq_numValuesArr h

/-- nested specs are equal exactly when their children are -/
theorem nested_eq_iff_children (a b : Nested) : a.beq b = true ↔
    a.map (·.1) = b.map (·.1) ∧ ∀ k (h1 : k < a.length) (h2 : k < b.length), a[k].2.beq b[k].2 = true :=
  Nested.beq_iff a b
theorem nested_eq_refl (a : Nested) : a.beq a = true := Nested.beq_refl a
theorem nested_eq_symm (a b : Nested) : a.beq b = b.beq a := Nested.beq_symm a b

/-- every value valid for a spec belongs to the gym space converted from it -/
theorem toGym_member (l : Leaf) (hw : l.WF = true) (v : Arr) (h : l.valid v = true) :
    (toGym l).contains v = true := Sp.toGym_member l hw v h

-- non-vacuity
example : (Leaf.bounded [2] .float32 "b" [] [0] [2] [1, 2]).WF = true := by decide +kernel
example : (Leaf.bounded [2] .float32 "b" [] [0] [2] [1, 2]).valid ⟨[2], .float32, [1, 2]⟩ = true := by decide +kernel
example : (Leaf.bounded [2] .float32 "b" [] [0] [2] [1, 2]).valid ⟨[2], .float32, [1, 5/2]⟩ = false := by decide +kernel
end Props.C16
