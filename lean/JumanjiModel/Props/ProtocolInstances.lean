/-
C03 per environment: the L1 `step` of each model ENDS in the combinator the translator recorded for the class
(`Gen.Protocol.table`: `lax.cond(done, termination, transition)` = `Jm.condLast`; Connector with an explicit MID
discount = `Jm.condLastDiscount`), and therefore its timestep satisfies the protocol predicate `Jm.StepOK`
(never FIRST, reward and discount of the declared shape, discount in [0,1], MID ⇒ not all-zero, LAST ⇒ zero) —
for ALL states, reachable or not, hence also for steps taken after LAST, all actions and all draws.
(RubiksCube and SlidingTilePuzzle have their own `rubik_step_protocol` / `sliding_step_protocol` in Props/Env/*.lean.)
Here the reward-length hypothesis `hr` of `Props.C03.entry_protocol` is discharged (the models build the reward
as a one-element list / a per-agent list), and so is the discount hypothesis `hd` for Connector.
-/
import JumanjiModel.Core.ProtocolLemmas
import JumanjiModel.Gen.Protocol
import JumanjiModel.Props.Env.Connector
import JumanjiModel.Env.LBF.Model
import JumanjiModel.Env.Snake.Model
import JumanjiModel.Env.Maze.Model
import JumanjiModel.Env.Knapsack.Model
import JumanjiModel.Env.Game2048.Model
import JumanjiModel.Env.Sudoku.Model
import JumanjiModel.Env.BinPack.Model
import JumanjiModel.Env.CVRP.Model
import JumanjiModel.Env.Cleaner.Model
import JumanjiModel.Env.FlatPack.Model
import JumanjiModel.Env.GraphColoring.Model
import JumanjiModel.Env.JobShop.Model
import JumanjiModel.Env.MMST.Model
import JumanjiModel.Env.Minesweeper.Model
import JumanjiModel.Env.MultiCVRP.Model
import JumanjiModel.Env.PacMan.Model
import JumanjiModel.Env.RobotWarehouse.Model
import JumanjiModel.Env.Sokoban.Model
import JumanjiModel.Env.TSP.Model
import JumanjiModel.Env.Tetris.Model
open Jm Proto

namespace Props.C03
variable {O : Type}

/-- the semantics of the table's plain entry IS `condLast` -/
theorem evalStep_plain (done truncate : Bool) (r : List Rat) (o : O) (disc : List Rat) :
    evalStep (.cond ⟨.termination, false, false⟩ ⟨.transition, false, false⟩) none done truncate r o disc =
      some (condLast done r o) := by
  cases done <;> rfl

/-- the semantics of Connector's entry IS `condLastDiscount` -/
theorem evalStep_connector (k : Nat) (done truncate : Bool) (r : List Rat) (o : O) (disc : List Rat) :
    evalStep (.cond ⟨.termination, true, false⟩ ⟨.transition, true, true⟩) (some k) done truncate r o disc =
      some (condLastDiscount done r o disc (some k)) := by
  cases done <;> rfl

/-- a scalar-reward `lax.cond(done, termination, transition)` obeys the protocol, whatever `done`, the reward
value and the observation are -/
theorem condLast_protocol (done : Bool) (x : Rat) (o : O) : StepOK none false (condLast done [x] o) = true := by
  have := cond_ok (O := O) ⟨.termination, false, false⟩ ⟨.transition, false, false⟩ none (by decide) false (by decide)
    rfl rfl rfl rfl rfl done [x] o [] rfl (fun h => by cases h)
  cases done <;> simpa [evalBranch, condLast] using this

/-- Connector's `lax.cond(done, termination(shape=k), transition(discount=d, shape=k))` obeys the protocol when
reward and discount have length `k`, `d ∈ [0,1]^k` and `d` is not all-zero unless `done` -/
theorem condLastDiscount_protocol (k : Nat) (hk : 0 < k) (done : Bool) (r : List Rat) (o : O) (d : List Rat)
    (hr : r.length = k) (hd : d.length = k) (h01 : allIn01 d = true) (hz : done = false → allZero d = false) :
    StepOK (some k) false (condLastDiscount done r o d (some k)) = true := by
  have := cond_ok (O := O) ⟨.termination, true, false⟩ ⟨.transition, true, true⟩ (some k) hk true (by simp)
    rfl rfl rfl rfl rfl done r o d hr (fun _ => ⟨hd, h01, hz⟩)
  cases done <;> simpa [evalBranch, condLastDiscount] using this

/-- closes `StepOK none false (E.step …).2 = true` for a step that ends in `(s', condLast done [r] o)` -/
macro "step_protocol" : tactic =>
  `(tactic| first
    | exact condLast_protocol _ _ _
    | (split <;> exact condLast_protocol _ _ _)
    | (split <;> split <;> exact condLast_protocol _ _ _))

theorem snake_l1_step_protocol (rnd : Rat → Rat) (cfg : Snake.Cfg) (s : Snake.State) (a : Int) (d : Nat) :
    StepOK none false (Snake.step rnd cfg s a d).2 = true := by unfold Snake.step; step_protocol
theorem maze_l1_step_protocol (cfg : Maze.Cfg) (s : Maze.State) (a : Int) :
    StepOK none false (Maze.step cfg s a).2 = true := by unfold Maze.step; step_protocol
theorem knapsack_l1_step_protocol (rnd : Rat → Rat) (dense : Bool) (s : Knapsack.State) (a : Int) :
    StepOK none false (Knapsack.step rnd dense s a).2 = true := by unfold Knapsack.step; step_protocol
theorem game2048_l1_step_protocol (s : Game2048.State) (a : Int) (d : Game2048.Draw) :
    StepOK none false (Game2048.step s a d).2 = true := by unfold Game2048.step; step_protocol
theorem sudoku_l1_step_protocol (s : Sudoku.State) (r c d : Int) :
    StepOK none false (Sudoku.step s r c d).2 = true := by unfold Sudoku.step; step_protocol
theorem binpack_l1_step_protocol (cfg : BinPack.Cfg) (rnd : Rat → Rat) (s : BinPack.State) (e i : Int) (d : BinPack.EmsDraw) :
    StepOK none false (BinPack.step cfg rnd s e i d).2 = true := by unfold BinPack.step; step_protocol
theorem cvrp_l1_step_protocol (c : CVRP.Cfg) (D : CVRP.Dist) (s : CVRP.State) (a : Nat) :
    StepOK none false (CVRP.step c D s a).2 = true := by unfold CVRP.step; step_protocol
theorem cleaner_l1_step_protocol (cfg : Cleaner.Cfg) (s : Cleaner.State) (a : List Int) :
    StepOK none false (Cleaner.step cfg s a).2 = true := by unfold Cleaner.step; step_protocol
theorem flatpack_l1_step_protocol (rnd : Rat → Rat) (cfg : FlatPack.Cfg) (s : FlatPack.State) (a : FlatPack.Action) :
    StepOK none false (FlatPack.step rnd cfg s a).2 = true := by unfold FlatPack.step; step_protocol
theorem graphcoloring_l1_step_protocol (n : Nat) (s : GraphColoring.State) (a : Int) :
    StepOK none false (GraphColoring.step n s a).2 = true := by unfold GraphColoring.step; step_protocol
theorem jobshop_l1_step_protocol (cfg : JobShop.Cfg) (s : JobShop.State) (a : List Int) :
    StepOK none false (JobShop.step cfg s a).2 = true := by unfold JobShop.step; step_protocol
theorem mmst_l1_step_protocol (cfg : MMST.Cfg) (s : MMST.State) (a : List Int) (p : List Nat) :
    StepOK none false (MMST.step cfg s a p).2 = true := by unfold MMST.step; step_protocol
theorem minesweeper_l1_step_protocol (cfg : Minesweeper.Cfg) (s : Minesweeper.State) (r c : Int) :
    StepOK none false (Minesweeper.step cfg s r c).2 = true := by unfold Minesweeper.step; step_protocol
theorem multicvrp_l1_step_protocol (rnd : Rat → Rat) (c : MultiCVRP.Cfg) (D : MultiCVRP.Dist) (s : MultiCVRP.State) (a : List Nat) :
    StepOK none false (MultiCVRP.step rnd c D s a).2 = true := by unfold MultiCVRP.step; step_protocol
theorem pacman_l1_step_protocol (tl : Int) (s : PacMan.State) (a : Int) (d : PacMan.Draw) :
    StepOK none false (PacMan.step tl s a d).2 = true := by unfold PacMan.step; step_protocol
theorem rware_l1_step_protocol (cfg : RobotWarehouse.Cfg) (s : RobotWarehouse.State) (a d : List Int) :
    StepOK none false (RobotWarehouse.step cfg s a d).2 = true := by unfold RobotWarehouse.step; step_protocol
theorem sokoban_l1_step_protocol (rnd : Rat → Rat) (cfg : Sokoban.Cfg) (s : Sokoban.State) (a : Int) :
    StepOK none false (Sokoban.step rnd cfg s a).2 = true := by unfold Sokoban.step; step_protocol
theorem tsp_l1_step_protocol (n : Nat) (D : TSP.Dist) (pen : Rat) (dense : Bool) (s : TSP.State) (a : Int) :
    StepOK none false (TSP.step n D pen dense s a).2 = true := by unfold TSP.step; step_protocol
theorem tetris_l1_step_protocol (cfg : Tetris.Cfg) (s : Tetris.State) (rot x : Int) (d : Nat) :
    StepOK none false (Tetris.step cfg s rot x d).2 = true := by unfold Tetris.step; step_protocol


/-! ### the two multi-agent classes -/

/-- the semantics of LBF's entry IS `switch3` -/
theorem evalStep_lbf (k : Nat) (terminate truncate : Bool) (r : List Rat) (o : O) (disc : List Rat) :
    evalStep (.switch4 ⟨.transition, true, false⟩ ⟨.termination, true, false⟩ ⟨.truncation, true, false⟩
      ⟨.termination, true, false⟩) (some k) terminate truncate r o disc =
      some (switch3 terminate truncate r o (some k)) := by
  cases terminate <;> cases truncate <;> rfl

theorem switch3_protocol (k : Nat) (hk : 0 < k) (terminate truncate : Bool) (r : List Rat) (o : O)
    (hr : r.length = k) : StepOK (some k) true (switch3 terminate truncate r o (some k)) = true :=
  (switch4_ok (O := O) ⟨.transition, true, false⟩ ⟨.termination, true, false⟩ ⟨.truncation, true, false⟩
    ⟨.termination, true, false⟩ (some k) hk true (by simp) rfl rfl rfl rfl rfl rfl rfl rfl rfl rfl
    terminate truncate r o [] hr _ (evalStep_lbf k terminate truncate r o [])).1

/-- LevelBasedForaging, ALL states with at least one agent, all joint actions: the per-agent reward vector has
one entry per agent (`get_reward` sums over foods into `num_agents` columns), so the timestep obeys the protocol
with documented truncation (`truncOK`) -/
theorem lbf_l1_step_protocol (cfg : LBF.Cfg) (s : LBF.State) (hk : 0 < s.agents.length) (a : List Int) :
    StepOK (some s.agents.length) true (LBF.step cfg s a).2 = true := by
  unfold LBF.step
  exact switch3_protocol _ hk _ _ _ _ (by simp [LBF.getReward, LBF.sumCols])

/-- Connector, ALL states whose agent array has the configured length `k = num_agents > 0` and all joint
actions of that length (the shapes JAX enforces) — reachable or not, also after LAST: the reward vector and the
explicit MID discount vector have length `k`, every discount entry is `1 − done_i ∈ {0, 1}`, and on a MID step
(not every agent done) some entry is 1.  This DISCHARGES the hypotheses `hr` and `hd` of `entry_protocol` for the
Connector entry. -/
theorem connector_l1_step_protocol (cfg : Connector.Cfg) (hk : 0 < cfg.k) (s : Connector.State)
    (hs : s.agents.length = cfg.k) (acts : List Int) (ha : acts.length = cfg.k) :
    StepOK (some cfg.k) false (Connector.step cfg s acts).2 = true := by
  have hlen : (Connector.stepAgents cfg.k s acts).1.length = cfg.k := by
    simp [Connector.stepAgents, Connector.resolve, Connector.stepEach, Connector.agentIds, hs, ha]
  unfold Connector.step Connector.finish
  simp only []
  apply condLastDiscount_protocol cfg.k hk
  · simp [Connector.denseReward, hs, hlen]
  · simp [Connector.actionMask, hlen]
  · simp only [allIn01, List.all_map, List.all_eq_true]
    intro d _
    cases d <;> simp [Connector.b2r] <;> decide +kernel
  · intro hlast
    simp only [Bool.or_eq_false_iff] at hlast
    have h1 := hlast.1
    rw [List.all_eq_false] at h1
    obtain ⟨d, hd, hdf⟩ := h1
    simp only [allZero, List.all_map]
    rw [List.all_eq_false]
    refine ⟨d, hd, ?_⟩
    have : d = false := by simpa using hdf
    subst this
    simp only [Connector.b2r]
    decide +kernel

/-- the same under the name used in the audit -/
theorem connector_step_protocol (cfg : Connector.Cfg) (hk : 0 < cfg.k) (s : Connector.State)
    (hs : s.agents.length = cfg.k) (acts : List Int) (ha : acts.length = cfg.k) :
    StepOK (some cfg.k) false (Connector.step cfg s acts).2 = true := connector_l1_step_protocol cfg hk s hs acts ha

/-- the discount of a Connector step lies in [0,1] — restated from `connector_discount`: all zero on LAST, per
agent `1 − done_i` on MID -/
theorem connector_discount_values (cfg : Connector.Cfg) (s : Connector.State) (acts : List Int) :
    ∀ x ∈ (Connector.step cfg s acts).2.discount, x = 0 ∨ x = 1 := by
  rw [Props.C11.connector_discount]
  split
  · intro x hx; exact Or.inl (List.eq_of_mem_replicate hx)
  · intro x hx
    simp only [List.mem_map] at hx
    obtain ⟨d, _, rfl⟩ := hx
    cases d <;> simp only [Connector.b2r] <;> decide +kernel

-- a concrete Connector instance (3×3 grid, 2 agents, the state of the examples in Props/Env/Connector.lean): the
-- hypotheses hold, the theorem applies, and the MID timestep it talks about is evaluated
example :
    let s : Connector.State := ⟨[[2, 0, 3], [0, 0, 0], [5, 0, 6]], 0, [⟨0, (0, 0), (0, 2), (0, 0)⟩, ⟨1, (2, 0), (2, 2), (2, 0)⟩]⟩
    let cfg : Connector.Cfg := ⟨3, 2, 50, 1, -3/100⟩
    StepOK (some cfg.k) false (Connector.step cfg s [2, 0]).2 = true :=
  connector_l1_step_protocol ⟨3, 2, 50, 1, -3/100⟩ (by decide) _ rfl [2, 0] rfl
example :
    let s : Connector.State := ⟨[[2, 0, 3], [0, 0, 0], [5, 0, 6]], 0, [⟨0, (0, 0), (0, 2), (0, 0)⟩, ⟨1, (2, 0), (2, 2), (2, 0)⟩]⟩
    let cfg : Connector.Cfg := ⟨3, 2, 50, 1, -3/100⟩
    (Connector.step cfg s [2, 0]).2.stepType = .mid ∧ (Connector.step cfg s [2, 0]).2.discount = [1, 1] := by
  decide +kernel

end Props.C03
