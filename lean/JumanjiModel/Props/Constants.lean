/-
The constants the hand-written L1 models use ARE the constants the source defines.

`Gen/Constants.lean` is regenerated on every run from the constants modules of the tree under test
(harness/translators.py, `gen_constants`: the modules are imported and the values emitted as Lean literals).  Each theorem
below states that a table or code of a model (`Env/<Name>/Model.lean`) equals the generated literal; where a model inlines a
value instead of naming it, the theorem states the value the model inlines (the comment names the place).  An edit of a
constant in the source therefore breaks one of these obligations in the kernel, whether or not a sampled run would notice.
-/
import JumanjiModel.Gen.Constants
import JumanjiModel.Env.Cleaner.Model
import JumanjiModel.Env.Maze.Model
import JumanjiModel.Env.Sokoban.Model
import JumanjiModel.Env.SlidingTilePuzzle.Model
import JumanjiModel.Env.LBF.Model
import JumanjiModel.Env.PacMan.Model
import JumanjiModel.Env.Connector.Model
import JumanjiModel.Env.Tetris.Model
import JumanjiModel.Env.Sudoku.Model
import JumanjiModel.Env.Minesweeper.Model
import JumanjiModel.Env.CVRP.Model
import JumanjiModel.Env.MultiCVRP.Model
import JumanjiModel.Env.RubiksCube.Model
import JumanjiModel.Env.Snake.Model

namespace Props.C09
open Gen.Constants

/-- every constant in the translator's table was found in the source with the expected form -/
theorem constants_all_recognised : Gen.Constants.unrecognised = 0 := by decide

/-! ### move tables -/
theorem cleaner_moves_tied : Cleaner.moves = cleaner_MOVES := by decide
theorem maze_moves_tied : Maze.moves = maze_MOVES := by decide
theorem sokoban_moves_tied : Sokoban.moves = sokoban_MOVES := by decide
theorem sliding_moves_tied : SlidingTilePuzzle.MOVES = sliding_MOVES := by decide
theorem lbf_moves_tied : LBF.MOVES = lbf_MOVES := by decide

/-- PacMan: `player_step` switches over the action; the model's `target` is `MOVES[a]` added to the position (in the
`(x, y)` = (first axis, second axis) convention of the model: `MOVES` rows are `(dy, dx)` of the source's `Position`), then
wrapped on the axis that moved (the other coordinate is unchanged: positions are inside the grid).  Stated for every
grid, position and action. -/
theorem pacman_moves_tied (g : PacMan.IGrid) (p : Int × Int) (a : Nat) (ha : a < 5) :
    PacMan.target g p a =
      (let m := pacman_MOVES.getD a (0, 0)
       (if m.2 = 0 then p.1 else (p.1 + m.2) % (PacMan.xSize g : Int),
        if m.1 = 0 then p.2 else (p.2 + m.1) % (PacMan.ySize g : Int))) := by
  have : a = 0 ∨ a = 1 ∨ a = 2 ∨ a = 3 ∨ a = 4 := by omega
  rcases this with h | h | h | h | h <;> subst h <;> simp [PacMan.target, pacman_MOVES, Int.sub_eq_add_neg]

/-! ### cell codes -/
theorem cleaner_codes_tied :
    Cleaner.DIRTY = cleaner_DIRTY ∧ Cleaner.CLEAN = cleaner_CLEAN ∧ Cleaner.WALL = cleaner_WALL := by decide
theorem sokoban_codes_tied :
    Sokoban.EMPTY = sokoban_EMPTY ∧ Sokoban.WALL = sokoban_WALL ∧ Sokoban.TARGET = sokoban_TARGET ∧
    Sokoban.AGENT = sokoban_AGENT ∧ Sokoban.BOX = sokoban_BOX ∧ Sokoban.NOOP = sokoban_NOOP ∧
    (Sokoban.nBoxes : Int) = sokoban_N_BOXES ∧
    -- the combined codes of the observation are sums of the plain ones (used by `observe`)
    sokoban_TARGET_AGENT = sokoban_TARGET + sokoban_AGENT ∧ sokoban_TARGET_BOX = sokoban_TARGET + sokoban_BOX := by decide
/-- Sokoban reward constants: `Sokoban.reward`/`rewardSpec` inline `10`, `1` (the coefficient of the box difference) and
`-1/10`; the shipped grid size is the `n = 10` of the default configuration. -/
theorem sokoban_reward_constants_tied :
    sokoban_LEVEL_COMPLETE_BONUS = 10 ∧ sokoban_SINGLE_BOX_BONUS = 1 ∧ sokoban_STEP_BONUS = -1 / 10 ∧
    sokoban_GRID_SIZE = 10 := by decide +kernel
/-- Connector: `pathVal/posVal/tgtVal id = PATH/POSITION/TARGET + 3·id`, `EMPTY = 0`, and the action codes the model's
`movePosition` switches over (noop, up, right, down, left = 0..4). -/
theorem connector_codes_tied (id : Int) :
    Connector.pathVal id = connector_PATH + 3 * id ∧ Connector.posVal id = connector_POSITION + 3 * id ∧
    Connector.tgtVal id = connector_TARGET + 3 * id ∧ connector_EMPTY = 0 ∧
    [connector_NOOP, connector_UP, connector_RIGHT, connector_DOWN, connector_LEFT] = [0, 1, 2, 3, 4] := by
  simp [Connector.pathVal, Connector.posVal, Connector.tgtVal, connector_PATH, connector_POSITION, connector_TARGET,
    connector_EMPTY, connector_NOOP, connector_UP, connector_RIGHT, connector_DOWN, connector_LEFT]
/-- LBF: the model tests `action = 5` for loading and treats `0` as staying. -/
theorem lbf_codes_tied : lbf_LOAD = 5 ∧ lbf_NOOP = 0 ∧ LBF.MOVES.length = 6 := by decide
/-- Minesweeper: unexplored squares are `-1` in the model's boards, a mined square of the scattered board is `1`, and the
neighbourhood is the 3 × 3 patch without its centre. -/
theorem minesweeper_codes_tied :
    minesweeper_UNEXPLORED_ID = -1 ∧ minesweeper_IS_MINE = 1 ∧ minesweeper_PATCH_SIZE = 3 ∧
    Minesweeper.offsets.length = (minesweeper_PATCH_SIZE * minesweeper_PATCH_SIZE - 1).toNat ∧
    (∀ d ∈ Minesweeper.offsets, d.1.natAbs < 2 ∧ d.2.natAbs < 2 ∧ d ≠ (0, 0)) ∧ Minesweeper.offsets.Nodup := by decide
theorem sliding_codes_tied : sliding_EMPTY_TILE = 0 := by decide
/-- MMST sentinel values the model inlines (`-1` nodes/edges/choices, `-2` tie-break, `-3` already traversed, `-10` dummy) -/
theorem mmst_codes_tied :
    mmst_INVALID_NODE = -1 ∧ mmst_UTILITY_NODE = -1 ∧ mmst_EMPTY_NODE = -1 ∧ mmst_DUMMY_NODE = -10 ∧ mmst_EMPTY_EDGE = -1 ∧
    mmst_INVALID_CHOICE = -1 ∧ mmst_INVALID_TIE_BREAK = -2 ∧ mmst_INVALID_ALREADY_TRAVERSED = -3 := by decide
theorem depot_tied : (CVRP.DEPOT : Int) = cvrp_DEPOT_IDX ∧ (MultiCVRP.DEPOT : Int) = multicvrp_DEPOT_IDX := by decide

/-! ### piece, reward and index tables -/
theorem tetris_tetrominoes_tied : Tetris.tetrominoes = tetris_TETROMINOES_LIST := by decide +kernel
theorem tetris_rewardList_tied : Tetris.rewardList = tetris_REWARD_LIST.map (fun (i : Int) => (i : Rat)) := by decide +kernel
theorem tetris_rotations_tied : tetris_NUM_ROTATIONS = 4 ∧ ∀ p ∈ Tetris.tetrominoes, p.length = 4 := by decide +kernel
theorem sudoku_box_idx_tied : Sudoku.BOX_IDX = sudoku_BOX_IDX ∧ (Sudoku.W : Int) = sudoku_BOARD_WIDTH := by decide +kernel

/-! ### enumerations -/
theorem rubik_amounts_tied : RubiksCube.amountValues = rubik_CubeMovementAmount.map Prod.snd := by decide
/-- the six faces are numbered 0..5 in the order UP, FRONT, RIGHT, BACK, LEFT, DOWN (the order of the model's cube) -/
theorem rubik_faces_tied :
    rubik_Face = [("UP", 0), ("FRONT", 1), ("RIGHT", 2), ("BACK", 3), ("LEFT", 4), ("DOWN", 5)] := by decide
/-- RobotWarehouse: directions 0..3 = up, right, down, left; actions 0..4 = noop, forward, left, right, toggle_load -/
theorem rware_enums_tied :
    rware_Direction.map Prod.snd = [0, 1, 2, 3] ∧ rware_Direction.map Prod.fst = ["UP", "RIGHT", "DOWN", "LEFT"] ∧
    rware_Action.map Prod.snd = [0, 1, 2, 3, 4] ∧
    rware_Action.map Prod.fst = ["NOOP", "FORWARD", "LEFT", "RIGHT", "TOGGLE_LOAD"] := by decide

end Props.C09
