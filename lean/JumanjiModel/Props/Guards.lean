/- What "the constructor returned" guarantees, read off the GENERATED table of constructor checks (Gen/Guards.lean, regenerated from
the `__init__` methods of /repo on every run), and the corollaries that discharge the configuration hypotheses of environment theorems.
Counted under C10: a generated instance is only well-formed for configurations the constructors accept. -/
import JumanjiModel.Gen.Guards
import JumanjiModel.Props.Env.CVRP
import JumanjiModel.Props.Env.Tetris
import JumanjiModel.Props.Env.Minesweeper
open Guard

namespace Props.C10

/-- the checks of a class, looked up in the generated table.  The proofs below first replace `checks "<class>"` by the generated
definition of that class (`decide +kernel`: a table lookup) and then let `simp; omega` derive the guarantee from WHATEVER shape the
translated conditions have — an equivalent rewrite of a check in the source (`a < b` as `b > a`, as `not (a >= b)`, two `if`s merged with
`or`) changes the generated term but not the theorem; a weakened or removed check makes `omega` fail. -/
abbrev checks (cls : String) : List C := find Gen.Guards.table cls

/-- `CVRP.__init__` returns only when `max_demand ≤ max_capacity` -/
theorem cvrp_ctor_check (ρ : String → Int) (h : accepts (checks "cvrp.CVRP") ρ = true) :
    ρ "max_demand" ≤ ρ "max_capacity" := by
  have e : checks "cvrp.CVRP" = Gen.Guards.c_cvrp_CVRP := by decide +kernel
  rw [e] at h
  simp [Gen.Guards.c_cvrp_CVRP, Gen.Guards.c_tetris_Tetris, Gen.Guards.c_minesweeper_Generator, Gen.Guards.c_rubiks_cube_RubiksCube, Gen.Guards.c_rubiks_cube_Generator, Gen.Guards.c_rubiks_cube_ScramblingGenerator, Gen.Guards.c_robot_warehouse_Generator, Gen.Guards.c_lbf_RandomGenerator, accepts, C.eval, E.eval] at h
  omega

/-- … hence for every configuration `CVRP(generator=UniformGenerator(n, max_capacity, max_demand))` accepts and every valid draw the
generated instance satisfies the generator certificate (demands never exceed the capacity, coordinates in the box, documented start state) -/
theorem cvrp_generate_cert_of_ctor (ρ : String → Int) (h : accepts (checks "cvrp.CVRP") ρ = true)
    (n : Nat) (cd : List (List Rat)) (dd : List Int) (hd : CVRP.validUniform n (ρ "max_demand") cd dd) :
    CVRP.GenCert n (ρ "max_capacity") (ρ "max_demand") (CVRP.generate n (ρ "max_capacity") cd dd) :=
  cvrp_generate_cert n _ _ cd dd (cvrp_ctor_check ρ h) hd

/-- `Tetris.__init__` returns only for boards of at least 4 x 4 -/
theorem tetris_ctor_check (ρ : String → Int) (h : accepts (checks "tetris.Tetris") ρ = true) :
    4 ≤ ρ "num_rows" ∧ 4 ≤ ρ "num_cols" := by
  have e : checks "tetris.Tetris" = Gen.Guards.c_tetris_Tetris := by decide +kernel
  rw [e] at h
  simp [Gen.Guards.c_cvrp_CVRP, Gen.Guards.c_tetris_Tetris, Gen.Guards.c_minesweeper_Generator, Gen.Guards.c_rubiks_cube_RubiksCube, Gen.Guards.c_rubiks_cube_Generator, Gen.Guards.c_rubiks_cube_ScramblingGenerator, Gen.Guards.c_robot_warehouse_Generator, Gen.Guards.c_lbf_RandomGenerator, accepts, C.eval, E.eval] at h
  omega

/-- the Minesweeper generator's constructor returns only for boards of at least 2 x 2 with `0 ≤ num_mines < num_rows·num_cols` -/
theorem minesweeper_ctor_check (ρ : String → Int) (h : accepts (checks "minesweeper.Generator") ρ = true) :
    2 ≤ ρ "num_rows" ∧ 2 ≤ ρ "num_cols" ∧ 0 ≤ ρ "num_mines" ∧ ρ "num_mines" < ρ "num_rows" * ρ "num_cols" := by
  have e : checks "minesweeper.Generator" = Gen.Guards.c_minesweeper_Generator := by decide +kernel
  rw [e] at h
  simp [Gen.Guards.c_cvrp_CVRP, Gen.Guards.c_tetris_Tetris, Gen.Guards.c_minesweeper_Generator, Gen.Guards.c_rubiks_cube_RubiksCube, Gen.Guards.c_rubiks_cube_Generator, Gen.Guards.c_rubiks_cube_ScramblingGenerator, Gen.Guards.c_robot_warehouse_Generator, Gen.Guards.c_lbf_RandomGenerator, accepts, C.eval, E.eval] at h
  omega

/-- `RubiksCube.__init__` and its generators: positive time limit, cube size at least 2, non-negative number of scrambles -/
theorem rubik_ctor_check (ρ : String → Int)
    (h1 : accepts (checks "rubiks_cube.RubiksCube") ρ = true) (h2 : accepts (checks "rubiks_cube.Generator") ρ = true)
    (h3 : accepts (checks "rubiks_cube.ScramblingGenerator") ρ = true) :
    0 < ρ "time_limit" ∧ 2 ≤ ρ "cube_size" ∧ 0 ≤ ρ "num_scrambles_on_reset" := by
  have e1 : checks "rubiks_cube.RubiksCube" = Gen.Guards.c_rubiks_cube_RubiksCube := by decide +kernel
  have e2 : checks "rubiks_cube.Generator" = Gen.Guards.c_rubiks_cube_Generator := by decide +kernel
  have e3 : checks "rubiks_cube.ScramblingGenerator" = Gen.Guards.c_rubiks_cube_ScramblingGenerator := by decide +kernel
  rw [e1] at h1; rw [e2] at h2; rw [e3] at h3
  simp [Gen.Guards.c_cvrp_CVRP, Gen.Guards.c_tetris_Tetris, Gen.Guards.c_minesweeper_Generator, Gen.Guards.c_rubiks_cube_RubiksCube, Gen.Guards.c_rubiks_cube_Generator, Gen.Guards.c_rubiks_cube_ScramblingGenerator, Gen.Guards.c_robot_warehouse_Generator, Gen.Guards.c_lbf_RandomGenerator, accepts, C.eval, E.eval] at h1 h2 h3
  omega

/-- the RobotWarehouse generator accepts only an odd number of shelf columns -/
theorem rware_ctor_check (ρ : String → Int) (h : accepts (checks "robot_warehouse.Generator") ρ = true) :
    ρ "shelf_columns" % 2 = 1 := by
  have e : checks "robot_warehouse.Generator" = Gen.Guards.c_robot_warehouse_Generator := by decide +kernel
  rw [e] at h
  simp [Gen.Guards.c_cvrp_CVRP, Gen.Guards.c_tetris_Tetris, Gen.Guards.c_minesweeper_Generator, Gen.Guards.c_rubiks_cube_RubiksCube, Gen.Guards.c_rubiks_cube_Generator, Gen.Guards.c_rubiks_cube_ScramblingGenerator, Gen.Guards.c_robot_warehouse_Generator, Gen.Guards.c_lbf_RandomGenerator, accepts, C.eval, E.eval] at h
  omega

/-- the LevelBasedForaging generator: grid of at least 5, field of view within the grid, at least one agent and one food item,
maximum agent level at least 2, and more free inner cells than the agents take -/
theorem lbf_ctor_check (ρ : String → Int) (h : accepts (checks "lbf.RandomGenerator") ρ = true) :
    5 ≤ ρ "grid_size" ∧ 1 ≤ ρ "fov" ∧ ρ "fov" ≤ ρ "grid_size" ∧ 0 < ρ "num_agents" ∧ 0 < ρ "num_food" ∧ 2 ≤ ρ "max_agent_level" ∧
    ρ "min_cells_food" < (ρ "grid_size" - 2) ^ 2 - ρ "num_agents" := by
  have e : checks "lbf.RandomGenerator" = Gen.Guards.c_lbf_RandomGenerator := by decide +kernel
  rw [e] at h
  simp [Gen.Guards.c_cvrp_CVRP, Gen.Guards.c_tetris_Tetris, Gen.Guards.c_minesweeper_Generator, Gen.Guards.c_rubiks_cube_RubiksCube, Gen.Guards.c_rubiks_cube_Generator, Gen.Guards.c_rubiks_cube_ScramblingGenerator, Gen.Guards.c_robot_warehouse_Generator, Gen.Guards.c_lbf_RandomGenerator, accepts, C.eval, E.eval] at h
  omega

-- non-vacuity: the shipped default configurations are accepted
example : accepts (checks "cvrp.CVRP") (fun n => if n = "max_capacity" then 30 else if n = "max_demand" then 10 else 0) = true := by decide +kernel
example : accepts (checks "tetris.Tetris") (fun _ => 10) = true := by decide +kernel
example : accepts (checks "minesweeper.Generator") (fun n => if n = "num_mines" then 10 else 10) = true := by decide +kernel
-- and a configuration at the edge is refused: capacity one below the largest demand
example : accepts (checks "cvrp.CVRP") (fun n => if n = "max_capacity" then 4 else if n = "max_demand" then 5 else 0) = false := by decide +kernel
end Props.C10
