/- What "the constructor returned" guarantees, read off the GENERATED table of constructor checks (Gen/Guards.lean, regenerated from
the `__init__` methods of /repo on every run), and the corollaries that discharge the configuration hypotheses of environment theorems.
Counted under C10: a generated instance is only well-formed for configurations the constructors accept. -/
import JumanjiModel.Gen.Guards
import JumanjiModel.Props.Env.CVRP
import JumanjiModel.Props.Env.Tetris
import JumanjiModel.Props.Env.Minesweeper
open Guard

namespace Props.C10

/-- the checks of a class, looked up in the generated table.  The proofs below first replace `checks "<class>"` by the generated
definition of that class (`decide +kernel`: a table lookup) and then let `simp; omega` derive the guarantee from WHATEVER shape the
translated conditions have — an equivalent rewrite of a check in the source (`a < b` as `b > a`, as `not (a >= b)`, two `if`s merged with
`or`) changes the generated term but not the theorem; a weakened or removed check makes `omega` fail. -/
abbrev checks (cls : String) : List C := find Gen.Guards.table cls

/-- `CVRP.__init__` returns only when `max_demand ≤ max_capacity` -/
theorem cvrp_ctor_check (ρ : String → Int) (h : accepts (checks "cvrp.CVRP") ρ = true) :
    ρ "max_demand" ≤ ρ "max_capacity" := by
  have e : checks "cvrp.CVRP" = Gen.Guards.c_cvrp_CVRP := by decide +kernel
  rw [e] at h
  simp [Gen.Guards.c_cvrp_CVRP, Gen.Guards.c_tetris_Tetris, Gen.Guards.c_minesweeper_Generator, Gen.Guards.c_rubiks_cube_RubiksCube, Gen.Guards.c_rubiks_cube_Generator, Gen.Guards.c_rubiks_cube_ScramblingGenerator, Gen.Guards.c_robot_warehouse_Generator, Gen.Guards.c_lbf_RandomGenerator, accepts, C.eval, E.eval] at h
  omega

/-- … hence for every configuration `CVRP(generator=UniformGenerator(n, max_capacity, max_demand))` accepts and every valid draw the
generated instance satisfies the generator certificate (demands never exceed the capacity, coordinates in the box, documented start state).
CAVEAT (audit r4 #1): `validUniform` is the DOCUMENTED support `[1, max_demand]`, which is empty unless `1 ≤ ρ "max_demand"`
(`cvrp_validUniform_pos`) — the constructor ACCEPTS `max_demand ≤ 0` (`cvrp_ctor_accepts_zero`), and there this theorem is vacuous
while the real generator draws demands 1 > max_demand (`cvrp_max_demand_zero_witness`).  The form with the hypothesis explicit and
the support the CODE draws from is `cvrp_generate_cert_of_ctor_code`. -/
theorem cvrp_generate_cert_of_ctor (ρ : String → Int) (h : accepts (checks "cvrp.CVRP") ρ = true)
    (n : Nat) (cd : List (List Rat)) (dd : List Int) (hd : CVRP.validUniform n (ρ "max_demand") cd dd) :
    CVRP.GenCert n (ρ "max_capacity") (ρ "max_demand") (CVRP.generate n (ρ "max_capacity") cd dd) :=
  cvrp_generate_cert n _ _ cd dd (cvrp_ctor_check ρ h) hd

/-- the constructor does NOT check `1 ≤ max_demand`: the configuration `max_capacity = max_demand = 0` is accepted (real code:
`CVRP(UniformGenerator(3, 0, 0))` constructs; demands `[0 1 1 1]`, capacity 0, observation demands `[nan inf inf inf]`) -/
theorem cvrp_ctor_accepts_zero : accepts (checks "cvrp.CVRP") (fun _ => 0) = true := by decide +kernel

/-- REPAIRED (audit r4 #1): `1 ≤ ρ "max_demand"` EXPLICIT — it is not implied by the constructor's check — and the draws taken from
the support of the code (`validUniformCode`: `randint(1, max_demand)`, upper bound exclusive): the generated instance satisfies the
certificate and no customer demand exceeds `max(1, max_demand − 1)`.  Without `h1` the statement is FALSE:
`cvrp_max_demand_zero_witness` (accepted configuration, admissible draw, certificate violated). -/
theorem cvrp_generate_cert_of_ctor_code (ρ : String → Int) (h : accepts (checks "cvrp.CVRP") ρ = true)
    (h1 : 1 ≤ ρ "max_demand")
    (n : Nat) (cd : List (List Rat)) (dd : List Int) (hd : CVRP.validUniformCode n (ρ "max_demand") cd dd) :
    CVRP.GenCert n (ρ "max_capacity") (ρ "max_demand") (CVRP.generate n (ρ "max_capacity") cd dd) ∧
    (∀ d ∈ (CVRP.generate n (ρ "max_capacity") cd dd).demands.drop 1, d ≤ max 1 (ρ "max_demand" - 1)) :=
  cvrp_generate_cert_code n _ _ cd dd h1 (cvrp_ctor_check ρ h) hd

/-- … and `h1` cannot be dropped: an accepted configuration (`ρ = 0` everywhere) and a draw of the code's support for which the
certificate fails -/
theorem cvrp_generate_cert_of_ctor_needs_pos :
    ∃ (ρ : String → Int) (n : Nat) (cd : List (List Rat)) (dd : List Int),
      accepts (checks "cvrp.CVRP") ρ = true ∧ CVRP.validUniformCode n (ρ "max_demand") cd dd ∧
      ¬ CVRP.GenCert n (ρ "max_capacity") (ρ "max_demand") (CVRP.generate n (ρ "max_capacity") cd dd) :=
  ⟨fun _ => 0, 3, [[0,0],[0,0],[0,0],[0,0]], [1,1,1,1], cvrp_ctor_accepts_zero,
    cvrp_max_demand_zero_witness.1, cvrp_max_demand_zero_witness.2.2.2.2.1⟩

/-- `Tetris.__init__` returns only for boards of at least 4 x 4 -/
theorem tetris_ctor_check (ρ : String → Int) (h : accepts (checks "tetris.Tetris") ρ = true) :
    4 ≤ ρ "num_rows" ∧ 4 ≤ ρ "num_cols" := by
  have e : checks "tetris.Tetris" = Gen.Guards.c_tetris_Tetris := by decide +kernel
  rw [e] at h
  simp [Gen.Guards.c_cvrp_CVRP, Gen.Guards.c_tetris_Tetris, Gen.Guards.c_minesweeper_Generator, Gen.Guards.c_rubiks_cube_RubiksCube, Gen.Guards.c_rubiks_cube_Generator, Gen.Guards.c_rubiks_cube_ScramblingGenerator, Gen.Guards.c_robot_warehouse_Generator, Gen.Guards.c_lbf_RandomGenerator, accepts, C.eval, E.eval] at h
  omega

/-- the Minesweeper generator's constructor returns only for boards of at least 2 x 2 with `0 ≤ num_mines < num_rows·num_cols` -/
theorem minesweeper_ctor_check (ρ : String → Int) (h : accepts (checks "minesweeper.Generator") ρ = true) :
    2 ≤ ρ "num_rows" ∧ 2 ≤ ρ "num_cols" ∧ 0 ≤ ρ "num_mines" ∧ ρ "num_mines" < ρ "num_rows" * ρ "num_cols" := by
  have e : checks "minesweeper.Generator" = Gen.Guards.c_minesweeper_Generator := by decide +kernel
  rw [e] at h
  simp [Gen.Guards.c_cvrp_CVRP, Gen.Guards.c_tetris_Tetris, Gen.Guards.c_minesweeper_Generator, Gen.Guards.c_rubiks_cube_RubiksCube, Gen.Guards.c_rubiks_cube_Generator, Gen.Guards.c_rubiks_cube_ScramblingGenerator, Gen.Guards.c_robot_warehouse_Generator, Gen.Guards.c_lbf_RandomGenerator, accepts, C.eval, E.eval] at h
  omega

/-- `RubiksCube.__init__` and its generators: positive time limit, cube size at least 2, non-negative number of scrambles -/
theorem rubik_ctor_check (ρ : String → Int)
    (h1 : accepts (checks "rubiks_cube.RubiksCube") ρ = true) (h2 : accepts (checks "rubiks_cube.Generator") ρ = true)
    (h3 : accepts (checks "rubiks_cube.ScramblingGenerator") ρ = true) :
    0 < ρ "time_limit" ∧ 2 ≤ ρ "cube_size" ∧ 0 ≤ ρ "num_scrambles_on_reset" := by
  have e1 : checks "rubiks_cube.RubiksCube" = Gen.Guards.c_rubiks_cube_RubiksCube := by decide +kernel
  have e2 : checks "rubiks_cube.Generator" = Gen.Guards.c_rubiks_cube_Generator := by decide +kernel
  have e3 : checks "rubiks_cube.ScramblingGenerator" = Gen.Guards.c_rubiks_cube_ScramblingGenerator := by decide +kernel
  rw [e1] at h1; rw [e2] at h2; rw [e3] at h3
  simp [Gen.Guards.c_cvrp_CVRP, Gen.Guards.c_tetris_Tetris, Gen.Guards.c_minesweeper_Generator, Gen.Guards.c_rubiks_cube_RubiksCube, Gen.Guards.c_rubiks_cube_Generator, Gen.Guards.c_rubiks_cube_ScramblingGenerator, Gen.Guards.c_robot_warehouse_Generator, Gen.Guards.c_lbf_RandomGenerator, accepts, C.eval, E.eval] at h1 h2 h3
  omega

/-- the RobotWarehouse generator accepts only an odd number of shelf columns -/
theorem rware_ctor_check (ρ : String → Int) (h : accepts (checks "robot_warehouse.Generator") ρ = true) :
    ρ "shelf_columns" % 2 = 1 := by
  have e : checks "robot_warehouse.Generator" = Gen.Guards.c_robot_warehouse_Generator := by decide +kernel
  rw [e] at h
  simp [Gen.Guards.c_cvrp_CVRP, Gen.Guards.c_tetris_Tetris, Gen.Guards.c_minesweeper_Generator, Gen.Guards.c_rubiks_cube_RubiksCube, Gen.Guards.c_rubiks_cube_Generator, Gen.Guards.c_rubiks_cube_ScramblingGenerator, Gen.Guards.c_robot_warehouse_Generator, Gen.Guards.c_lbf_RandomGenerator, accepts, C.eval, E.eval] at h
  omega

/-- the LevelBasedForaging generator: grid of at least 5, field of view within the grid, at least one agent and one food item,
maximum agent level at least 2, and more free inner cells than the agents take -/
theorem lbf_ctor_check (ρ : String → Int) (h : accepts (checks "lbf.RandomGenerator") ρ = true) :
    5 ≤ ρ "grid_size" ∧ 1 ≤ ρ "fov" ∧ ρ "fov" ≤ ρ "grid_size" ∧ 0 < ρ "num_agents" ∧ 0 < ρ "num_food" ∧ 2 ≤ ρ "max_agent_level" ∧
    ρ "min_cells_food" < (ρ "grid_size" - 2) ^ 2 - ρ "num_agents" := by
  have e : checks "lbf.RandomGenerator" = Gen.Guards.c_lbf_RandomGenerator := by decide +kernel
  rw [e] at h
  simp [Gen.Guards.c_cvrp_CVRP, Gen.Guards.c_tetris_Tetris, Gen.Guards.c_minesweeper_Generator, Gen.Guards.c_rubiks_cube_RubiksCube, Gen.Guards.c_rubiks_cube_Generator, Gen.Guards.c_rubiks_cube_ScramblingGenerator, Gen.Guards.c_robot_warehouse_Generator, Gen.Guards.c_lbf_RandomGenerator, accepts, C.eval, E.eval] at h
  omega

/-! ### (audit r4 #4) corollaries that DISCHARGE the configuration hypotheses of environment theorems from the generated checks

`ρ` is the constructor's argument environment; `hr`, `hc`, `hm` say that the model configuration `cfg` is the one built from
those arguments. -/

/-- what the Minesweeper generator's constructor guarantees, in the terms the C01 theorems use -/
theorem minesweeper_cfg_of_ctor (ρ : String → Int)
    (h : accepts (checks "minesweeper.Generator") ρ = true) (cfg : Minesweeper.Cfg)
    (hr : (cfg.numRows : Int) = ρ "num_rows") (hc : (cfg.numCols : Int) = ρ "num_cols")
    (hm : (cfg.numMines : Int) = ρ "num_mines") :
    2 ≤ cfg.numRows ∧ 2 ≤ cfg.numCols ∧ cfg.numMines < Minesweeper.cells cfg := by
  obtain ⟨h1, h2, _, h4⟩ := minesweeper_ctor_check ρ h
  rw [← hr, ← hc, ← hm] at h4
  rw [← hr] at h1; rw [← hc] at h2
  exact ⟨by omega, by omega, by unfold Minesweeper.cells; exact_mod_cast h4⟩

/-- C01 from the constructor: the `reset` observation of every configuration the generator's constructor ACCEPTS, for every valid
draw of the mine locations, is a member of the declared spec (`hM` of `minesweeper_reset_obs_valid` discharged) -/
theorem minesweeper_reset_obs_valid_of_ctor (ρ : String → Int)
    (h : accepts (checks "minesweeper.Generator") ρ = true) (cfg : Minesweeper.Cfg)
    (hr : (cfg.numRows : Int) = ρ "num_rows") (hc : (cfg.numCols : Int) = ρ "num_cols")
    (hm : (cfg.numMines : Int) = ρ "num_mines") (d : List Nat) (hd : Minesweeper.validDraw cfg d) :
    (Minesweeper.obsSpec cfg).valid
      (Minesweeper.toNValue (Minesweeper.resetTimeStep cfg (Minesweeper.generate cfg d)).obs) = true :=
  Props.C01.minesweeper_reset_obs_valid cfg d hd (minesweeper_cfg_of_ctor ρ h cfg hr hc hm).2.2

/-- … every `step` observation from a consistent, not yet solved state -/
theorem minesweeper_step_obs_valid_of_ctor (ρ : String → Int)
    (h : accepts (checks "minesweeper.Generator") ρ = true) (cfg : Minesweeper.Cfg)
    (hr : (cfg.numRows : Int) = ρ "num_rows") (hc : (cfg.numCols : Int) = ρ "num_cols")
    (hm : (cfg.numMines : Int) = ρ "num_mines") (s : Minesweeper.State) (hcs : Minesweeper.Consistent cfg s)
    (r c : Nat) (hr' : r < cfg.numRows) (hc' : c < cfg.numCols) (hns : Minesweeper.isSolved s = false) :
    (Minesweeper.obsSpec cfg).valid (Minesweeper.toNValue (Minesweeper.step cfg s r c).2.obs) = true :=
  Props.C01.minesweeper_step_obs_valid cfg s hcs r c hr' hc' hns (minesweeper_cfg_of_ctor ρ h cfg hr hc hm).2.2

/-- … and every observation of every episode from the generator (any in-spec play that has not met LAST, then any square) -/
theorem minesweeper_episode_obs_valid_of_ctor (ρ : String → Int)
    (h : accepts (checks "minesweeper.Generator") ρ = true) (cfg : Minesweeper.Cfg)
    (hr : (cfg.numRows : Int) = ρ "num_rows") (hc : (cfg.numCols : Int) = ρ "num_cols")
    (hm : (cfg.numMines : Int) = ρ "num_mines") (d : List Nat) (hd : Minesweeper.validDraw cfg d)
    (as : List (Nat × Nat)) (hin : ∀ a ∈ as, a.1 < cfg.numRows ∧ a.2 < cfg.numCols)
    (hrun : (Minesweeper.play cfg (Minesweeper.generate cfg d) as).ending = .running) (r c : Nat)
    (hr' : r < cfg.numRows) (hc' : c < cfg.numCols) :
    (Minesweeper.obsSpec cfg).valid
      (Minesweeper.toNValue (Minesweeper.step cfg (Minesweeper.play cfg (Minesweeper.generate cfg d) as).final r c).2.obs) = true :=
  Props.C01.minesweeper_episode_obs_valid cfg d hd (minesweeper_cfg_of_ctor ρ h cfg hr hc hm).2.2 as hin hrun r c hr' hc'

/-- Tetris: `0 < num_rows`, `3 ≤ num_cols` of the C01 theorems discharged from `Tetris.__init__`'s check (reset, every step, whole
rollouts) -/
theorem tetris_obs_valid_of_ctor (ρ : String → Int) (h : accepts (checks "tetris.Tetris") ρ = true) (cfg : Tetris.Cfg)
    (hr : (cfg.numRows : Int) = ρ "num_rows") (hc : (cfg.numCols : Int) = ρ "num_cols") :
    (∀ d, Tetris.validDraw d → (Tetris.obsSpec cfg).valid (Tetris.toNValue (Tetris.reset cfg d).2.obs) = true) ∧
    (∀ (s : Tetris.State) (rot x : Int) (d : Nat), Tetris.GridShaped cfg s → s.stepCount < cfg.timeLimit → Tetris.validDraw d →
      (Tetris.obsSpec cfg).valid (Tetris.toNValue (Tetris.step cfg s rot x d).2.obs) = true) ∧
    (∀ (d0 : Nat) (as : List (Int × Int × Nat)) (j : Nat) (e : Tetris.State × Jm.TimeStep Tetris.Obs),
      (∀ a ∈ as, Tetris.validDraw a.2.2) → j < cfg.timeLimit →
      (Ep.rollout (fun s (a : Int × Int × Nat) => Tetris.step cfg s a.1 a.2.1 a.2.2) (Tetris.reset cfg d0).1 as)[j]? = some e →
      (Tetris.obsSpec cfg).valid (Tetris.toNValue e.2.obs) = true) := by
  obtain ⟨h1, h2⟩ := tetris_ctor_check ρ h
  rw [← hr] at h1; rw [← hc] at h2
  have hR : 0 < cfg.numRows := by omega
  have hC : 3 ≤ cfg.numCols := by omega
  exact ⟨fun d hd => Props.C01.tetris_reset_obs_valid cfg hR hC d hd,
    fun s rot x d hs hl hd => Props.C01.tetris_step_obs_valid cfg hR hC s hs hl rot x d hd,
    fun d0 as j e has hj he => Props.C01.tetris_rollout_obs_valid cfg hR hC d0 as has j hj e he⟩

/-- CVRP: `max_demand ≤ max_capacity` of `cvrp_reset_obs_valid` discharged from `CVRP.__init__`'s check.  (`validDraw` is the
documented support and forces `1 ≤ max_demand`; see `cvrp_generate_cert_of_ctor_code` / `cvrp_max_demand_zero_witness` for what
the constructor does not check.) -/
theorem cvrp_reset_obs_valid_of_ctor (ρ : String → Int) (h : accepts (checks "cvrp.CVRP") ρ = true) (c : CVRP.Cfg)
    (hc : c.maxCap = ρ "max_capacity") (n : Nat) (cd : List (List Rat)) (dd : List Int)
    (hd : CVRP.validDraw n (ρ "max_demand") cd dd) :
    (CVRP.obsSpec n).valid (CVRP.toNValue (CVRP.reset c n cd dd).2.obs) = true ∧ CVRP.SpecInv c n (CVRP.reset c n cd dd).1 :=
  ⟨Props.C01.cvrp_reset_obs_valid c n _ cd dd hd (by rw [hc]; exact cvrp_ctor_check ρ h),
   Props.C01.cvrp_reset_specInv c n _ cd dd hd (by rw [hc]; exact cvrp_ctor_check ρ h)⟩

/-! ### (audit r4 #4, M) checks OUTSIDE the integer-valued guard language

The guard language evaluates every attribute as an `Int`.  Two generated classes have checks it cannot express; about them
`accepts` carries NO usable information, and no theorem of this file may be read as covering them. -/

/-- does a condition / expression contain a sub-term the translator did not recognise? -/
def E.hasUnknown : E → Bool
  | .attr _ => false | .const _ => false
  | .add a b => E.hasUnknown a || E.hasUnknown b | .sub a b => E.hasUnknown a || E.hasUnknown b
  | .mul a b => E.hasUnknown a || E.hasUnknown b | .mod a b => E.hasUnknown a || E.hasUnknown b
  | .pow a _ => E.hasUnknown a | .unknown _ => true
def C.hasUnknown : C → Bool
  | .lt a b => E.hasUnknown a || E.hasUnknown b | .le a b => E.hasUnknown a || E.hasUnknown b
  | .eq a b => E.hasUnknown a || E.hasUnknown b | .ne a b => E.hasUnknown a || E.hasUnknown b
  | .and a b => C.hasUnknown a || C.hasUnknown b | .or a b => C.hasUnknown a || C.hasUnknown b
  | .not a => C.hasUnknown a | .unknown _ => true

/-- (1) exactly ONE class of the generated table has a check with an unrecognised sub-term: `mmst.Generator` (the float constant
`0.8` in `num_nodes * 0.8 < num_nodes_per_agent * num_agents`): that check evaluates to `none` for every argument environment, so
it passes `accepts` silently — `accepts` is `true` for EVERY `ρ`, also for those the real constructor refuses.
(2) `graph_coloring.RandomGenerator` (`0 < edge_probability < 1`, a FLOAT attribute read as an integer) is syntactically
recognised but NEVER accepted: no integer lies strictly between 0 and 1.  Regenerating `Gen/Guards.lean` from a source with another
such check breaks this theorem. -/
theorem guards_outside_int_language :
    (Gen.Guards.table.filter (fun e => e.2.any C.hasUnknown)).map (·.1) = ["mmst.Generator"] ∧
    (∀ ρ, accepts (checks "mmst.Generator") ρ = true) ∧
    (∀ ρ, accepts (checks "graph_coloring.RandomGenerator") ρ = false) := by
  refine ⟨by decide +kernel, ?_, ?_⟩
  · intro ρ
    have e : checks "mmst.Generator" = Gen.Guards.c_mmst_Generator := by decide +kernel
    rw [e]
    simp [Gen.Guards.c_mmst_Generator, accepts, C.eval, E.eval]
  · intro ρ
    have e : checks "graph_coloring.RandomGenerator" = Gen.Guards.c_graph_coloring_RandomGenerator := by decide +kernel
    rw [e]
    simp [Gen.Guards.c_graph_coloring_RandomGenerator, accepts, C.eval, E.eval]
    omega

-- non-vacuity: the shipped default configurations are accepted
example : accepts (checks "cvrp.CVRP") (fun n => if n = "max_capacity" then 30 else if n = "max_demand" then 10 else 0) = true := by decide +kernel
example : accepts (checks "tetris.Tetris") (fun _ => 10) = true := by decide +kernel
example : accepts (checks "minesweeper.Generator") (fun n => if n = "num_mines" then 10 else 10) = true := by decide +kernel
-- and a configuration at the edge is refused: capacity one below the largest demand
example : accepts (checks "cvrp.CVRP") (fun n => if n = "max_capacity" then 4 else if n = "max_demand" then 5 else 0) = false := by decide +kernel
end Props.C10
