/- Property C18 — the registry maps each id to one reproducible configuration. -/
import JumanjiModel.RegistryLemmas
import JumanjiModel.Gen.Registry
open Reg

namespace Props.C18
variable {α : Type} [DecidableEq α] {C : Cls α}

/-- every well-formed id `<name>-v<N>` parses to (name, N) … -/
theorem parse_format (h : ClsOK C) (dig : Nat → α) (hval : ∀ k, k < 10 → C.val (dig k) = k)
    (hD : ∀ k, k < 10 → C.D (dig k) = true) (name : List α) (hn : NameOK C name) (N : Nat) :
    parse C (format C dig name N) = .ok (name, N) := Reg.parse_format h dig hval hD name hn N

/-- … and formats back to itself (version written canonically) -/
theorem format_parse (s n : List α) (v : Nat) (dig : Nat → α) (hp : parse C s = .ok (n, v))
    (hcanon : ∀ ds, s = n ++ C.dash :: C.vee :: ds → ds = digitsOf dig v) :
    format C dig n v = s := Reg.format_parse s n v dig hp hcanon

/-- the regex matcher accepts exactly the documented grammar: a successful parse exhibits
`<name>-v<digits>` with a non-empty name over `[\w:.-]` and a non-empty digit string … -/
theorem parse_ok_wellFormed (s n : List α) (v : Nat) (hp : parse C s = .ok (n, v)) :
    ∃ ds, WellFormed C s n ds ∧ v = valOf C ds := Reg.parse_ok_wellFormed s n v hp
/-- … every id of that shape is accepted with exactly that name and version (last `-v<digits>` suffix) … -/
theorem parse_wellFormed (h : ClsOK C) (s n ds : List α) (hw : WellFormed C s n ds) :
    parse C s = .ok (n, valOf C ds) := Reg.parse_wellFormed h s n ds hw
/-- … and every malformed or version-less id is rejected -/
theorem parse_rejects (s : List α) (h : ¬ ∃ n ds, WellFormed C s n ds) : ∃ e, parse C s = .error e :=
  Reg.parse_rejects s h
theorem parse_versionless (h : ClsOK C) (n : List α) (hn : NameOK C n)
    (hnv : ¬ ∃ n' ds, WellFormed C n n' ds) : parse C n = .error .versionMissing :=
  Reg.parse_versionless h n hn hnv

/-- ids with leading zeros are normalised, idempotently -/
theorem normalise_idempotent (h : ClsOK C) (dig : Nat → α) (hval : ∀ k, k < 10 → C.val (dig k) = k)
    (hD : ∀ k, k < 10 → C.D (dig k) = true) (s n : List α) (v : Nat) (hp : parse C s = .ok (n, v)) :
    parse C (format C dig n v) = .ok (n, v) := Reg.normalise_idempotent h dig hval hD s n v hp

variable {κ ν : Type} [DecidableEq κ]

/-- registering an id that already exists is refused (the registry is a value: it is unchanged) -/
theorem register_dup_refused (dig : Nat → α) (r : Registry α κ ν) (id n : List α) (v : Nat) (ep : String)
    (kw : List (κ × ν)) (hp : parse C id = .ok (n, v)) (hin : format C dig n v ∈ registered r) :
    ∃ e, register C dig r id ep kw = .error e := Reg.register_dup_refused dig r id n v ep kw hp hin
/-- a successful registration appends exactly one entry under the normalised id … -/
theorem register_ok (dig : Nat → α) (r r' : Registry α κ ν) (id : List α) (ep : String)
    (kw : List (κ × ν)) (h : register C dig r id ep kw = .ok r') :
    ∃ n v, parse C id = .ok (n, v) ∧ format C dig n v ∉ registered r ∧
      r' = r ++ [(format C dig n v, { entryPoint := ep, kwargs := kw })] := Reg.register_ok dig r r' id ep kw h
/-- … so ids stay pairwise distinct along any sequence of register calls -/
theorem register_nodup (dig : Nat → α) (r r' : Registry α κ ν) (id : List α) (ep : String)
    (kw : List (κ × ν)) (hr : (registered r).Nodup) (h : register C dig r id ep kw = .ok r') :
    (registered r').Nodup := Reg.register_nodup dig r r' id ep kw hr h
/-- `make(id)` builds the registered class with the registered arguments overridden only by the
caller's keyword arguments -/
theorem make_after_register (h : ClsOK C) (dig : Nat → α) (hval : ∀ k, k < 10 → C.val (dig k) = k)
    (hD : ∀ k, k < 10 → C.D (dig k) = true)
    (r r' : Registry α κ ν) (id : List α) (ep : String) (reg kw : List (κ × ν))
    (hr : register C dig r id ep reg = .ok r') :
    make C dig r' id kw = .ok (ep, mergeKwargs reg kw) := Reg.make_after_register h dig hval hD r r' id ep reg kw hr
theorem make_kwargs_precedence [DecidableEq ν] (reg caller : List (κ × ν)) (k : κ) :
    (mergeKwargs reg caller).lookup k =
      match caller.lookup k with
      | some v => some v
      | none => reg.lookup k := Reg.mergeKwargs_lookup reg caller k
/-- unknown ids raise an error (carrying the list of registered ids) -/
theorem make_unknown (dig : Nat → α) (r : Registry α κ ν) (id n : List α) (v : Nat) (kw : List (κ × ν))
    (hp : parse C id = .ok (n, v)) (hnot : r.lookup (format C dig n v) = none) :
    ∃ e, make C dig r id kw = .error e := Reg.make_unknown dig r id n v kw hp hnot

/-! ### the ASCII instantiation and the ids shipped in `jumanji/__init__.py` (generated) -/

def asciiCls : Cls Char :=
  { W := fun c => c.isAlphanum || c == '_', D := Char.isDigit, val := fun c => c.toNat - 48,
    dash := '-', vee := 'v', colon := ':', dot := '.' }
def asciiDig (k : Nat) : Char := Char.ofNat (48 + k)

theorem ascii_ok : ClsOK asciiCls := ⟨by decide, by decide⟩
theorem ascii_val : ∀ k, k < 10 → asciiCls.val (asciiDig k) = k := by decide
theorem ascii_D : ∀ k, k < 10 → asciiCls.D (asciiDig k) = true := by decide

/-- does this shipped id parse and format back to itself? -/
def idRoundTrips (s : String) : Bool :=
  match parse asciiCls s.toList with
  | .ok (n, v) => format asciiCls asciiDig n v == s.toList
  | .error _ => false

/-- registering the shipped ids in source order into an empty registry -/
def registerAll : List (String × String × List String) → Registry Char String Unit →
    Option (Registry Char String Unit)
  | [], r => some r
  | (id, ep, ks) :: rest, r =>
    match register asciiCls asciiDig r id.toList ep (ks.map (fun k => (k, ()))) with
    | .ok r' => registerAll rest r'
    | .error _ => none

/-- every id shipped in the registry is well-formed and canonical, the translator recognised every
`register` call, and no registration is refused as a duplicate -/
theorem shipped_ids_wf :
    Gen.Registry.unrecognised = 0 ∧ Gen.Registry.shipped.all (fun e => idRoundTrips e.1) = true ∧
    ((registerAll Gen.Registry.shipped []).map (fun r => r.length)) = some Gen.Registry.shipped.length := by
  decide +kernel

-- non-vacuity of the grammar hypotheses
example : NameOK asciiCls "Env-test".toList := ⟨by decide, by decide⟩
example : (parse asciiCls "Env-test-v10".toList).toOption = some ("Env-test".toList, 10) := by decide +kernel
example : (match parse asciiCls "Env_v0".toList with | .error .versionMissing => true | _ => false) = true := by
  decide +kernel
end Props.C18
