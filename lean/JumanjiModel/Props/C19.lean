/- Property C19 — pytree helpers satisfy their algebraic laws (all trees, batch sizes, indices). -/
import JumanjiModel.PytreeLemmas
open Pytree

namespace Props.C19
variable {τ β ε : Type} [DecidableEq τ] [DecidableEq ε]

/-- stacking identically structured trees and slicing at `i` returns the `i`-th tree
(structure and leaves — hence dtypes — included) -/
theorem slice_transpose (td : τ) (n : Nat) (ts : List (PTree τ β)) (hs : SameStructure td n ts)
    (i : Nat) (hi : i < ts.length) : slice (transpose td n ts) (i : Int) = some ts[i] :=
  Pytree.slice_transpose td n ts hs i hi

/-- setting element `i` makes index `i` equal to the given element … -/
theorem slice_addElement_same (t : PTree τ (List β)) (i : Nat) (e : PTree τ β)
    (hst : t.td = e.td ∧ t.leaves.length = e.leaves.length) (hi : ∀ x ∈ t.leaves, i < x.length) :
    (addElement t i e).bind (fun t' => slice t' i) = some e :=
  Pytree.slice_addElement_same t i e hst hi

/-- … and changes nothing else -/
theorem slice_addElement_other (t : PTree τ (List β)) (i j : Nat) (e : PTree τ β)
    (hst : t.td = e.td ∧ t.leaves.length = e.leaves.length) (hij : j ≠ i)
    (hi : ∀ x ∈ t.leaves, i < x.length) :
    (addElement t i e).bind (fun t' => slice t' j) = slice t j :=
  Pytree.slice_addElement_other t i j e hst hij hi

/-- structure, number of leaves and batch sizes are preserved by `tree_add_element` -/
theorem addElement_structure (t : PTree τ (List β)) (i : Int) (e : PTree τ β) (t' : PTree τ (List β))
    (h : addElement t i e = some t') :
    t'.td = t.td ∧ t'.leaves.length = t.leaves.length ∧
    ∀ k (hk : k < t'.leaves.length) (hk' : k < t.leaves.length), t'.leaves[k].length = t.leaves[k].length :=
  Pytree.addElement_structure t i e t' h

theorem isEqual_refl (t : PTree τ (Leaf ε)) : isEqual t t = some true := Pytree.isEqual_refl t
theorem isEqual_symm (t1 t2 : PTree τ (Leaf ε)) : isEqual t1 t2 = isEqual t2 t1 := Pytree.isEqual_symm t1 t2
theorem isEqual_iff (t1 t2 : PTree τ (Leaf ε)) (h : t1.td = t2.td ∧ t1.leaves.length = t2.leaves.length) :
    isEqual t1 t2 = some true ↔
      ∀ k (h1 : k < t1.leaves.length) (h2 : k < t2.leaves.length),
        t1.leaves[k].shape = t2.leaves[k].shape ∧ t1.leaves[k].data = t2.leaves[k].data :=
  Pytree.isEqual_iff t1 t2 h
/-- the 'trees are different' assertion fails exactly when the equality helper is true -/
theorem assertDifferent_iff (t1 t2 : PTree τ (Leaf ε)) :
    assertDifferentFails t1 t2 = isEqual t1 t2 := rfl

-- non-vacuity: a concrete batch of two trees with two leaves each
example : SameStructure "d" 2 [(⟨"d", [1, 2]⟩ : PTree String Nat), ⟨"d", [3, 4]⟩] := by
  intro t ht; simp at ht; rcases ht with rfl | rfl <;> simp
example : slice (transpose "d" 2 [(⟨"d", [1, 2]⟩ : PTree String Nat), ⟨"d", [3, 4]⟩]) 1 = some ⟨"d", [3, 4]⟩ := by decide
end Props.C19
