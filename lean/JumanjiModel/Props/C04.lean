/- Property C04: generic theorems (if any) live here; per-environment theorems are in the imported
   Props/Env/*.lean files inside `namespace Props.C04` sections. -/
import JumanjiModel.Props.Env.Knapsack
