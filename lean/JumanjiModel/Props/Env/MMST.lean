/-
Property theorems for MMST (relational model: the tie-break permutation `perm` is a draw; every theorem holds
for ALL draws, not only valid ones).  Only statements; proofs and helper lemmas are in Env/MMST/Lemmas.lean.

In-spec joint actions are `action : List Nat` (component `i` is the node agent `i` wants to move to); they
reach the L1 `step` as `action.map Int.ofNat`.  The running example has 5 nodes on a path 0-1-2-3-4, node 2
is a utility node, agent 0 owns {0,1}, agent 1 owns {3,4}.
-/
import JumanjiModel.Env.MMST.Lemmas
import JumanjiModel.Env.MMST.Bounds
import JumanjiModel.Env.MMST.FeasibleLemmas
import JumanjiModel.Env.MMST.Walk
import JumanjiModel.Env.MMST.ObsLemmas
import JumanjiModel.Env.MMST.Illegal
import JumanjiModel.Env.MMST.Solvable
import JumanjiModel.Env.MMST.GenTheorems
import JumanjiModel.Env.MMST.Spec
open Jm MMST

namespace Props.MMSTEx
def cfg : Cfg := { numAgents := 2, numNodes := 5, numNodesPerAgent := 2, timeLimit := 6,
                   rConn := 10, rStep := -1, rNoop := -1 }
def adj : List (List Int) := [[0,1,0,0,0],[1,0,1,0,0],[0,1,0,1,0],[0,0,1,0,1],[0,0,0,1,0]]
def edges : List (List Int) := [[-1,1,-1,-1,-1],[0,-1,2,-1,-1],[-1,1,-1,3,-1],[-1,-1,2,-1,4],[-1,-1,-1,3,-1]]
/-- start of an episode: agent 0 on node 0, agent 1 on node 3 -/
def st : State :=
  { nodeTypes := [0, 0, -1, 1, 1], adj := adj,
    connectedNodes := [[0, -1, -1, -1, -1, -1], [3, -1, -1, -1, -1, -1]],
    connectedIndex := [[0, -1, -1, -1, -1], [-1, -1, -1, 3, -1]],
    nodesToConnect := [[0, 1], [3, 4]], nodeEdges := [edges, edges], positions := [0, 3], positionIndex := [0, 0],
    actionMask := [[false, true, false, false, false], [false, false, true, false, true]],
    finished := [false, false], stepCount := 0 }
/-- after agent 0 moved to 1 (done) and agent 1 to the utility node 2, as the pinned tree leaves it:
the mask row of the finished agent 0 is stale -/
def st1 : State := (step cfg st [1, 2] [0, 1]).1
/-- another start: agent 1 on the LAST node 4 -/
def stB : State :=
  { st with connectedNodes := [[0, -1, -1, -1, -1, -1], [4, -1, -1, -1, -1, -1]],
            connectedIndex := [[0, -1, -1, -1, -1], [-1, -1, -1, -1, 4]], nodesToConnect := [[0, 1], [4, 3]],
            positions := [0, 4], actionMask := [[false, true, false, false, false], [false, false, false, true, false]] }
def cfgG : Cfg := { cfg with guardVisited := true }
/-- the repaired configuration (the tree as it is now: fresh mask, guarded visited lookup) -/
def cfgR : Cfg := { cfg with guardVisited := true, freshMask := true }
/-- the audit's counterexample to the old `Feasible`: routes `[0,4]` and `[1,3]` on the path graph (no edges 0-4, 1-3) -/
def stJump : State :=
  { st with nodeTypes := [0, 1, -1, 1, 0], nodesToConnect := [[0, 4], [1, 3]],
            connectedNodes := [[0, 4, -1, -1, -1, -1], [1, 3, -1, -1, -1, -1]],
            connectedIndex := [[0, -1, -1, -1, 4], [-1, 1, -1, 3, -1]], positions := [4, 3], positionIndex := [1, 1],
            actionMask := [[false, false, false, false, false], [false, false, false, false, false]],
            finished := [true, true], stepCount := 1 }
/-- one node per agent (`num_nodes_per_agent = 1`): a reset state as the generator builds it -/
def cfgK1 : Cfg := { cfg with numNodesPerAgent := 1 }
def stK1 : State :=
  { st with nodeTypes := [0, -1, -1, 1, -1], nodesToConnect := [[0], [3]] }
/-- the graph and the draws from which the generator builds `st` -/
def draw : GenDraw := { adj := adj, nodeEdges := edges, comps := [[0, 1], [3, 4]] }
end Props.MMSTEx

namespace Props.C04
/-- the mask FUNCTION (`make_action_mask` on the current edge tables, positions and finished flags) gives, for
every agent and every node, exactly the legal moves of the rules -/
theorem mmst_mask_iff_legal (cfg : Cfg) (s : State) (hS : Shaped cfg s) (hE : EdgesOK cfg s) (hF : FlagsFresh cfg s)
    (i a : Nat) (hi : i < cfg.numAgents) (ha : a < cfg.numNodes) :
    ((makeMask cfg.numAgents s.nodeEdges s.positions s.finished).getD i []).getD a false = true ↔ legal cfg s i a :=
  MMST.mask_iff_legal hS hE hF hi ha

/-- the mask STORED by `step` is that function of the successor when the source is repaired (`freshMask`) or,
on the pinned tree, when no agent finished in this step -/
theorem mmst_cached_mask_partial (cfg : Cfg) (s : State) (a : List Int) (p : List Nat)
    (h : cfg.freshMask = true ∨ (step cfg s a p).1.finished = s.finished) :
    (step cfg s a p).1.actionMask =
      makeMask cfg.numAgents (step cfg s a p).1.nodeEdges (step cfg s a p).1.positions (step cfg s a p).1.finished :=
  MMST.cached_mask_fresh cfg s a p h

/-- pinned tree: the stored mask is stale by one step for an agent that has just finished — a non-terminal
successor whose mask offers moves to a finished agent (defect: `make_action_mask` is called before
`finished_agents` is updated) -/
theorem mmst_cached_mask_stale_witness :
    (step MMSTEx.cfg MMSTEx.st [1, 2] [0, 1]).2.stepType = .mid ∧
    MMSTEx.st1.actionMask ≠ legalMask MMSTEx.cfg MMSTEx.st1 ∧
    (MMSTEx.st1.actionMask.getD 0 []).getD 0 false = true ∧ ¬ legal MMSTEx.cfg MMSTEx.st1 0 0 := by
  decide +kernel

/-- the environment's own reaction agrees with the rules in one direction for every draw: an agent that is
moved played a legal action (no illegal move is ever carried out) -/
theorem mmst_moved_only_if_legal (cfg : Cfg) (s : State) (hS : Shaped cfg s) (hE : EdgesOK cfg s)
    (hF : FlagsFresh cfg s) (action perm : List Nat) (i : Nat) (hi : i < cfg.numAgents)
    (ha : action.getD i 0 < cfg.numNodes)
    (hm : (step cfg s (action.map Int.ofNat) perm).1.positionIndex.getD i 0 ≠ s.positionIndex.getD i 0) :
    legal cfg s i (action.getD i 0) := MMST.moved_only_if_legal hS hE hF action perm hi ha hm

example : Shaped MMSTEx.cfg MMSTEx.st ∧ EdgesOK MMSTEx.cfg MMSTEx.st ∧ FlagsFresh MMSTEx.cfg MMSTEx.st := by
  decide +kernel
example : legal MMSTEx.cfg MMSTEx.st 1 2 ∧ ¬ legal MMSTEx.cfg MMSTEx.st 0 2 := by decide +kernel
/-- the utility node 2, once used by agent 1, is closed for agent 0 -/
example : ¬ legal MMSTEx.cfg MMSTEx.st1 0 2 ∧ takenByOther MMSTEx.cfg MMSTEx.st1 0 2 := by decide +kernel
/-! #### `step_agrees`, the other direction: a legal action is carried out unless it loses the tie-break -/

/-- after every step the finished flags are those of the current routes (`FlagsFresh`, the hypothesis of the
theorems above, is re-established by `step`; rows of `nodes_to_connect` have `num_nodes_per_agent` entries) -/
theorem mmst_step_flagsFresh (cfg : Cfg) (s : State) (action : List Int) (perm : List Nat)
    (hK : ∀ i, i < cfg.numAgents → (s.nodesToConnect.getD i []).length = cfg.numNodesPerAgent) :
    FlagsFresh cfg (step cfg s action perm).1 := MMST.step_flagsFresh cfg s action perm hK

/-- audit r1 entry 7: `FlagsFresh` holds in every generated state when every agent has at least two nodes to connect
(from the reset certificates: `certStart` = every agent on its first node, route otherwise empty, flags false;
`certAgentsDisjoint` = the `num_nodes_per_agent` nodes of an agent are distinct node indices) — so with
`mmst_step_flagsFresh` it holds along every episode -/
theorem mmst_reset_flagsFresh (cfg : Cfg) (s : State) (hS : Shaped cfg s) (h1 : certStart cfg s = true)
    (h4 : certAgentsDisjoint cfg s = true) (hK : 2 ≤ cfg.numNodesPerAgent) : FlagsFresh cfg s :=
  MMST.reset_flagsFresh hS h1 h4 hK

example : Shaped MMSTEx.cfg MMSTEx.st ∧ certStart MMSTEx.cfg MMSTEx.st = true ∧
    certAgentsDisjoint MMSTEx.cfg MMSTEx.st = true ∧ 2 ≤ MMSTEx.cfg.numNodesPerAgent := by decide +kernel

/-- `num_nodes_per_agent = 1` (accepted by `SplitRandomGenerator`): the reset state satisfies every certificate, each
agent is already done (its only node is its start node) but `finished_agents` is all false: the flags are NOT
fresh, the mask (and `step`) offer moves the rules do not allow.  The real code agrees
(`SplitRandomGenerator(6, 7, 4, 2, 1, 5)`, `reset(PRNGKey(0))`: `get_finished_agents(state) = [True, True]`,
`state.finished_agents = [False, False]`, FIRST timestep with a non-empty mask; the first step moves both agents,
costs -2 and ends the episode) -/
theorem mmst_reset_flagsFresh_k1_witness :
    Shaped MMSTEx.cfgK1 MMSTEx.stK1 ∧ certStart MMSTEx.cfgK1 MMSTEx.stK1 = true ∧
    certTypes MMSTEx.cfgK1 MMSTEx.stK1 = true ∧ certEdgesAdj MMSTEx.cfgK1 MMSTEx.stK1 = true ∧
    certAgentsDisjoint MMSTEx.cfgK1 MMSTEx.stK1 = true ∧ certOwnBlock MMSTEx.cfgK1 MMSTEx.stK1 = true ∧
    ¬ FlagsFresh MMSTEx.cfgK1 MMSTEx.stK1 ∧ agentDone MMSTEx.stK1 0 ∧
    (MMSTEx.stK1.actionMask.getD 0 []).getD 1 false = true ∧ ¬ legal MMSTEx.cfgK1 MMSTEx.stK1 0 1 ∧
    (step MMSTEx.cfgK1 MMSTEx.stK1 [1, 4] [0, 1]).1.positions = [1, 4] ∧
    (step MMSTEx.cfgK1 MMSTEx.stK1 [1, 4] [0, 1]).2.reward = [-2] ∧
    (step MMSTEx.cfgK1 MMSTEx.stK1 [1, 4] [0, 1]).2.stepType = .last := by decide +kernel

/-- a legal action is carried out when no agent BEFORE agent `i` in the draw asks for the same node (agents after
it lose the tie-break against it) and `i` occurs once in the draw `l1 ++ i :: l2` -/
theorem mmst_legal_moves (cfg : Cfg) (s : State) (hS : Shaped cfg s) (hE : EdgesOK cfg s) (hF : FlagsFresh cfg s)
    (action l1 l2 : List Nat) (i : Nat) (hi : i < cfg.numAgents) (hl : action.length = cfg.numAgents)
    (ha : action.getD i 0 < cfg.numNodes) (hleg : legal cfg s i (action.getD i 0))
    (h1 : ∀ k ∈ l1, (targets cfg s (action.map Int.ofNat)).getD k (-1) ≠ ((action.getD i 0 : Nat) : Int))
    (h2 : i ∉ l2) :
    (step cfg s (action.map Int.ofNat) (l1 ++ i :: l2)).1.positionIndex.getD i 0 = s.positionIndex.getD i 0 + 1 ∧
    (step cfg s (action.map Int.ofNat) (l1 ++ i :: l2)).1.positions.getD i 0 = ((action.getD i 0 : Nat) : Int) := by
  obtain ⟨hm, hn⟩ := MMST.legal_moves hS hE hF action l1 l2 hi hl ha hleg h1 h2
  rw [MMST.step_positionIndex cfg s _ _ hi, MMST.step_positions cfg s _ _ hi, if_pos hm, if_pos hm]
  exact ⟨rfl, hn⟩

/-- the converse of `mmst_moved_only_if_legal`: for EVERY valid draw, a legal action whose node no other agent
asks for in this step (uncontested) moves the agent to that node and advances its route index -/
theorem mmst_legal_uncontested_moves (cfg : Cfg) (s : State) (hS : Shaped cfg s) (hE : EdgesOK cfg s)
    (hF : FlagsFresh cfg s) (action perm : List Nat) (hd : validDraw cfg.numAgents perm) (i : Nat)
    (hi : i < cfg.numAgents) (hl : action.length = cfg.numAgents) (ha : action.getD i 0 < cfg.numNodes)
    (hleg : legal cfg s i (action.getD i 0))
    (hunc : ∀ k, k < cfg.numAgents → k ≠ i →
      (targets cfg s (action.map Int.ofNat)).getD k (-1) ≠ ((action.getD i 0 : Nat) : Int)) :
    (step cfg s (action.map Int.ofNat) perm).1.positionIndex.getD i 0 = s.positionIndex.getD i 0 + 1 ∧
    (step cfg s (action.map Int.ofNat) perm).1.positions.getD i 0 = ((action.getD i 0 : Nat) : Int) :=
  MMST.legal_uncontested_moves hS hE hF action perm hd hi hl ha hleg hunc

/-- `step_agrees` in both directions: for an uncontested in-spec action and any valid draw, the environment moves
the agent iff the rules say the action is legal -/
theorem mmst_step_agrees (cfg : Cfg) (s : State) (hS : Shaped cfg s) (hE : EdgesOK cfg s)
    (hF : FlagsFresh cfg s) (action perm : List Nat) (hd : validDraw cfg.numAgents perm) (i : Nat)
    (hi : i < cfg.numAgents) (hl : action.length = cfg.numAgents) (ha : action.getD i 0 < cfg.numNodes)
    (hunc : ∀ k, k < cfg.numAgents → k ≠ i →
      (targets cfg s (action.map Int.ofNat)).getD k (-1) ≠ ((action.getD i 0 : Nat) : Int)) :
    legal cfg s i (action.getD i 0) ↔
      (step cfg s (action.map Int.ofNat) perm).1.positionIndex.getD i 0 ≠ s.positionIndex.getD i 0 := by
  constructor
  · intro hleg
    have := (MMST.legal_uncontested_moves hS hE hF action perm hd hi hl ha hleg hunc).1
    omega
  · exact MMST.moved_only_if_legal hS hE hF action perm hi ha

/-- the hypotheses are satisfiable: at the start of the example agent 0 plays 1 and agent 1 plays 2, nobody
contests, both moves are legal and carried out -/
example : validDraw MMSTEx.cfg.numAgents [1, 0] ∧ legal MMSTEx.cfg MMSTEx.st 0 1 ∧
    (targets MMSTEx.cfg MMSTEx.st ([1, 2].map Int.ofNat)).getD 1 (-1) ≠ ((1 : Nat) : Int) ∧
    (step MMSTEx.cfg MMSTEx.st [1, 2] [1, 0]).1.positions = [1, 2] := by decide +kernel

/-- "uncontested" cannot be dropped: both agents legally ask for the free utility node 2, the one later in the
draw stays where it is (the documented tie-break, not a defect) -/
theorem mmst_legal_contested_not_moved_witness :
    (let s := { MMSTEx.st with positions := [1, 3], connectedIndex := [[0, 1, -1, -1, -1], [-1, -1, -1, 3, -1]],
                               connectedNodes := [[0, 1, -1, -1, -1, -1], [3, -1, -1, -1, -1, -1]],
                               positionIndex := [1, 0], nodesToConnect := [[0, 4], [3, 4]] }
     Feasible MMSTEx.cfg s ∧ FlagsFresh MMSTEx.cfg s ∧ legal MMSTEx.cfg s 0 2 ∧ legal MMSTEx.cfg s 1 2 ∧
     (step MMSTEx.cfg s [2, 2] [1, 0]).1.positionIndex = [1, 1] ∧
     (step MMSTEx.cfg s [2, 2] [0, 1]).1.positionIndex = [2, 0]) := by decide +kernel
end Props.C04

namespace Props.C05
/-- ignore-invalid: the agent whose action is illegal (no edge, utility node taken by another agent, or the
agent is already done) keeps its position, its route index, its route and its visited table, for every draw and
whatever the other agents play -/
theorem mmst_illegal_ignored (cfg : Cfg) (s : State) (hS : Shaped cfg s) (hE : EdgesOK cfg s)
    (hF : FlagsFresh cfg s) (action perm : List Nat) (i : Nat) (hi : i < cfg.numAgents)
    (ha : action.getD i 0 < cfg.numNodes) (hill : ¬ legal cfg s i (action.getD i 0)) :
    let s' := (step cfg s (action.map Int.ofNat) perm).1
    s'.positions.getD i 0 = s.positions.getD i 0 ∧ s'.positionIndex.getD i 0 = s.positionIndex.getD i 0 ∧
    s'.connectedNodes.getD i [] = s.connectedNodes.getD i [] ∧
    s'.connectedIndex.getD i [] = s.connectedIndex.getD i [] :=
  MMST.illegal_ignored hS hE hF action perm hi ha hill

/-- audit r1 entry 15, the WHOLE documented effect of a joint action in the repaired configuration
(`guardVisited`), for every feasible state with fresh flags, every in-spec joint action and every valid draw: the
decidable C05 predicate of the driver holds of the model's own step — every agent with an illegal action keeps
position, route index, route and visited table; the reward is the sum of the documented per-agent rewards
(0 for a done agent, time-step + invalid-choice penalty for an illegal action, 0 for a lost tie-break,
connection reward for a newly connected own node, time-step penalty otherwise) — so the other agents' rewards are
untouched by an illegal choice; and the episode ends only when all agents are done or the time is up -/
theorem mmst_illegalIgnored_repaired (cfg : Cfg) (s : State) (hg : cfg.guardVisited = true)
    (hF : Feasible cfg s) (hFr : FlagsFresh cfg s)
    (hK : ∀ i, i < cfg.numAgents → (s.nodesToConnect.getD i []).length = cfg.numNodesPerAgent)
    (action perm : List Nat) (hd : validDraw cfg.numAgents perm)
    (hl : action.length = cfg.numAgents) (ha : ∀ i, i < cfg.numAgents → action.getD i 0 < cfg.numNodes) :
    illegalIgnored cfg s action (step cfg s (action.map Int.ofNat) perm).1
      (step cfg s (action.map Int.ofNat) perm).2 = true :=
  MMST.illegalIgnored_repaired hg hF hFr hK action perm hd hl ha

/-- … and the edge tables of the other agents do not depend on what an agent with an illegal action asked for:
they are `update_active_edges` of the new positions, in which the offending agent has not moved -/
theorem mmst_illegal_edges (cfg : Cfg) (s : State) (action : List Int) (perm : List Nat) :
    (step cfg s action perm).1.nodeEdges =
      updateActiveEdges cfg.numAgents s.nodeEdges (step cfg s action perm).1.positions s.nodeTypes :=
  MMST.step_nodeEdges cfg s action perm

example : MMSTEx.cfgG.guardVisited = true ∧ Feasible MMSTEx.cfgG MMSTEx.stB ∧ FlagsFresh MMSTEx.cfgG MMSTEx.stB ∧
    validDraw MMSTEx.cfgG.numAgents [0, 1] ∧ ¬ legal MMSTEx.cfgG MMSTEx.stB 1 0 := by decide +kernel

/-- the episode is not ended by an illegal action: LAST only when all agents are done or the time is up -/
theorem mmst_last_only_documented (cfg : Cfg) (s : State) (a : List Int) (p : List Nat) :
    (step cfg s a p).2.stepType = .last ↔
      ((step cfg s a p).1.finished.all id = true ∨ s.stepCount + 1 ≥ (cfg.timeLimit : Int)) :=
  MMST.step_last_iff cfg s a p

/-- agent 0 picks node 3 (no edge): the decidable C05 predicate of the driver holds on the model's own step,
the reward is -1 (agent 1, plain move) + -2 (agent 0, time step + invalid choice) -/
example : ¬ legal MMSTEx.cfg MMSTEx.st 0 3 ∧
    illegalIgnored MMSTEx.cfg MMSTEx.st [3, 2] (step MMSTEx.cfg MMSTEx.st [3, 2] [0, 1]).1
      (step MMSTEx.cfg MMSTEx.st [3, 2] [0, 1]).2 = true ∧
    (step MMSTEx.cfg MMSTEx.st [3, 2] [0, 1]).2.reward = [-3] := by decide +kernel

/-- pinned tree: once an agent has visited the LAST node (here node 4), its invalid choices no longer cost the
invalid-choice penalty, because `connected_nodes_index[agent, -1]` reads the last node (defect): agent 0 connects
node 1 (+10), agent 1 picks node 0 (no edge): documented -1 - 1, total 8; the code gives 10 - 1 = 9 … -/
theorem mmst_invalid_penalty_skipped_witness :
    Feasible MMSTEx.cfg MMSTEx.stB ∧ FlagsFresh MMSTEx.cfg MMSTEx.stB ∧
    ¬ legal MMSTEx.cfg MMSTEx.stB 1 0 ∧ (step MMSTEx.cfg MMSTEx.stB [1, 0] [0, 1]).2.reward = [9] ∧
    illegalIgnored MMSTEx.cfg MMSTEx.stB [1, 0] (step MMSTEx.cfg MMSTEx.stB [1, 0] [0, 1]).1
      (step MMSTEx.cfg MMSTEx.stB [1, 0] [0, 1]).2 = false := by
  decide +kernel

/-- … and with the lookup guarded (`guardVisited`) the same transition carries the documented total 8 -/
example :
    (step MMSTEx.cfgG MMSTEx.stB [1, 0] [0, 1]).2.reward = [8] ∧
    illegalIgnored MMSTEx.cfgG MMSTEx.stB [1, 0] (step MMSTEx.cfgG MMSTEx.stB [1, 0] [0, 1]).1
      (step MMSTEx.cfgG MMSTEx.stB [1, 0] [0, 1]).2 = true := by
  decide +kernel
end Props.C05

namespace Props.C06
/-- tie-break: two different agents that both move in one step to nodes they had not visited before never go to
the same node — for EVERY draw of the permutation (valid or not) and every action list, any number of agents -/
theorem mmst_new_nodes_distinct (cfg : Cfg) (s : State) (action : List Int) (perm : List Nat) (i j : Nat)
    (hi : i < cfg.numAgents) (hj : j < cfg.numAgents) (hij : i ≠ j)
    (hmi : moves ((trim cfg s action perm).getD i (-1)) ((targets cfg s action).getD i (-1)) = true)
    (hmj : moves ((trim cfg s action perm).getD j (-1)) ((targets cfg s action).getD j (-1)) = true)
    (hvi : Jx.getWC (s.connectedIndex.getD i []) (-1) ((targets cfg s action).getD i (-1)) = -1)
    (hvj : Jx.getWC (s.connectedIndex.getD j []) (-1) ((targets cfg s action).getD j (-1)) = -1) :
    (targets cfg s action).getD i (-1) ≠ (targets cfg s action).getD j (-1) :=
  MMST.new_nodes_distinct cfg s action perm hi hj hij hmi hmj hvi hvj

/-- a node an agent is moved to is never a utility node already used by another agent (part of `legal`) -/
theorem mmst_moved_not_taken (cfg : Cfg) (s : State) (hS : Shaped cfg s) (hE : EdgesOK cfg s)
    (hF : FlagsFresh cfg s) (action perm : List Nat) (i : Nat) (hi : i < cfg.numAgents)
    (ha : action.getD i 0 < cfg.numNodes)
    (hm : (step cfg s (action.map Int.ofNat) perm).1.positionIndex.getD i 0 ≠ s.positionIndex.getD i 0) :
    ¬ takenByOther cfg s i (action.getD i 0) :=
  (MMST.moved_only_if_legal hS hE hF action perm hi ha hm).2.2.2.2

/-- both agents want the free utility node 2: exactly the first of the draw gets it, the state stays feasible -/
example : Feasible MMSTEx.cfg (step MMSTEx.cfg MMSTEx.st1 [0, 3] [1, 0]).1 ∧
    (let s := { MMSTEx.st with positions := [1, 3], connectedIndex := [[0, 1, -1, -1, -1], [-1, -1, -1, 3, -1]],
                               connectedNodes := [[0, 1, -1, -1, -1, -1], [3, -1, -1, -1, -1, -1]],
                               positionIndex := [1, 0], nodesToConnect := [[0, 4], [3, 4]] }
     (step MMSTEx.cfg s [2, 2] [1, 0]).1.positions = [1, 2] ∧ (step MMSTEx.cfg s [2, 2] [0, 1]).1.positions = [2, 3] ∧
     Feasible MMSTEx.cfg (step MMSTEx.cfg s [2, 2] [1, 0]).1) := by decide +kernel
/-- the start state of the example satisfies the hard constraint and its bookkeeping; so does the successor in
which agent 1 has taken the utility node -/
example : Feasible MMSTEx.cfg MMSTEx.st ∧ Feasible MMSTEx.cfg MMSTEx.st1 := by decide +kernel
/-! #### `Feasible` is an inductive invariant -/

/-- `Feasible` (= `Shaped ∧ UtilityExclusive ∧ EdgesOK ∧ RouteOK`) is preserved by EVERY step: any joint action
(any list of integers — masked-in or not, in range or not), any draw (a valid permutation or not), any
configuration (pinned or repaired mask / visited lookup, `freshMask`, `guardVisited`) -/
theorem mmst_step_feasible (cfg : Cfg) (s : State) (h : Feasible cfg s) (action : List Int) (perm : List Nat) :
    Feasible cfg (step cfg s action perm).1 := MMST.step_feasible h action perm

/-- … in particular under mask-respecting play (every agent plays a node its cached mask offers, or any node when
its mask row is empty) with a valid tie-break draw, in the repaired configuration -/
theorem mmst_masked_step_feasible (cfg : Cfg) (s : State) (h : Feasible cfg s) (action perm : List Nat)
    (_hc : cfg.freshMask = true ∧ cfg.guardVisited = true) (_hd : validDraw cfg.numAgents perm)
    (_hmask : ∀ i, i < cfg.numAgents →
      (s.actionMask.getD i []).getD (action.getD i 0) false = true ∨ (s.actionMask.getD i []).all (· == false) = true) :
    Feasible cfg (step cfg s (action.map Int.ofNat) perm).1 := MMST.step_feasible h _ perm

/-- … and along every run: all states reached from a feasible state by any sequence of joint actions and draws
are feasible -/
theorem mmst_feasible_along (cfg : Cfg) (s : State) (h : Feasible cfg s) (steps : List (List Int × List Nat)) :
    ∀ s' ∈ statesAlong cfg s steps, Feasible cfg s' := MMST.feasible_along steps h

/-- reset: a state with the configured shapes that satisfies the generator certificates `certStart` (every agent
stands on its first node, routes otherwise empty), `certTypes` (node types = ownership, so start nodes are not
utility nodes) and `certEdgesAdj` (every agent's edge table is the adjacency matrix) is feasible -/
theorem mmst_reset_feasible (cfg : Cfg) (s : State) (hS : Shaped cfg s) (h1 : certStart cfg s = true)
    (h2 : certTypes cfg s = true) (h3 : certEdgesAdj cfg s = true) : Feasible cfg s :=
  MMST.reset_feasible hS h1 h2 h3

/-- a feasible state with fresh flags in which every agent is finished is a complete solution -/
theorem mmst_complete_is_solution (cfg : Cfg) (s : State) (hF : Feasible cfg s) (hFr : FlagsFresh cfg s)
    (hdone : s.finished.all id = true) : IsSolution cfg s := MMST.complete_is_solution hF hFr hdone

/-- the step that ends an episode before the time limit (ended by completion) leaves a complete feasible solution:
every agent has all its nodes on its route and no utility node is shared -/
theorem mmst_step_complete_is_solution (cfg : Cfg) (s : State) (hF : Feasible cfg s) (action : List Int)
    (perm : List Nat)
    (hK : ∀ i, i < cfg.numAgents → (s.nodesToConnect.getD i []).length = cfg.numNodesPerAgent)
    (hlast : (step cfg s action perm).2.stepType = .last) (ht : s.stepCount + 1 < (cfg.timeLimit : Int)) :
    IsSolution cfg (step cfg s action perm).1 := MMST.step_complete_is_solution hF action perm hK hlast ht

/-! #### audit r1 entry 1: routes are walks (`Feasible' = Feasible ∧ RouteWalk`) -/

/-- the old `Feasible` / `IsSolution` do not say that a route is a walk: on the path graph 0-1-2-3-4 the routes
`[0,4]` and `[1,3]` (no such edges) pass them; the strengthened predicates reject the state -/
theorem mmst_feasible_not_walk_witness :
    Feasible MMSTEx.cfg MMSTEx.stJump ∧ FlagsFresh MMSTEx.cfg MMSTEx.stJump ∧ IsSolution MMSTEx.cfg MMSTEx.stJump ∧
    ¬ hasEdge MMSTEx.stJump 0 4 ∧ ¬ hasEdge MMSTEx.stJump 1 3 ∧
    ¬ Feasible' MMSTEx.cfg MMSTEx.stJump ∧ ¬ IsSolution' MMSTEx.cfg MMSTEx.stJump := by decide +kernel

/-- `Feasible'` (hard constraint, bookkeeping, and `RouteWalk`: the route row of every agent has `time_limit`
entries, the filled prefix has length `position_index + 1 ≤ step_count + 1`, consecutive entries are joined by an edge
of the adjacency matrix, the last one is the agent's position) is preserved by EVERY step taken before the time
limit (the step that reaches it included): any joint action, any draw, any configuration -/
theorem mmst_step_feasible' (cfg : Cfg) (s : State) (h : Feasible' cfg s) (ht : s.stepCount < (cfg.timeLimit : Int))
    (action : List Int) (perm : List Nat) : Feasible' cfg (step cfg s action perm).1 :=
  MMST.step_feasible' h ht action perm

/-- … and along every run that stays within the time limit -/
theorem mmst_feasible_along' (cfg : Cfg) (s : State) (h : Feasible' cfg s) (steps : List (List Int × List Nat))
    (hlen : s.stepCount + (steps.length : Int) ≤ (cfg.timeLimit : Int)) :
    ∀ s' ∈ statesAlong cfg s steps, Feasible' cfg s' := MMST.feasible_along' steps h hlen

/-- reset: a state with the configured shapes satisfying the generator certificates, whose route rows have
`time_limit ≥ 1` entries (`max_step = time_limit`), is `Feasible'` -/
theorem mmst_reset_feasible' (cfg : Cfg) (s : State) (hS : Shaped cfg s) (h1 : certStart cfg s = true)
    (h2 : certTypes cfg s = true) (h3 : certEdgesAdj cfg s = true) (hT : 1 ≤ cfg.timeLimit)
    (hL : ∀ i, i < cfg.numAgents → (s.connectedNodes.getD i []).length = cfg.timeLimit) : Feasible' cfg s :=
  MMST.reset_feasible' hS h1 h2 h3 hT hL

/-- the step that ends an episode before the time limit (ended by completion) leaves a strengthened solution … -/
theorem mmst_step_complete_is_solution' (cfg : Cfg) (s : State) (hF : Feasible' cfg s) (action : List Int)
    (perm : List Nat)
    (hK : ∀ i, i < cfg.numAgents → (s.nodesToConnect.getD i []).length = cfg.numNodesPerAgent)
    (hlast : (step cfg s action perm).2.stepType = .last) (ht : s.stepCount + 1 < (cfg.timeLimit : Int)) :
    IsSolution' cfg (step cfg s action perm).1 := MMST.step_complete_is_solution' hF action perm hK hlast ht

/-- … and a strengthened solution is what the environment's goal says: all nodes to connect of agent `i` are
reachable from each other by graph edges INSIDE its own route (`ReachIn s (onRoute s i)`: every node of the path,
end points included, is on the route of `i`), and the routes of two different agents share no utility node -/
theorem mmst_solution_connects (cfg : Cfg) (s : State) (h : IsSolution' cfg s) :
    (∀ i, i < cfg.numAgents → ∀ u v : Nat, (u : Int) ∈ s.nodesToConnect.getD i [] →
        (v : Int) ∈ s.nodesToConnect.getD i [] → ReachIn s (onRoute s i) u v) ∧
    (∀ i j, i < cfg.numAgents → j < cfg.numAgents → i ≠ j → ∀ v, isUtility s v →
        ¬ (onRoute s i v ∧ onRoute s j v)) := MMST.solution_connects h

/-- both together: when the episode ends by completion every agent's nodes to connect are pairwise connected
inside its own route and no utility node is on two routes -/
theorem mmst_step_complete_connects (cfg : Cfg) (s : State) (hF : Feasible' cfg s) (action : List Int)
    (perm : List Nat)
    (hK : ∀ i, i < cfg.numAgents → (s.nodesToConnect.getD i []).length = cfg.numNodesPerAgent)
    (hlast : (step cfg s action perm).2.stepType = .last) (ht : s.stepCount + 1 < (cfg.timeLimit : Int)) :
    let s' := (step cfg s action perm).1
    (∀ i, i < cfg.numAgents → ∀ u v : Nat, (u : Int) ∈ s'.nodesToConnect.getD i [] →
        (v : Int) ∈ s'.nodesToConnect.getD i [] → ReachIn s' (onRoute s' i) u v) ∧
    (∀ i j, i < cfg.numAgents → j < cfg.numAgents → i ≠ j → ∀ v, isUtility s' v →
        ¬ (onRoute s' i v ∧ onRoute s' j v)) :=
  MMST.solution_connects (MMST.step_complete_is_solution' hF action perm hK hlast ht)

/-- any two nodes of a route are connected inside the route (not only the nodes to connect) -/
theorem mmst_route_connected (cfg : Cfg) (s : State) (h : Feasible' cfg s) (i : Nat)
    (hi : i < cfg.numAgents) (u v : Nat) (hu : onRoute s i u) (hv : onRoute s i v) : ReachIn s (onRoute s i) u v :=
  MMST.route_connected h.2 hi hu hv

/-- the start state of the example is `Feasible'`, so are its successors; the two-step… one-step episode that ends
by completion leaves a strengthened solution; a state at the time limit in which agent 1 moved in every step
(`position_index = time_limit`, last write dropped) is still `Feasible'` -/
example : Feasible' MMSTEx.cfg MMSTEx.st ∧ Feasible' MMSTEx.cfg MMSTEx.st1 ∧
    (∀ i, i < MMSTEx.cfg.numAgents → (MMSTEx.st.connectedNodes.getD i []).length = MMSTEx.cfg.timeLimit) ∧
    (step MMSTEx.cfgG MMSTEx.st [1, 4] [0, 1]).2.stepType = .last ∧
    IsSolution' MMSTEx.cfgG (step MMSTEx.cfgG MMSTEx.st [1, 4] [0, 1]).1 := by decide +kernel
example :
    (let cfg2 : Cfg := { MMSTEx.cfgR with timeLimit := 2 }
     let s0 : State := { MMSTEx.st with connectedNodes := [[0, -1], [3, -1]], nodesToConnect := [[0, 1], [3, 0]],
                                         nodeTypes := [0, 0, -1, 1, -1] }
     let s2 := (step cfg2 (step cfg2 s0 [0, 2] [0, 1]).1 [0, 1] [0, 1]).1
     Feasible' cfg2 s0 ∧ s2.positionIndex = [0, 2] ∧ s2.connectedNodes = [[0, -1], [3, 2]] ∧ s2.positions = [0, 1] ∧
     Feasible' cfg2 s2) := by decide +kernel

/-- the start state of the example satisfies the certificates -/
example : Shaped MMSTEx.cfg MMSTEx.st ∧ certStart MMSTEx.cfg MMSTEx.st = true ∧ certTypes MMSTEx.cfg MMSTEx.st = true ∧
    certEdgesAdj MMSTEx.cfg MMSTEx.st = true := by decide +kernel
/-- an episode of the example that ends by completion after two steps (agent 0: 0→1; agent 1: 3→4) -/
example : (step MMSTEx.cfgG MMSTEx.st [1, 4] [0, 1]).2.stepType = .last ∧
    MMSTEx.st.stepCount + 1 < (MMSTEx.cfgG.timeLimit : Int) ∧
    IsSolution MMSTEx.cfgG (step MMSTEx.cfgG MMSTEx.st [1, 4] [0, 1]).1 := by decide +kernel
end Props.C06

namespace Props.C11
/-- every step advances the step counter by one -/
theorem mmst_step_count (cfg : Cfg) (s : State) (a : List Int) (p : List Nat) :
    (step cfg s a p).1.stepCount = s.stepCount + 1 := MMST.step_count cfg s a p

/-- the episode ends at the latest when the time limit is reached -/
theorem mmst_time_limit (cfg : Cfg) (s : State) (a : List Int) (p : List Nat)
    (h : s.stepCount + 1 ≥ (cfg.timeLimit : Int)) : (step cfg s a p).2.stepType = .last :=
  MMST.time_limit cfg s a p h
end Props.C11

namespace Props.C12
/-- the observation returned by `step` is the environment's observation function of the successor state (mask,
positions, step count, adjacency copied from it) -/
theorem mmst_obs_faithful (cfg : Cfg) (s : State) (a : List Int) (p : List Nat) :
    (step cfg s a p).2.obs = observeL1 cfg (step cfg s a p).1 := MMST.obs_faithful cfg s a p

/-- relabelling: the arithmetic of `_state_to_observation` produces, node by node, the documented labels —
`2k` for a node connected by agent `k`, `2t + 1` for an unconnected node of type `t`, `-1` for an unconnected
utility node — for any number of agents and nodes -/
theorem mmst_relabel_consistent (cfg : Cfg) (s : State) (hS : Shaped cfg s)
    (hT : ∀ t ∈ s.nodeTypes, -1 ≤ t ∧ t < (cfg.numAgents : Int)) (v : Nat) (hv : v < cfg.numNodes) :
    (observeL1 cfg s).nodeTypes.getD v 0 = (observe cfg s).nodeTypes.getD v 0 := by
  show (obsNodeTypes cfg.numAgents s.nodeTypes s.connectedIndex).getD v 0 = _
  rw [MMST.relabel_eq_spec hS hT hv]
  simp [observe, List.getD_eq_getElem?_getD, hv]

theorem mmst_relabel_length (cfg : Cfg) (s : State) (hS : Shaped cfg s) :
    (observeL1 cfg s).nodeTypes.length = (observe cfg s).nodeTypes.length := by
  show (obsNodeTypes cfg.numAgents s.nodeTypes s.connectedIndex).length = _
  rw [MMST.obsNodeTypes_length hS]; simp [observe]

/-- audit r1 entry 14: the L2 observation `observe` carries the mask the RULES prescribe (`legalMask`, recomputed from
`legal`) and the documented labels; the environment's observation function `_state_to_observation` (cached mask,
relabelling arithmetic) yields exactly it on every state whose arrays are in shape, whose edge tables and finished
flags are up to date, whose node types are in range and whose cached mask is the mask function of its arrays -/
theorem mmst_obs_eq (cfg : Cfg) (s : State) (hS : Shaped cfg s) (hE : EdgesOK cfg s) (hF : FlagsFresh cfg s)
    (hT : ∀ t ∈ s.nodeTypes, -1 ≤ t ∧ t < (cfg.numAgents : Int))
    (hM : s.actionMask = makeMask cfg.numAgents s.nodeEdges s.positions s.finished) :
    observeL1 cfg s = observe cfg s := MMST.obs_eq hS hE hF hT hM

/-- … hence the observation returned by EVERY step from a feasible state, in the repaired configuration
(`freshMask`), is the documented observation of the successor: any joint action, any draw -/
theorem mmst_step_obs_eq (cfg : Cfg) (s : State) (hc : cfg.freshMask = true) (hF : Feasible cfg s)
    (hK : ∀ i, i < cfg.numAgents → (s.nodesToConnect.getD i []).length = cfg.numNodesPerAgent)
    (hT : ∀ t ∈ s.nodeTypes, -1 ≤ t ∧ t < (cfg.numAgents : Int)) (action : List Int) (perm : List Nat) :
    (step cfg s action perm).2.obs = observe cfg (step cfg s action perm).1 :=
  MMST.step_obs_eq hc hF hK hT action perm

/-- gap C12, reset (`reset cfg s = (s, restart(_state_to_observation(s)))` for the state `s` the generator returns):
a FIRST timestep, reward 0, discount 1, whose observation is the documented observation of the generated state
(generator certificates; at least two nodes per agent) -/
theorem mmst_reset_obs (cfg : Cfg) (s : State) (hS : Shaped cfg s) (h1 : certStart cfg s = true)
    (h2 : certTypes cfg s = true) (h3 : certEdgesAdj cfg s = true) (h4 : certAgentsDisjoint cfg s = true)
    (hK : 2 ≤ cfg.numNodesPerAgent) :
    (reset cfg s).1 = s ∧ (reset cfg s).2.stepType = .first ∧ (reset cfg s).2.reward = [0] ∧
    (reset cfg s).2.discount = [1] ∧ (reset cfg s).2.obs = observe cfg s := MMST.reset_obs hS h1 h2 h3 h4 hK

/-- pinned configuration (stale finished flags in the cached mask): the observation returned by the step in which
agent 0 finishes is NOT the documented one — its mask row offers node 0 and node 2 to the finished agent -/
theorem mmst_obs_stale_mask_witness :
    (step MMSTEx.cfg MMSTEx.st [1, 2] [0, 1]).2.stepType = .mid ∧
    (step MMSTEx.cfg MMSTEx.st [1, 2] [0, 1]).2.obs ≠ observe MMSTEx.cfg MMSTEx.st1 ∧
    (step MMSTEx.cfg MMSTEx.st [1, 2] [0, 1]).2.obs.actionMask.getD 0 [] = [true, false, false, false, false] ∧
    (observe MMSTEx.cfg MMSTEx.st1).actionMask.getD 0 [] = [false, false, false, false, false] := by decide +kernel

/-- the same step in the repaired configuration; the reset state of the example -/
example : (observe MMSTEx.cfgR (step MMSTEx.cfgR MMSTEx.st [1, 2] [0, 1]).1).nodeTypes = [0, 0, 2, 2, 3] ∧
    (step MMSTEx.cfgR MMSTEx.st [1, 2] [0, 1]).2.obs = observe MMSTEx.cfgR (step MMSTEx.cfgR MMSTEx.st [1, 2] [0, 1]).1 ∧
    (reset MMSTEx.cfgR MMSTEx.st).2.obs = observe MMSTEx.cfgR MMSTEx.st ∧
    certAgentsDisjoint MMSTEx.cfgR MMSTEx.st = true := by
  decide +kernel
end Props.C12

namespace Props.C10
/-- gap C10 (a): the generator certificates `certOwnBlock` (every node to connect of agent `k` lies in block `k` of
`np.array_split(arange N, A)`) and `certBlocksConnected` (every block induces a connected subgraph) make the
instance solvable: for every agent the block `blockOf N A k` is a connected subgraph (any two of its nodes are joined
by a path that stays inside it) containing all its nodes to connect, and the blocks of different agents are
node-disjoint — so node-disjoint trees connecting every agent's nodes exist (a spanning tree of each block) -/
theorem mmst_cert_solvable (cfg : Cfg) (s : State) (h1 : certOwnBlock cfg s = true)
    (h2 : certBlocksConnected cfg s = true) :
    (∀ k, k < cfg.numAgents →
        (∀ v : Nat, (v : Int) ∈ s.nodesToConnect.getD k [] → v ∈ blockOf cfg.numNodes cfg.numAgents k) ∧
        (∀ u ∈ blockOf cfg.numNodes cfg.numAgents k, ∀ v ∈ blockOf cfg.numNodes cfg.numAgents k,
            ReachIn s (· ∈ blockOf cfg.numNodes cfg.numAgents k) u v)) ∧
    (∀ j k, j ≠ k → ∀ v, v ∈ blockOf cfg.numNodes cfg.numAgents j → v ∉ blockOf cfg.numNodes cfg.numAgents k) :=
  MMST.cert_solvable h1 h2

/-- … in particular any two nodes to connect of an agent are joined by a path inside the agent's own block -/
theorem mmst_cert_solvable_pairs (cfg : Cfg) (s : State) (h1 : certOwnBlock cfg s = true)
    (h2 : certBlocksConnected cfg s = true) (k : Nat) (hk : k < cfg.numAgents) (u v : Nat)
    (hu : (u : Int) ∈ s.nodesToConnect.getD k []) (hv : (v : Int) ∈ s.nodesToConnect.getD k []) :
    ReachIn s (· ∈ blockOf cfg.numNodes cfg.numAgents k) u v := MMST.cert_solvable_pairs h1 h2 k hk u v hu hv

/-- the blocks of `np.array_split` are pairwise disjoint sets of node indices (all N, A) -/
theorem mmst_blocks_disjoint (N A j k : Nat) (hjk : j ≠ k) : ∀ v, v ∈ blockOf N A j → v ∉ blockOf N A k :=
  MMST.blockOf_disjoint N A j k hjk
theorem mmst_blocks_in_range (N A k : Nat) (hk : k < A) : ∀ v ∈ blockOf N A k, v < N := MMST.blockOf_lt N A k hk

/-- `certGraphConnected`: any two nodes of the graph are joined by a path -/
theorem mmst_cert_graph_connected (cfg : Cfg) (s : State) (h : certGraphConnected cfg s = true) :
    ∀ u, u < cfg.numNodes → ∀ v, v < cfg.numNodes → ReachIn s (· < cfg.numNodes) u v := MMST.graphConnected_reach h

/-- `certSymmetric`: the graph is undirected (`Linked` = `hasEdge`) -/
theorem mmst_cert_symmetric (cfg : Cfg) (s : State) (h : certSymmetric cfg s = true) (u v : Nat)
    (hu : u < cfg.numNodes) (hv : v < cfg.numNodes) : hasEdge s u v ↔ hasEdge s v u := MMST.cert_symmetric h hu hv

/-- `certLoopless`: a legal move always changes the agent's node -/
theorem mmst_cert_loopless_legal (cfg : Cfg) (s : State) (hS : Shaped cfg s) (h : certLoopless cfg s = true)
    (i a : Nat) (hl : legal cfg s i a) : (a : Int) ≠ s.positions.getD i 0 := MMST.cert_loopless_legal hS h hl

/-- `certDegree bound` (with the 0/1 certificate): no agent ever has more than `bound` legal moves.  (On the
pinned tree the certificate holds with `bound = max_degree + 1`, not `max_degree`: known finding MM3.) -/
theorem mmst_cert_degree_legal_count (cfg : Cfg) (s : State) (hS : Shaped cfg s) (hb : certBinary s = true)
    (bound : Nat) (h : certDegree cfg s bound = true) (i : Nat) (hi : i < cfg.numAgents) :
    ((List.range cfg.numNodes).filter (fun a => decide (legal cfg s i a))).length ≤ bound :=
  MMST.cert_degree_legal_count hS hb h hi

example : certOwnBlock MMSTEx.cfg MMSTEx.st = true ∧ certBlocksConnected MMSTEx.cfg MMSTEx.st = true ∧
    certGraphConnected MMSTEx.cfg MMSTEx.st = true ∧ certSymmetric MMSTEx.cfg MMSTEx.st = true ∧
    certLoopless MMSTEx.cfg MMSTEx.st = true ∧ certBinary MMSTEx.st = true ∧
    certDegree MMSTEx.cfg MMSTEx.st 2 = true ∧ blockOf 5 2 0 = [0, 1, 2] ∧ blockOf 5 2 1 = [3, 4] := by decide +kernel

/-! #### gap C10 (b): `SplitRandomGenerator.__call__` transliterated (`generate`, Env/MMST/GenModel.lean)

The graph handed over by `_generate_graph` is a parameter constrained by `graphOK` (the edge table is the adjacency
matrix written with node values); `multi_random_walk` itself is not transliterated (its certificates `certSymmetric`,
`certLoopless`, `certDegree`, `certBlocksConnected`, `certGraphConnected` are evaluated on every implementation reset
state by `mmst.instance`; MM3/MM4 of known_findings.json are violations of two of them).  The per-agent
`choice(block, [K], replace=False)` is the draw `comps`. -/

/-- for EVERY valid draw and every `graphOK` graph the generated state has the configured shapes and satisfies
`certStart`, `certTypes`, `certEdgesAdj`, `certAgentsDisjoint`, `certOwnBlock`, and its route rows have
`time_limit` entries -/
theorem mmst_generate_certs (cfg : Cfg) (d : GenDraw) (hv : validGenDraw cfg d) (hg : graphOK cfg d)
    (hK : 1 ≤ cfg.numNodesPerAgent) (hT : 1 ≤ cfg.timeLimit) :
    Shaped cfg (generate cfg d) ∧ certStart cfg (generate cfg d) = true ∧ certTypes cfg (generate cfg d) = true ∧
    certEdgesAdj cfg (generate cfg d) = true ∧ certAgentsDisjoint cfg (generate cfg d) = true ∧
    certOwnBlock cfg (generate cfg d) = true ∧
    (∀ k, k < cfg.numAgents → ((generate cfg d).connectedNodes.getD k []).length = cfg.timeLimit) :=
  MMST.generate_certs hv hg hK hT

/-- … hence every generated state is `Feasible'`, and with K ≥ 2 its flags are fresh -/
theorem mmst_generate_feasible' (cfg : Cfg) (d : GenDraw) (hv : validGenDraw cfg d) (hg : graphOK cfg d)
    (hK : 1 ≤ cfg.numNodesPerAgent) (hT : 1 ≤ cfg.timeLimit) : Feasible' cfg (generate cfg d) :=
  MMST.generate_feasible' hv hg hK hT
theorem mmst_generate_flagsFresh (cfg : Cfg) (d : GenDraw) (hv : validGenDraw cfg d) (hg : graphOK cfg d)
    (hK : 2 ≤ cfg.numNodesPerAgent) (hT : 1 ≤ cfg.timeLimit) : FlagsFresh cfg (generate cfg d) :=
  MMST.generate_flagsFresh hv hg hK hT

/-- the draws can be read back off the generated state: the driver's `generator_replay` certificate
(`generate cfg (drawOf s) = s` on implementation reset states) loses nothing -/
theorem mmst_generate_drawOf (cfg : Cfg) (d : GenDraw) (hv : validGenDraw cfg d) (hK : 1 ≤ cfg.numNodesPerAgent)
    (hA : 1 ≤ cfg.numAgents) : drawOf (generate cfg d) = d := MMST.generate_drawOf' hv hK hA

/-- the running example IS a generated state -/
example : validGenDraw MMSTEx.cfg MMSTEx.draw ∧ graphOK MMSTEx.cfg MMSTEx.draw ∧
    generate MMSTEx.cfg MMSTEx.draw = MMSTEx.st ∧ drawOf MMSTEx.st = MMSTEx.draw := by decide +kernel

/-- with one node per agent (accepted by the generator) the flags of a generated state are not fresh:
see `Props.C04.mmst_reset_flagsFresh_k1_witness` -/
theorem mmst_generate_flagsFresh_k1_witness :
    validGenDraw MMSTEx.cfgK1 { MMSTEx.draw with comps := [[0], [3]] } ∧
    graphOK MMSTEx.cfgK1 { MMSTEx.draw with comps := [[0], [3]] } ∧
    generate MMSTEx.cfgK1 { MMSTEx.draw with comps := [[0], [3]] } = MMSTEx.stK1 ∧
    ¬ FlagsFresh MMSTEx.cfgK1 MMSTEx.stK1 := by decide +kernel
end Props.C10

namespace Props.C12
/-- gap C12 on the transliterated generator: `reset` of every generated state (valid draws, K ≥ 2) is a FIRST
timestep carrying the documented observation -/
theorem mmst_generate_reset_obs (cfg : Cfg) (d : GenDraw) (hv : validGenDraw cfg d) (hg : graphOK cfg d)
    (hK : 2 ≤ cfg.numNodesPerAgent) (hT : 1 ≤ cfg.timeLimit) :
    (reset cfg (generate cfg d)).2.stepType = .first ∧
    (reset cfg (generate cfg d)).2.obs = observe cfg (generate cfg d) := MMST.generate_reset_obs hv hg hK hT
end Props.C12

namespace Props.C01
/-- the bounds invariant `BInv` (one position per agent, each in `[0, N)`; edge-table entries in `[-1, N)`;
0/1 adjacency matrix) follows from `Feasible` plus the generator certificate "adjacency matrix is 0/1" … -/
theorem mmst_binv_of_feasible (cfg : Cfg) (s : State) (hF : Feasible cfg s) (hb : certBinary s = true) :
    BInv cfg s := MMST.binv_of_feasible hF hb

/-- … and is preserved by every step: any joint action (in-spec or not), any draw (valid permutation or not) -/
theorem mmst_step_binv (cfg : Cfg) (s : State) (h : BInv cfg s) (a : List Int) (p : List Nat) :
    BInv cfg (step cfg s a p).1 := MMST.step_binv h a p

/-- reset: the observation of a generated state (`_state_to_observation`; step count 0) has every leaf inside its
interval of `obsBounds cfg`: `node_types ∈ [-1, 2A-1]`, `adj_matrix ∈ [0, 1]`, `positions ∈ [0, N-1]` (declared:
`[-1, N-1]`), `step_count ∈ [0, time_limit]`, `action_mask ∈ [0, 1]` -/
theorem mmst_reset_obs_in_bounds (cfg : Cfg) (s : State) (hA : 0 < cfg.numAgents) (h : BInv cfg s)
    (hs : s.stepCount = 0) : ObsInBounds (obsBounds cfg) (observeL1 cfg s) :=
  MMST.reset_obs_in_bounds cfg s hA h hs

/-- step: from every state with the invariant whose step count lies in `[0, time_limit)` (the step that reaches
`time_limit` included), for every joint action and every draw, every leaf of the observation is inside its
interval of `obsBounds cfg` -/
theorem mmst_step_obs_in_bounds (cfg : Cfg) (s : State) (a : List Int) (p : List Nat) (hA : 0 < cfg.numAgents)
    (h : BInv cfg s) (h0 : 0 ≤ s.stepCount) (hT : s.stepCount < (cfg.timeLimit : Int)) :
    ObsInBounds (obsBounds cfg) (step cfg s a p).2.obs := MMST.step_obs_in_bounds cfg s a p hA h h0 hT

/-- the bounds list covers every leaf of the observation -/
theorem mmst_obs_bounds_cover (cfg : Cfg) (o : Obs) :
    (obsLeaves o).map (·.1) = (obsBounds cfg).map (·.1) := MMST.obsBounds_cover cfg o

example : BInv Props.MMSTEx.cfg Props.MMSTEx.st ∧ BInv Props.MMSTEx.cfg Props.MMSTEx.st1 ∧
    Feasible Props.MMSTEx.cfg Props.MMSTEx.st ∧ certBinary Props.MMSTEx.st = true := by decide +kernel
/-- the upper bound of `node_types` is attained (an unconnected node of the last agent shows `2·1 + 1 = 3 = 2A - 1`) -/
example : (observeL1 Props.MMSTEx.cfg Props.MMSTEx.st).nodeTypes = [0, 1, -1, 2, 3] := by decide +kernel
/-! NOTE on what the membership theorems of this section do and do not cover (audits r4 #6, r5 #6, r6 #8): the dtype tag of every leaf
is written by `toNValue` (by construction) — a wrong dtype in the real code cannot falsify `….valid (toNValue …) = true`; dtypes and
field order of the real observations are compared by the `mmst.spec` / `mmst.state` ops (`nvalue`: field order, shape, dtype, data) and
`jax.eval_shape` in the sweeps.  Shapes are READ OFF the value by `toNValue` (widths off the first row): see `…_obs_valid_only`. -/

/-! #### (wave 4) membership in the DECLARED specs: structure, shapes, dtypes and bounds -/
open Sp PzS PkS

/-- the catalogue configuration `mmst-small`: MMST(SplitRandomGenerator(num_nodes=12, …, num_agents=2,
num_nodes_per_agent=3), time_limit=9) -/
def mmstSmall : Cfg := { numAgents := 2, numNodes := 12, numNodesPerAgent := 3, timeLimit := 9, rConn := 10, rStep := -1, rNoop := -1 }

/-- the spec-only configuration `spec-only-mmst-10x3x2`: MMST(SplitRandomGenerator(num_nodes=10, num_edges=14, max_degree=4,
num_agents=3, num_nodes_per_agent=2), time_limit=11) -/
def mmstSpecOnly : Cfg := { numAgents := 3, numNodes := 10, numNodesPerAgent := 2, timeLimit := 11, rConn := 10, rStep := -1, rNoop := -1 }

/-- the model's `obsSpec` / `actionSpec` / reward and discount specs ARE the specs generated from the real spec objects
(Gen/Specs.lean) for the catalogue configuration `mmst-small`: fields `node_types`, `adj_matrix`, `positions`, `step_count`,
`action_mask` in this order; shapes `(N,)`, `(N, N)`, `(A,)`, `()`, `(A, N)`; dtypes int32 ×4, bool; bounds `[-1, 2A-1]`,
`[0, 1]`, `[-1, N-1]`, `[0, time_limit]`, `[False, True]`.  (All leaves are in the generated table; every other adapter
configuration is compared at run time by the `mmst.spec` op.)
SPEC-ONLY second configuration `mmstSpecOnly` = MMST(SplitRandomGenerator(10, 14, 4, num_agents=3, num_nodes_per_agent=2), time_limit=11):
`N = 10`, `A = 3`, `2A − 1 = 5`, `N − 1 = 9`, limit 11 pairwise distinct -/
theorem mmst_obsSpec_generated :
    prefixed "observation_spec." (obsSpec mmstSmall) = declared "mmst-small" "observation_spec." ∧
    [("action_spec", actionSpec mmstSmall)] = declared "mmst-small" "action_spec" ∧
    [("reward_spec", rewardSpec)] = declared "mmst-small" "reward_spec" ∧
    [("discount_spec", discountSpec)] = declared "mmst-small" "discount_spec" ∧
    prefixed "observation_spec." (obsSpec mmstSpecOnly) = declared "spec-only-mmst-10x3x2" "observation_spec." ∧
    [("action_spec", actionSpec mmstSpecOnly)] = declared "spec-only-mmst-10x3x2" "action_spec" ∧
    [("reward_spec", rewardSpec)] = declared "spec-only-mmst-10x3x2" "reward_spec" ∧
    [("discount_spec", discountSpec)] = declared "spec-only-mmst-10x3x2" "discount_spec" := by
  refine ⟨by decide +kernel, by decide +kernel, by decide +kernel, by decide +kernel, by decide +kernel, by decide +kernel,
    by decide +kernel, by decide +kernel⟩

/-- the invariant behind the membership theorems — configured array shapes (`Shaped`), value ranges (`BInv`: positions in
`[0, N)`, edge tables in `[-1, N)`, 0/1 adjacency matrix), a mask of shape `(A, N)` and a non-negative counter — holds for
every feasible state with a 0/1 adjacency matrix, in particular for EVERY state the generator produces (`generate`: any
valid draw of the agents' nodes, any graph satisfying `graphOK` with 0/1 entries), and is preserved by EVERY step: any joint
action (any list of integers, in the action space or not, legal or not), any draw (a valid permutation or not), MID or LAST -/
theorem mmst_specInv_invariant (cfg : Cfg) :
    (∀ s, Feasible cfg s → certBinary s = true → Rect2 s.actionMask cfg.numAgents cfg.numNodes → 0 ≤ s.stepCount →
      SpecInv cfg s) ∧
    (∀ d, validGenDraw cfg d → graphOK cfg d → (∀ r ∈ d.adj, ∀ x ∈ r, x = 0 ∨ x = 1) → 1 ≤ cfg.numNodesPerAgent →
      1 ≤ cfg.timeLimit → SpecInv cfg (generate cfg d)) ∧
    (∀ (s : State) (a : List Int) (p : List Nat), SpecInv cfg s → SpecInv cfg (step cfg s a p).1) :=
  ⟨fun _ hF hb hm h0 => MMST.specInv_of_feasible hF hb hm h0,
   fun _ hv hg hb hK hT => MMST.generate_specInv hv hg hb hK hT,
   fun _ a p h => MMST.step_specInv h a p⟩

/-- the `reset` observation of every state with the invariant and counter 0 is accepted by `observation_spec.validate`,
all sizes with at least one agent and one node … -/
theorem mmst_reset_obs_valid (cfg : Cfg) (hA : 0 < cfg.numAgents) (hN : 0 < cfg.numNodes) (s : State)
    (h : SpecInv cfg s) (hs : s.stepCount = 0) : (obsSpec cfg).valid (toNValue (reset cfg s).2.obs) = true :=
  MMST.reset_obs_valid cfg hA hN s h hs

/-- … in particular for EVERY draw of the generator: the reset observation of `reset (generate cfg d)` is a member -/
theorem mmst_reset_obs_valid_generated (cfg : Cfg) (hA : 0 < cfg.numAgents) (hN : 0 < cfg.numNodes) (d : GenDraw)
    (hv : validGenDraw cfg d) (hg : graphOK cfg d) (hb : ∀ r ∈ d.adj, ∀ x ∈ r, x = 0 ∨ x = 1)
    (hK : 1 ≤ cfg.numNodesPerAgent) (hT : 1 ≤ cfg.timeLimit) :
    (obsSpec cfg).valid (toNValue (reset cfg (generate cfg d)).2.obs) = true :=
  MMST.reset_obs_valid cfg hA hN _ (MMST.generate_specInv hv hg hb hK hT) (by simp [generate])

/-- the observation of EVERY `step` — any joint action (in the action space or not, legal or not), every draw, MID or
LAST — from every state with the invariant whose counter has not reached the limit (the step that reaches `time_limit`
included: the declared maximum of `step_count` is `time_limit`, inclusive) -/
theorem mmst_step_obs_valid (cfg : Cfg) (hA : 0 < cfg.numAgents) (hN : 0 < cfg.numNodes) (s : State)
    (h : SpecInv cfg s) (hlim : s.stepCount < (cfg.timeLimit : Int)) (a : List Int) (p : List Nat) :
    (obsSpec cfg).valid (toNValue (step cfg s a p).2.obs) = true := MMST.step_obs_valid cfg hA hN s h hlim a p

/-- WHOLE EPISODES: along the rollout (`Ep.rollout` = the L1 step iterated) of ANY joint actions and draws from a reset
state, every observation emitted by one of the first `time_limit` steps is a member of the spec; the first LAST timestep is
among them (`mmst_time_limit`: step number `time_limit` is LAST at the latest) -/
theorem mmst_rollout_obs_valid (cfg : Cfg) (hA : 0 < cfg.numAgents) (hN : 0 < cfg.numNodes) (s0 : State)
    (h0 : SpecInv cfg s0) (hs0 : s0.stepCount = 0) (as : List (List Int × List Nat)) (j : Nat) (hj : j < cfg.timeLimit)
    (e : State × TimeStep Obs)
    (he : (Ep.rollout (fun s (a : List Int × List Nat) => step cfg s a.1 a.2) s0 as)[j]? = some e) :
    (obsSpec cfg).valid (toNValue e.2.obs) = true := MMST.rollout_obs_valid cfg hA hN s0 h0 hs0 as j hj e he

/-- what membership means (so the theorems above are not hollow): `validate` accepts an observation ONLY IF the arrays have
the declared shapes, the labels lie in `[-1, 2A-1]`, the matrix is 0/1, the positions lie in `[-1, N-1]` and the counter in
`[0, time_limit]`  CAVEAT (audits r4 #7, r5 #5, r6 #5): for every field that is a nested list, `toNValue` reads the widths off the FIRST row of the
nested list, so the shape conjuncts here mean "row count, length of the first row, total number of cells" — a ragged value with the right total can be a
member, and nothing is concluded about the later rows.  Rectangularity is part of the invariant (`SpecInv` / `Shaped` / `Rect…`) under which the
forward theorems (`…_reset_obs_valid`, `…_step_obs_valid`, `…_along`) are proved, i.e. it holds of every EMITTED observation. -/
theorem mmst_obs_valid_only (cfg : Cfg) (o : Obs) (h : (obsSpec cfg).valid (toNValue o) = true) :
    o.nodeTypes.length = cfg.numNodes ∧ (∀ v ∈ o.nodeTypes, -1 ≤ v ∧ v ≤ 2 * (cfg.numAgents : Int) - 1) ∧
    shape2 o.adj = [cfg.numNodes, cfg.numNodes] ∧ (∀ v ∈ o.adj.flatten, 0 ≤ v ∧ v ≤ 1) ∧
    o.positions.length = cfg.numAgents ∧ (∀ v ∈ o.positions, -1 ≤ v ∧ v ≤ (cfg.numNodes : Int) - 1) ∧
    0 ≤ o.stepCount ∧ o.stepCount ≤ (cfg.timeLimit : Int) ∧
    shape2 o.actionMask = [cfg.numAgents, cfg.numNodes] := MMST.obs_valid_only cfg o h

/-- the running example (5 nodes, 2 agents) satisfies the invariant at the start and after a step; its reset observation
is a member, and membership fails for a counter beyond the limit, a label beyond `2A - 1`, and under another size -/
example : SpecInv Props.MMSTEx.cfg Props.MMSTEx.st ∧ SpecInv Props.MMSTEx.cfg Props.MMSTEx.st1 ∧
    (obsSpec Props.MMSTEx.cfg).valid (toNValue (reset Props.MMSTEx.cfg Props.MMSTEx.st).2.obs) = true ∧
    (obsSpec Props.MMSTEx.cfg).valid (toNValue { (reset Props.MMSTEx.cfg Props.MMSTEx.st).2.obs with stepCount := 7 }) = false ∧
    (obsSpec Props.MMSTEx.cfg).valid
      (toNValue { (reset Props.MMSTEx.cfg Props.MMSTEx.st).2.obs with nodeTypes := [0, 1, -1, 2, 4] }) = false ∧
    (obsSpec { Props.MMSTEx.cfg with numNodes := 6 }).valid (toNValue (reset Props.MMSTEx.cfg Props.MMSTEx.st).2.obs) = false := by
  decide +kernel

/-- reward and discount of every `step` (ALL states, ALL joint actions, all draws) and of `reset` are accepted by
`reward_spec` (Array((), float)) and `discount_spec` (BoundedArray((), float, 0, 1)) -/
theorem mmst_reward_discount_valid (cfg : Cfg) (s : State) (a : List Int) (p : List Nat) :
    rewardSpec.valid (scalarArr (step cfg s a p).2.reward) = true ∧
    discountSpec.valid (scalarArr (step cfg s a p).2.discount) = true ∧
    rewardSpec.valid (scalarArr (reset cfg s).2.reward) = true ∧
    discountSpec.valid (scalarArr (reset cfg s).2.discount) = true :=
  ⟨(MMST.step_reward_discount_valid cfg s a p).1, (MMST.step_reward_discount_valid cfg s a p).2,
   (MMST.reset_reward_discount_valid cfg s).1, (MMST.reset_reward_discount_valid cfg s).2⟩

/-- `action_spec.generate_value()` = all zeros: the action spec is well-formed, the generated value is a member, and `step`
answers it from every state with the invariant (counter below the limit), for every draw, with a protocol-conform timestep
whose observation is a member of the observation spec -/
theorem mmst_accepts_generate_value (cfg : Cfg) (hA : 0 < cfg.numAgents) (hN : 0 < cfg.numNodes)
    (hbig : cfg.numNodes ≤ 2147483648) (s : State) (h : SpecInv cfg s) (hlim : s.stepCount < (cfg.timeLimit : Int))
    (p : List Nat) :
    (actionSpec cfg).WF = true ∧ (actionSpec cfg).valid (actionSpec cfg).generate = true ∧
    (actionSpec cfg).generate = actionArr cfg (List.replicate cfg.numAgents 0) ∧
    StepOK none false (step cfg s (List.replicate cfg.numAgents 0) p).2 = true ∧
    (obsSpec cfg).valid (toNValue (step cfg s (List.replicate cfg.numAgents 0) p).2.obs) = true :=
  MMST.accepts_generate_value cfg hA hN hbig s h hlim p

/-- membership in `action_spec` is exactly "one node index in `[0, N)` per agent" -/
theorem mmst_action_spec_iff (cfg : Cfg) (a : List Int) :
    (actionSpec cfg).valid (actionArr cfg a) = true ↔
      a.length = cfg.numAgents ∧ ∀ x ∈ a, 0 ≤ x ∧ x < (cfg.numNodes : Int) := MMST.actionSpec_valid_iff cfg a
end Props.C01
