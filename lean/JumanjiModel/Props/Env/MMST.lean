/-
Property theorems for MMST (relational model: the tie-break permutation `perm` is a draw; every theorem holds
for ALL draws, not only valid ones).  Only statements; proofs and helper lemmas are in Env/MMST/Lemmas.lean.

In-spec joint actions are `action : List Nat` (component `i` is the node agent `i` wants to move to); they
reach the L1 `step` as `action.map Int.ofNat`.  The running example has 5 nodes on a path 0-1-2-3-4, node 2
is a utility node, agent 0 owns {0,1}, agent 1 owns {3,4}.
-/
import JumanjiModel.Env.MMST.Lemmas
import JumanjiModel.Env.MMST.Bounds
import JumanjiModel.Env.MMST.FeasibleLemmas
open Jm MMST

namespace Props.MMSTEx
def cfg : Cfg := { numAgents := 2, numNodes := 5, numNodesPerAgent := 2, timeLimit := 6,
                   rConn := 10, rStep := -1, rNoop := -1 }
def adj : List (List Int) := [[0,1,0,0,0],[1,0,1,0,0],[0,1,0,1,0],[0,0,1,0,1],[0,0,0,1,0]]
def edges : List (List Int) := [[-1,1,-1,-1,-1],[0,-1,2,-1,-1],[-1,1,-1,3,-1],[-1,-1,2,-1,4],[-1,-1,-1,3,-1]]
/-- start of an episode: agent 0 on node 0, agent 1 on node 3 -/
def st : State :=
  { nodeTypes := [0, 0, -1, 1, 1], adj := adj,
    connectedNodes := [[0, -1, -1, -1, -1, -1], [3, -1, -1, -1, -1, -1]],
    connectedIndex := [[0, -1, -1, -1, -1], [-1, -1, -1, 3, -1]],
    nodesToConnect := [[0, 1], [3, 4]], nodeEdges := [edges, edges], positions := [0, 3], positionIndex := [0, 0],
    actionMask := [[false, true, false, false, false], [false, false, true, false, true]],
    finished := [false, false], stepCount := 0 }
/-- after agent 0 moved to 1 (done) and agent 1 to the utility node 2, as the pinned tree leaves it:
the mask row of the finished agent 0 is stale -/
def st1 : State := (step cfg st [1, 2] [0, 1]).1
/-- another start: agent 1 on the LAST node 4 -/
def stB : State :=
  { st with connectedNodes := [[0, -1, -1, -1, -1, -1], [4, -1, -1, -1, -1, -1]],
            connectedIndex := [[0, -1, -1, -1, -1], [-1, -1, -1, -1, 4]], nodesToConnect := [[0, 1], [4, 3]],
            positions := [0, 4], actionMask := [[false, true, false, false, false], [false, false, false, true, false]] }
def cfgG : Cfg := { cfg with guardVisited := true }
end Props.MMSTEx

namespace Props.C04
/-- the mask FUNCTION (`make_action_mask` on the current edge tables, positions and finished flags) gives, for
every agent and every node, exactly the legal moves of the rules -/
theorem mmst_mask_iff_legal (cfg : Cfg) (s : State) (hS : Shaped cfg s) (hE : EdgesOK cfg s) (hF : FlagsFresh cfg s)
    (i a : Nat) (hi : i < cfg.numAgents) (ha : a < cfg.numNodes) :
    ((makeMask cfg.numAgents s.nodeEdges s.positions s.finished).getD i []).getD a false = true ↔ legal cfg s i a :=
  MMST.mask_iff_legal hS hE hF hi ha

/-- the mask STORED by `step` is that function of the successor when the source is repaired (`freshMask`) or,
on the pinned tree, when no agent finished in this step -/
theorem mmst_cached_mask_partial (cfg : Cfg) (s : State) (a : List Int) (p : List Nat)
    (h : cfg.freshMask = true ∨ (step cfg s a p).1.finished = s.finished) :
    (step cfg s a p).1.actionMask =
      makeMask cfg.numAgents (step cfg s a p).1.nodeEdges (step cfg s a p).1.positions (step cfg s a p).1.finished :=
  MMST.cached_mask_fresh cfg s a p h

/-- pinned tree: the stored mask is stale by one step for an agent that has just finished — a non-terminal
successor whose mask offers moves to a finished agent (defect: `make_action_mask` is called before
`finished_agents` is updated) -/
theorem mmst_cached_mask_stale_witness :
    (step MMSTEx.cfg MMSTEx.st [1, 2] [0, 1]).2.stepType = .mid ∧
    MMSTEx.st1.actionMask ≠ legalMask MMSTEx.cfg MMSTEx.st1 ∧
    (MMSTEx.st1.actionMask.getD 0 []).getD 0 false = true ∧ ¬ legal MMSTEx.cfg MMSTEx.st1 0 0 := by
  decide +kernel

/-- the environment's own reaction agrees with the rules in one direction for every draw: an agent that is
moved played a legal action (no illegal move is ever carried out) -/
theorem mmst_moved_only_if_legal (cfg : Cfg) (s : State) (hS : Shaped cfg s) (hE : EdgesOK cfg s)
    (hF : FlagsFresh cfg s) (action perm : List Nat) (i : Nat) (hi : i < cfg.numAgents)
    (ha : action.getD i 0 < cfg.numNodes)
    (hm : (step cfg s (action.map Int.ofNat) perm).1.positionIndex.getD i 0 ≠ s.positionIndex.getD i 0) :
    legal cfg s i (action.getD i 0) := MMST.moved_only_if_legal hS hE hF action perm hi ha hm

example : Shaped MMSTEx.cfg MMSTEx.st ∧ EdgesOK MMSTEx.cfg MMSTEx.st ∧ FlagsFresh MMSTEx.cfg MMSTEx.st := by
  decide +kernel
example : legal MMSTEx.cfg MMSTEx.st 1 2 ∧ ¬ legal MMSTEx.cfg MMSTEx.st 0 2 := by decide +kernel
/-- the utility node 2, once used by agent 1, is closed for agent 0 -/
example : ¬ legal MMSTEx.cfg MMSTEx.st1 0 2 ∧ takenByOther MMSTEx.cfg MMSTEx.st1 0 2 := by decide +kernel
/-! #### `step_agrees`, the other direction: a legal action is carried out unless it loses the tie-break -/

/-- after every step the finished flags are those of the current routes (`FlagsFresh`, the hypothesis of the
theorems above, is re-established by `step`; rows of `nodes_to_connect` have `num_nodes_per_agent` entries) -/
theorem mmst_step_flagsFresh (cfg : Cfg) (s : State) (action : List Int) (perm : List Nat)
    (hK : ∀ i, i < cfg.numAgents → (s.nodesToConnect.getD i []).length = cfg.numNodesPerAgent) :
    FlagsFresh cfg (step cfg s action perm).1 := MMST.step_flagsFresh cfg s action perm hK

/-- a legal action is carried out when no agent BEFORE agent `i` in the draw asks for the same node (agents after
it lose the tie-break against it) and `i` occurs once in the draw `l1 ++ i :: l2` -/
theorem mmst_legal_moves (cfg : Cfg) (s : State) (hS : Shaped cfg s) (hE : EdgesOK cfg s) (hF : FlagsFresh cfg s)
    (action l1 l2 : List Nat) (i : Nat) (hi : i < cfg.numAgents) (hl : action.length = cfg.numAgents)
    (ha : action.getD i 0 < cfg.numNodes) (hleg : legal cfg s i (action.getD i 0))
    (h1 : ∀ k ∈ l1, (targets cfg s (action.map Int.ofNat)).getD k (-1) ≠ ((action.getD i 0 : Nat) : Int))
    (h2 : i ∉ l2) :
    (step cfg s (action.map Int.ofNat) (l1 ++ i :: l2)).1.positionIndex.getD i 0 = s.positionIndex.getD i 0 + 1 ∧
    (step cfg s (action.map Int.ofNat) (l1 ++ i :: l2)).1.positions.getD i 0 = ((action.getD i 0 : Nat) : Int) := by
  obtain ⟨hm, hn⟩ := MMST.legal_moves hS hE hF action l1 l2 hi hl ha hleg h1 h2
  rw [MMST.step_positionIndex cfg s _ _ hi, MMST.step_positions cfg s _ _ hi, if_pos hm, if_pos hm]
  exact ⟨rfl, hn⟩

/-- the converse of `mmst_moved_only_if_legal`: for EVERY valid draw, a legal action whose node no other agent
asks for in this step (uncontested) moves the agent to that node and advances its route index -/
theorem mmst_legal_uncontested_moves (cfg : Cfg) (s : State) (hS : Shaped cfg s) (hE : EdgesOK cfg s)
    (hF : FlagsFresh cfg s) (action perm : List Nat) (hd : validDraw cfg.numAgents perm) (i : Nat)
    (hi : i < cfg.numAgents) (hl : action.length = cfg.numAgents) (ha : action.getD i 0 < cfg.numNodes)
    (hleg : legal cfg s i (action.getD i 0))
    (hunc : ∀ k, k < cfg.numAgents → k ≠ i →
      (targets cfg s (action.map Int.ofNat)).getD k (-1) ≠ ((action.getD i 0 : Nat) : Int)) :
    (step cfg s (action.map Int.ofNat) perm).1.positionIndex.getD i 0 = s.positionIndex.getD i 0 + 1 ∧
    (step cfg s (action.map Int.ofNat) perm).1.positions.getD i 0 = ((action.getD i 0 : Nat) : Int) :=
  MMST.legal_uncontested_moves hS hE hF action perm hd hi hl ha hleg hunc

/-- `step_agrees` in both directions: for an uncontested in-spec action and any valid draw, the environment moves
the agent iff the rules say the action is legal -/
theorem mmst_step_agrees (cfg : Cfg) (s : State) (hS : Shaped cfg s) (hE : EdgesOK cfg s)
    (hF : FlagsFresh cfg s) (action perm : List Nat) (hd : validDraw cfg.numAgents perm) (i : Nat)
    (hi : i < cfg.numAgents) (hl : action.length = cfg.numAgents) (ha : action.getD i 0 < cfg.numNodes)
    (hunc : ∀ k, k < cfg.numAgents → k ≠ i →
      (targets cfg s (action.map Int.ofNat)).getD k (-1) ≠ ((action.getD i 0 : Nat) : Int)) :
    legal cfg s i (action.getD i 0) ↔
      (step cfg s (action.map Int.ofNat) perm).1.positionIndex.getD i 0 ≠ s.positionIndex.getD i 0 := by
  constructor
  · intro hleg
    have := (MMST.legal_uncontested_moves hS hE hF action perm hd hi hl ha hleg hunc).1
    omega
  · exact MMST.moved_only_if_legal hS hE hF action perm hi ha

/-- the hypotheses are satisfiable: at the start of the example agent 0 plays 1 and agent 1 plays 2, nobody
contests, both moves are legal and carried out -/
example : validDraw MMSTEx.cfg.numAgents [1, 0] ∧ legal MMSTEx.cfg MMSTEx.st 0 1 ∧
    (targets MMSTEx.cfg MMSTEx.st ([1, 2].map Int.ofNat)).getD 1 (-1) ≠ ((1 : Nat) : Int) ∧
    (step MMSTEx.cfg MMSTEx.st [1, 2] [1, 0]).1.positions = [1, 2] := by decide +kernel

/-- "uncontested" cannot be dropped: both agents legally ask for the free utility node 2, the one later in the
draw stays where it is (the documented tie-break, not a defect) -/
theorem mmst_legal_contested_not_moved_witness :
    (let s := { MMSTEx.st with positions := [1, 3], connectedIndex := [[0, 1, -1, -1, -1], [-1, -1, -1, 3, -1]],
                               connectedNodes := [[0, 1, -1, -1, -1, -1], [3, -1, -1, -1, -1, -1]],
                               positionIndex := [1, 0], nodesToConnect := [[0, 4], [3, 4]] }
     Feasible MMSTEx.cfg s ∧ FlagsFresh MMSTEx.cfg s ∧ legal MMSTEx.cfg s 0 2 ∧ legal MMSTEx.cfg s 1 2 ∧
     (step MMSTEx.cfg s [2, 2] [1, 0]).1.positionIndex = [1, 1] ∧
     (step MMSTEx.cfg s [2, 2] [0, 1]).1.positionIndex = [2, 0]) := by decide +kernel
end Props.C04

namespace Props.C05
/-- ignore-invalid: the agent whose action is illegal (no edge, utility node taken by another agent, or the
agent is already done) keeps its position, its route index, its route and its visited table, for every draw and
whatever the other agents play -/
theorem mmst_illegal_ignored (cfg : Cfg) (s : State) (hS : Shaped cfg s) (hE : EdgesOK cfg s)
    (hF : FlagsFresh cfg s) (action perm : List Nat) (i : Nat) (hi : i < cfg.numAgents)
    (ha : action.getD i 0 < cfg.numNodes) (hill : ¬ legal cfg s i (action.getD i 0)) :
    let s' := (step cfg s (action.map Int.ofNat) perm).1
    s'.positions.getD i 0 = s.positions.getD i 0 ∧ s'.positionIndex.getD i 0 = s.positionIndex.getD i 0 ∧
    s'.connectedNodes.getD i [] = s.connectedNodes.getD i [] ∧
    s'.connectedIndex.getD i [] = s.connectedIndex.getD i [] :=
  MMST.illegal_ignored hS hE hF action perm hi ha hill

/-- the episode is not ended by an illegal action: LAST only when all agents are done or the time is up -/
theorem mmst_last_only_documented (cfg : Cfg) (s : State) (a : List Int) (p : List Nat) :
    (step cfg s a p).2.stepType = .last ↔
      ((step cfg s a p).1.finished.all id = true ∨ s.stepCount + 1 ≥ (cfg.timeLimit : Int)) :=
  MMST.step_last_iff cfg s a p

/-- agent 0 picks node 3 (no edge): the decidable C05 predicate of the driver holds on the model's own step,
the reward is -1 (agent 1, plain move) + -2 (agent 0, time step + invalid choice) -/
example : ¬ legal MMSTEx.cfg MMSTEx.st 0 3 ∧
    illegalIgnored MMSTEx.cfg MMSTEx.st [3, 2] (step MMSTEx.cfg MMSTEx.st [3, 2] [0, 1]).1
      (step MMSTEx.cfg MMSTEx.st [3, 2] [0, 1]).2 = true ∧
    (step MMSTEx.cfg MMSTEx.st [3, 2] [0, 1]).2.reward = [-3] := by decide +kernel

/-- pinned tree: once an agent has visited the LAST node (here node 4), its invalid choices no longer cost the
invalid-choice penalty, because `connected_nodes_index[agent, -1]` reads the last node (defect): agent 0 connects
node 1 (+10), agent 1 picks node 0 (no edge): documented -1 - 1, total 8; the code gives 10 - 1 = 9 … -/
theorem mmst_invalid_penalty_skipped_witness :
    Feasible MMSTEx.cfg MMSTEx.stB ∧ FlagsFresh MMSTEx.cfg MMSTEx.stB ∧
    ¬ legal MMSTEx.cfg MMSTEx.stB 1 0 ∧ (step MMSTEx.cfg MMSTEx.stB [1, 0] [0, 1]).2.reward = [9] ∧
    illegalIgnored MMSTEx.cfg MMSTEx.stB [1, 0] (step MMSTEx.cfg MMSTEx.stB [1, 0] [0, 1]).1
      (step MMSTEx.cfg MMSTEx.stB [1, 0] [0, 1]).2 = false := by
  decide +kernel

/-- … and with the lookup guarded (`guardVisited`) the same transition carries the documented total 8 -/
example :
    (step MMSTEx.cfgG MMSTEx.stB [1, 0] [0, 1]).2.reward = [8] ∧
    illegalIgnored MMSTEx.cfgG MMSTEx.stB [1, 0] (step MMSTEx.cfgG MMSTEx.stB [1, 0] [0, 1]).1
      (step MMSTEx.cfgG MMSTEx.stB [1, 0] [0, 1]).2 = true := by
  decide +kernel
end Props.C05

namespace Props.C06
/-- tie-break: two different agents that both move in one step to nodes they had not visited before never go to
the same node — for EVERY draw of the permutation (valid or not) and every action list, any number of agents -/
theorem mmst_new_nodes_distinct (cfg : Cfg) (s : State) (action : List Int) (perm : List Nat) (i j : Nat)
    (hi : i < cfg.numAgents) (hj : j < cfg.numAgents) (hij : i ≠ j)
    (hmi : moves ((trim cfg s action perm).getD i (-1)) ((targets cfg s action).getD i (-1)) = true)
    (hmj : moves ((trim cfg s action perm).getD j (-1)) ((targets cfg s action).getD j (-1)) = true)
    (hvi : Jx.getWC (s.connectedIndex.getD i []) (-1) ((targets cfg s action).getD i (-1)) = -1)
    (hvj : Jx.getWC (s.connectedIndex.getD j []) (-1) ((targets cfg s action).getD j (-1)) = -1) :
    (targets cfg s action).getD i (-1) ≠ (targets cfg s action).getD j (-1) :=
  MMST.new_nodes_distinct cfg s action perm hi hj hij hmi hmj hvi hvj

/-- a node an agent is moved to is never a utility node already used by another agent (part of `legal`) -/
theorem mmst_moved_not_taken (cfg : Cfg) (s : State) (hS : Shaped cfg s) (hE : EdgesOK cfg s)
    (hF : FlagsFresh cfg s) (action perm : List Nat) (i : Nat) (hi : i < cfg.numAgents)
    (ha : action.getD i 0 < cfg.numNodes)
    (hm : (step cfg s (action.map Int.ofNat) perm).1.positionIndex.getD i 0 ≠ s.positionIndex.getD i 0) :
    ¬ takenByOther cfg s i (action.getD i 0) :=
  (MMST.moved_only_if_legal hS hE hF action perm hi ha hm).2.2.2.2

/-- both agents want the free utility node 2: exactly the first of the draw gets it, the state stays feasible -/
example : Feasible MMSTEx.cfg (step MMSTEx.cfg MMSTEx.st1 [0, 3] [1, 0]).1 ∧
    (let s := { MMSTEx.st with positions := [1, 3], connectedIndex := [[0, 1, -1, -1, -1], [-1, -1, -1, 3, -1]],
                               connectedNodes := [[0, 1, -1, -1, -1, -1], [3, -1, -1, -1, -1, -1]],
                               positionIndex := [1, 0], nodesToConnect := [[0, 4], [3, 4]] }
     (step MMSTEx.cfg s [2, 2] [1, 0]).1.positions = [1, 2] ∧ (step MMSTEx.cfg s [2, 2] [0, 1]).1.positions = [2, 3] ∧
     Feasible MMSTEx.cfg (step MMSTEx.cfg s [2, 2] [1, 0]).1) := by decide +kernel
/-- the start state of the example satisfies the hard constraint and its bookkeeping; so does the successor in
which agent 1 has taken the utility node -/
example : Feasible MMSTEx.cfg MMSTEx.st ∧ Feasible MMSTEx.cfg MMSTEx.st1 := by decide +kernel
/-! #### `Feasible` is an inductive invariant -/

/-- `Feasible` (= `Shaped ∧ UtilityExclusive ∧ EdgesOK ∧ RouteOK`) is preserved by EVERY step: any joint action
(any list of integers — masked-in or not, in range or not), any draw (a valid permutation or not), any
configuration (pinned or repaired mask / visited lookup, `freshMask`, `guardVisited`) -/
theorem mmst_step_feasible (cfg : Cfg) (s : State) (h : Feasible cfg s) (action : List Int) (perm : List Nat) :
    Feasible cfg (step cfg s action perm).1 := MMST.step_feasible h action perm

/-- … in particular under mask-respecting play (every agent plays a node its cached mask offers, or any node when
its mask row is empty) with a valid tie-break draw, in the repaired configuration -/
theorem mmst_masked_step_feasible (cfg : Cfg) (s : State) (h : Feasible cfg s) (action perm : List Nat)
    (_hc : cfg.freshMask = true ∧ cfg.guardVisited = true) (_hd : validDraw cfg.numAgents perm)
    (_hmask : ∀ i, i < cfg.numAgents →
      (s.actionMask.getD i []).getD (action.getD i 0) false = true ∨ (s.actionMask.getD i []).all (· == false) = true) :
    Feasible cfg (step cfg s (action.map Int.ofNat) perm).1 := MMST.step_feasible h _ perm

/-- … and along every run: all states reached from a feasible state by any sequence of joint actions and draws
are feasible -/
theorem mmst_feasible_along (cfg : Cfg) (s : State) (h : Feasible cfg s) (steps : List (List Int × List Nat)) :
    ∀ s' ∈ statesAlong cfg s steps, Feasible cfg s' := MMST.feasible_along steps h

/-- reset: a state with the configured shapes that satisfies the generator certificates `certStart` (every agent
stands on its first node, routes otherwise empty), `certTypes` (node types = ownership, so start nodes are not
utility nodes) and `certEdgesAdj` (every agent's edge table is the adjacency matrix) is feasible -/
theorem mmst_reset_feasible (cfg : Cfg) (s : State) (hS : Shaped cfg s) (h1 : certStart cfg s = true)
    (h2 : certTypes cfg s = true) (h3 : certEdgesAdj cfg s = true) : Feasible cfg s :=
  MMST.reset_feasible hS h1 h2 h3

/-- a feasible state with fresh flags in which every agent is finished is a complete solution -/
theorem mmst_complete_is_solution (cfg : Cfg) (s : State) (hF : Feasible cfg s) (hFr : FlagsFresh cfg s)
    (hdone : s.finished.all id = true) : IsSolution cfg s := MMST.complete_is_solution hF hFr hdone

/-- the step that ends an episode before the time limit (ended by completion) leaves a complete feasible solution:
every agent has all its nodes on its route and no utility node is shared -/
theorem mmst_step_complete_is_solution (cfg : Cfg) (s : State) (hF : Feasible cfg s) (action : List Int)
    (perm : List Nat)
    (hK : ∀ i, i < cfg.numAgents → (s.nodesToConnect.getD i []).length = cfg.numNodesPerAgent)
    (hlast : (step cfg s action perm).2.stepType = .last) (ht : s.stepCount + 1 < (cfg.timeLimit : Int)) :
    IsSolution cfg (step cfg s action perm).1 := MMST.step_complete_is_solution hF action perm hK hlast ht

/-- the start state of the example satisfies the certificates -/
example : Shaped MMSTEx.cfg MMSTEx.st ∧ certStart MMSTEx.cfg MMSTEx.st = true ∧ certTypes MMSTEx.cfg MMSTEx.st = true ∧
    certEdgesAdj MMSTEx.cfg MMSTEx.st = true := by decide +kernel
/-- an episode of the example that ends by completion after two steps (agent 0: 0→1; agent 1: 3→4) -/
example : (step MMSTEx.cfgG MMSTEx.st [1, 4] [0, 1]).2.stepType = .last ∧
    MMSTEx.st.stepCount + 1 < (MMSTEx.cfgG.timeLimit : Int) ∧
    IsSolution MMSTEx.cfgG (step MMSTEx.cfgG MMSTEx.st [1, 4] [0, 1]).1 := by decide +kernel
end Props.C06

namespace Props.C11
/-- every step advances the step counter by one -/
theorem mmst_step_count (cfg : Cfg) (s : State) (a : List Int) (p : List Nat) :
    (step cfg s a p).1.stepCount = s.stepCount + 1 := MMST.step_count cfg s a p

/-- the episode ends at the latest when the time limit is reached -/
theorem mmst_time_limit (cfg : Cfg) (s : State) (a : List Int) (p : List Nat)
    (h : s.stepCount + 1 ≥ (cfg.timeLimit : Int)) : (step cfg s a p).2.stepType = .last :=
  MMST.time_limit cfg s a p h
end Props.C11

namespace Props.C12
/-- the observation returned by `step` is the environment's observation function of the successor state (mask,
positions, step count, adjacency copied from it) -/
theorem mmst_obs_faithful (cfg : Cfg) (s : State) (a : List Int) (p : List Nat) :
    (step cfg s a p).2.obs = observeL1 cfg (step cfg s a p).1 := MMST.obs_faithful cfg s a p

/-- relabelling: the arithmetic of `_state_to_observation` produces, node by node, the documented labels —
`2k` for a node connected by agent `k`, `2t + 1` for an unconnected node of type `t`, `-1` for an unconnected
utility node — for any number of agents and nodes -/
theorem mmst_relabel_consistent (cfg : Cfg) (s : State) (hS : Shaped cfg s)
    (hT : ∀ t ∈ s.nodeTypes, -1 ≤ t ∧ t < (cfg.numAgents : Int)) (v : Nat) (hv : v < cfg.numNodes) :
    (observeL1 cfg s).nodeTypes.getD v 0 = (observe cfg s).nodeTypes.getD v 0 := by
  show (obsNodeTypes cfg.numAgents s.nodeTypes s.connectedIndex).getD v 0 = _
  rw [MMST.relabel_eq_spec hS hT hv]
  simp [observe, List.getD_eq_getElem?_getD, hv]

theorem mmst_relabel_length (cfg : Cfg) (s : State) (hS : Shaped cfg s) :
    (observeL1 cfg s).nodeTypes.length = (observe cfg s).nodeTypes.length := by
  show (obsNodeTypes cfg.numAgents s.nodeTypes s.connectedIndex).length = _
  rw [MMST.obsNodeTypes_length hS]; simp [observe]

/-- all other observation fields are copies of the state's fields in both -/
theorem mmst_obs_copied (cfg : Cfg) (s : State) :
    (observeL1 cfg s).adj = (observe cfg s).adj ∧ (observeL1 cfg s).positions = (observe cfg s).positions ∧
    (observeL1 cfg s).stepCount = (observe cfg s).stepCount ∧ (observeL1 cfg s).actionMask = (observe cfg s).actionMask :=
  ⟨rfl, rfl, rfl, rfl⟩

example : (observe MMSTEx.cfg MMSTEx.st1).nodeTypes = [0, 0, 2, 2, 3] ∧ observeL1 MMSTEx.cfg MMSTEx.st1 = observe MMSTEx.cfg MMSTEx.st1 := by
  decide +kernel
end Props.C12

namespace Props.C01
/-- the bounds invariant `BInv` (one position per agent, each in `[0, N)`; edge-table entries in `[-1, N)`;
0/1 adjacency matrix) follows from `Feasible` plus the generator certificate "adjacency matrix is 0/1" … -/
theorem mmst_binv_of_feasible (cfg : Cfg) (s : State) (hF : Feasible cfg s) (hb : certBinary s = true) :
    BInv cfg s := MMST.binv_of_feasible hF hb

/-- … and is preserved by every step: any joint action (in-spec or not), any draw (valid permutation or not) -/
theorem mmst_step_binv (cfg : Cfg) (s : State) (h : BInv cfg s) (a : List Int) (p : List Nat) :
    BInv cfg (step cfg s a p).1 := MMST.step_binv h a p

/-- reset: the observation of a generated state (`_state_to_observation`; step count 0) has every leaf inside its
interval of `obsBounds cfg`: `node_types ∈ [-1, 2A-1]`, `adj_matrix ∈ [0, 1]`, `positions ∈ [0, N-1]` (declared:
`[-1, N-1]`), `step_count ∈ [0, time_limit]`, `action_mask ∈ [0, 1]` -/
theorem mmst_reset_obs_in_bounds (cfg : Cfg) (s : State) (hA : 0 < cfg.numAgents) (h : BInv cfg s)
    (hs : s.stepCount = 0) : ObsInBounds (obsBounds cfg) (observeL1 cfg s) :=
  MMST.reset_obs_in_bounds cfg s hA h hs

/-- step: from every state with the invariant whose step count lies in `[0, time_limit)` (the step that reaches
`time_limit` included), for every joint action and every draw, every leaf of the observation is inside its
interval of `obsBounds cfg` -/
theorem mmst_step_obs_in_bounds (cfg : Cfg) (s : State) (a : List Int) (p : List Nat) (hA : 0 < cfg.numAgents)
    (h : BInv cfg s) (h0 : 0 ≤ s.stepCount) (hT : s.stepCount < (cfg.timeLimit : Int)) :
    ObsInBounds (obsBounds cfg) (step cfg s a p).2.obs := MMST.step_obs_in_bounds cfg s a p hA h h0 hT

/-- the bounds list covers every leaf of the observation -/
theorem mmst_obs_bounds_cover (cfg : Cfg) (o : Obs) :
    (obsLeaves o).map (·.1) = (obsBounds cfg).map (·.1) := MMST.obsBounds_cover cfg o

example : BInv Props.MMSTEx.cfg Props.MMSTEx.st ∧ BInv Props.MMSTEx.cfg Props.MMSTEx.st1 ∧
    Feasible Props.MMSTEx.cfg Props.MMSTEx.st ∧ certBinary Props.MMSTEx.st = true := by decide +kernel
/-- the upper bound of `node_types` is attained (an unconnected node of the last agent shows `2·1 + 1 = 3 = 2A - 1`) -/
example : (observeL1 Props.MMSTEx.cfg Props.MMSTEx.st).nodeTypes = [0, 1, -1, 2, 3] := by decide +kernel
end Props.C01
