/-
Property theorems for Knapsack.  Only statements + proofs of properties (helper lemmas live in
Env/Knapsack/Lemmas.lean).  Sections are named after the property they belong to.
-/
import JumanjiModel.Env.Knapsack.Lemmas
import JumanjiModel.Env.Knapsack.Bounds
import JumanjiModel.Env.Knapsack.Episode
import JumanjiModel.Prim.FloatLemmas
open Jm Knapsack

namespace Props.C01
/-- `reset` (any budget, any sampled weights/values of the unit interval): every leaf of the observation lies in
the interval `obsBounds` lists for it (weights, values ∈ [0,1]; packed_items, action_mask ∈ {0,1}) -/
theorem knapsack_reset_obs_in_bounds (n : Nat) (budget : Rat) (w v : List Rat) (h : validDraw n w v) :
    Jm.OB.InBounds obsBounds (obsLeaves (reset budget w v).2.obs) := Knapsack.reset_obs_in_bounds n budget w v h

/-- every step (any rounding, either reward function, ANY action, valid or not, terminal step included) from a
state whose weights and values lie in the unit interval -/
theorem knapsack_step_obs_in_bounds (rnd : Rat → Rat) (dense : Bool) (s : State) (a : Int) (h : UnitItems s) :
    Jm.OB.InBounds obsBounds (obsLeaves (step rnd dense s a).2.obs) := Knapsack.step_obs_in_bounds rnd dense s a h

/-- the invariant `UnitItems` is established by `reset` and preserved by every step -/
theorem knapsack_reset_unit (n : Nat) (budget : Rat) (w v : List Rat) (h : validDraw n w v) :
    UnitItems (reset budget w v).1 := Knapsack.reset_unitItems n budget w v h
theorem knapsack_step_unit (rnd : Rat → Rat) (dense : Bool) (s : State) (a : Int) (h : UnitItems s) :
    UnitItems (step rnd dense s a).1 := Knapsack.step_unitItems rnd dense s a h

example : validDraw 2 [1/2, 1/4] [1, 0] := by decide +kernel
example : UnitItems ⟨[1/2, 1/4], [1, 1], [false, true], 1/2⟩ := by decide +kernel
end Props.C01

namespace Props.C04
/-- the mask bit of item `a` is set exactly when the rules allow packing it -/
theorem knapsack_mask_iff_legal (s : State) (a : Nat) (hl : s.packed.length = s.weights.length) :
    (maskOf s).getD a false = true ↔ legal s a := Knapsack.mask_iff_legal s a hl

/-- the environment's own validity test agrees with the rules (so a masked-in action is never
treated as invalid and every legal action is accepted) -/
theorem knapsack_step_agrees (s : State) (a : Nat) (hl : s.packed.length = s.weights.length)
    (ha : a < s.weights.length) : isValid s a = true ↔ legal s a := Knapsack.isValid_iff_legal s a hl ha

example : legal ⟨[1/2, 1/4], [1, 1], [false, true], 1/2⟩ 0 := by decide +kernel
end Props.C04

namespace Props.C05
/-- an illegal action ends the episode with reward 0 and leaves the state untouched -/
theorem knapsack_illegal_terminates (rnd : Rat → Rat) (dense : Bool) (s : State) (a : Nat)
    (hl : s.packed.length = s.weights.length) (ha : a < s.weights.length) (h : ¬ legal s a) :
    (step rnd dense s a).1 = s ∧ (step rnd dense s a).2.stepType = .last ∧
    (step rnd dense s a).2.reward = [0] := Knapsack.illegal_step rnd dense s a hl ha h
end Props.C05

namespace Props.C06
/-- legal play keeps the packed weight within the budget (exact arithmetic) -/
theorem knapsack_step_feasible (b : Rat) (dense : Bool) (s : State) (a : Nat)
    (hf : Feasible b s) (hl : legal s a) : Feasible b (step id dense s a).1 :=
  Knapsack.step_feasible b dense s a hf hl

/-- under ANY rounding of the subtraction that is monotone and fixes 0 (float32 is one), the
remaining budget never becomes negative under legal play -/
theorem knapsack_remaining_nonneg (rnd : Rat → Rat) (hmono : ∀ x y, x ≤ y → rnd x ≤ rnd y)
    (h0 : rnd 0 = 0) (dense : Bool) (s : State) (a : Nat) (hr : 0 ≤ s.remaining) (hl : legal s a) :
    0 ≤ (step rnd dense s a).1.remaining := Knapsack.remaining_nonneg rnd hmono h0 dense s a hr hl

/-- in particular for the float32 model: `Jx.roundF32` is monotone and fixes 0 (Prim/FloatLemmas.lean) -/
theorem knapsack_remaining_nonneg_roundF32 (dense : Bool) (s : State) (a : Nat) (hr : 0 ≤ s.remaining)
    (hl : legal s a) : 0 ≤ (step Jx.roundF32 dense s a).1.remaining :=
  Knapsack.remaining_nonneg Jx.roundF32 (fun _ _ h => Jx.roundF32_mono h) Jx.roundF32_zero dense s a hr hl

example : Feasible 1 ⟨[1/2, 1/4], [1, 1], [false, true], 3/4⟩ := by decide +kernel

/-- `RandomGenerator` (any valid draw of weights and values, any non-negative budget): the reset state is
feasible -/
theorem knapsack_reset_feasible (n : Nat) (b : Rat) (w v : List Rat) (hb : 0 ≤ b) (h : validDraw n w v) :
    Feasible b (generate n b w v) ∧ WithinBudget b (generate n b w v) :=
  ⟨Knapsack.generate_feasible n b w v hb h,
   Knapsack.feasible_withinBudget b _ (Knapsack.generate_feasible n b w v hb h)⟩

/-- the same for ANY state passing the generator certificate `instanceOK` (the predicate the C10 sweep
evaluates on the implementation's reset states) -/
theorem knapsack_instance_feasible (n : Nat) (b : Rat) (s : State) (hb : 0 ≤ b)
    (h : instanceOK n b s = true) : Feasible b s := (Knapsack.instanceOK_feasible n b s hb h).1

/-- every state of a mask-respecting play of any length (exact arithmetic; `statesAlong`, `LegalPlay` in
Env/Knapsack/Episode.lean): the total weight of the packed items, recomputed from `packed_items` and
`weights` only, is within the budget — and the bookkeeping `remaining_budget` agrees with it -/
theorem knapsack_feasible_along (b : Rat) (dense : Bool) (s : State) (as : List Nat) (hf : Feasible b s)
    (hp : LegalPlay id dense s as) :
    ∀ s' ∈ statesAlong id dense s as, WithinBudget b s' ∧ Feasible b s' := fun s' hs' =>
  ⟨Knapsack.feasible_withinBudget b s' (Knapsack.feasible_along b dense s as hf hp s' hs'),
   Knapsack.feasible_along b dense s as hf hp s' hs'⟩

/-- a complete mask-respecting episode ends in a maximal feasible packing: within the budget, and every
unpacked item weighs more than `budget − packed weight` (both recomputed from `packed_items`/`weights`) -/
theorem knapsack_complete_is_solution (b : Rat) (dense : Bool) (s : State) (as : List Nat)
    (hf : Feasible b s) (hep : LegalEpisode id dense s as) :
    WithinBudget b (endState id dense s as) ∧ Maximal b (endState id dense s as) ∧
    ∀ i, ¬ legal (endState id dense s as) i :=
  (Knapsack.complete_is_solution b dense s as hf hep).2

example : validDraw 3 [1/2, 1/4, 1/2] [1, 1/2, 1/3] := by decide +kernel
example : LegalPlay id true (generate 3 1 [1/2, 1/4, 1/2] [1, 1/2, 1/3]) [1] := by decide +kernel
example : LegalEpisode id true (generate 3 1 [1/2, 1/4, 1/2] [1, 1/2, 1/3]) [1, 0] := by decide +kernel
end Props.C06

namespace Props.C08
/-- dense reward telescopes: packed value after a step = packed value before + reward -/
theorem knapsack_dense_telescopes (rnd : Rat → Rat) (s : State) (a : Nat)
    (hf : s.packed.length = s.weights.length ∧ s.values.length = s.weights.length)
    (ha : a < s.weights.length) :
    packedValue (step rnd true s a).1 = packedValue s + (step rnd true s a).2.reward.sum :=
  Knapsack.dense_telescopes rnd s a hf ha

/-- sparse reward: zero before the end, the packed value of the final state at a valid end -/
theorem knapsack_sparse_reward (rnd : Rat → Rat) (s : State) (a : Nat) :
    (step rnd false s a).2.reward =
      [if (step rnd false s a).2.stepType = .last ∧ isValid s a = true
       then packedValue (step rnd false s a).1 else 0] := Knapsack.sparse_reward rnd s a

/-! whole episodes (`returnOf`, `endState`, `LegalEpisode`, `InvalidEnded` in Env/Knapsack/Episode.lean): the
actions are played until the first LAST timestep; `rnd` (the rounding of the budget subtraction) is arbitrary.
`instanceOK n b s` is the generator certificate: `n` items, nothing packed, the whole budget left. -/

/-- ANY sequence of in-range actions from ANY well-shaped state (legal or not, finished or not): the dense
rewards add up to the gain in packed value recomputed from `packed_items` and `values` -/
theorem knapsack_dense_return_from (rnd : Rat → Rat) (s : State) (as : List Nat) (hs : WellShaped s)
    (hr : ∀ a ∈ as, a < s.weights.length) :
    returnOf rnd true s as = packedValue (endState rnd true s as) - packedValue s :=
  Knapsack.dense_return_any rnd s as hs hr

/-- complete episode of legal actions from a fresh instance, dense reward: return = total value of the items
packed in the final state -/
theorem knapsack_dense_return (rnd : Rat → Rat) (n : Nat) (b : Rat) (s : State) (as : List Nat)
    (h0 : instanceOK n b s = true) (hep : LegalEpisode rnd true s as) :
    returnOf rnd true s as = packedValue (endState rnd true s as) :=
  Knapsack.dense_return rnd n b s as h0 hep

/-- the same for the sparse reward (from any well-shaped state: the sparse reward pays the whole bag) -/
theorem knapsack_sparse_return (rnd : Rat → Rat) (s : State) (as : List Nat) (hs : WellShaped s)
    (hep : LegalEpisode rnd false s as) :
    returnOf rnd false s as = packedValue (endState rnd false s as) :=
  Knapsack.sparse_return rnd s as hs hep

/-- same instance, same complete legal episode (legality and the trajectory do not depend on the reward
function): both reward functions return the packed value of the final state, hence the same number -/
theorem knapsack_dense_eq_sparse (rnd : Rat → Rat) (n : Nat) (b : Rat) (s : State) (as : List Nat)
    (dense : Bool) (h0 : instanceOK n b s = true) (hep : LegalEpisode rnd dense s as) :
    returnOf rnd true s as = returnOf rnd false s as ∧
    endState rnd true s as = endState rnd false s as ∧
    returnOf rnd true s as = packedValue (endState rnd dense s as) := by
  have h := Knapsack.dense_eq_sparse rnd n b s as dense h0 hep
  exact ⟨h.1.trans h.2.symm, Knapsack.endState_dense_irrel rnd true false s as, h.1⟩

theorem knapsack_episode_return (rnd : Rat → Rat) (n : Nat) (b : Rat) (s : State) (as : List Nat)
    (dense : Bool) (h0 : instanceOK n b s = true) (hep : LegalEpisode rnd dense s as) :
    returnOf rnd dense s as = packedValue (endState rnd dense s as) :=
  Knapsack.episode_return rnd n b s as dense h0 hep

/-- in particular from every instance `RandomGenerator` can produce -/
theorem knapsack_episode_return_generated (rnd : Rat → Rat) (n : Nat) (b : Rat) (w v : List Rat)
    (as : List Nat) (dense : Bool) (hd : validDraw n w v)
    (hep : LegalEpisode rnd dense (generate n b w v) as) :
    returnOf rnd dense (generate n b w v) as = packedValue (endState rnd dense (generate n b w v) as) :=
  Knapsack.episode_return rnd n b _ as dense (Knapsack.generate_instanceOK n b w v hd) hep

/-- episode ended by an invalid action (legal actions, then an item that is packed already or does not fit):
the invalid step itself pays 0 under both reward functions (`knapsack_illegal_terminates`, C05); the dense
return keeps the values of the items packed before, the sparse return is 0 — as documented
("the reward is 0 if the action is invalid"), so the two returns differ on such episodes -/
theorem knapsack_dense_return_invalid (rnd : Rat → Rat) (n : Nat) (b : Rat) (s : State) (as : List Nat)
    (h0 : instanceOK n b s = true) (hep : InvalidEnded rnd true s as) :
    returnOf rnd true s as = packedValue (endState rnd true s as) :=
  Knapsack.dense_return_invalid rnd n b s as h0 hep

theorem knapsack_sparse_return_invalid (rnd : Rat → Rat) (s : State) (as : List Nat) (hs : WellShaped s)
    (hep : InvalidEnded rnd false s as) : returnOf rnd false s as = 0 :=
  Knapsack.sparse_return_invalid rnd s as hs hep

/-- the trajectory class on which dense and sparse differ: pack item 0, then choose item 0 again -/
theorem knapsack_dense_ne_sparse_invalid_witness :
    InvalidEnded id true (generate 3 1 [1/2, 1/4, 1/2] [1, 1/2, 1/3]) [0, 0] ∧
    returnOf id true (generate 3 1 [1/2, 1/4, 1/2] [1, 1/2, 1/3]) [0, 0] = 1 ∧
    returnOf id false (generate 3 1 [1/2, 1/4, 1/2] [1, 1/2, 1/3]) [0, 0] = 0 := by decide +kernel

example : instanceOK 3 1 (generate 3 1 [1/2, 1/4, 1/2] [1, 1/2, 1/3]) = true := by decide +kernel
example : LegalEpisode id false (generate 3 1 [1/2, 1/4, 1/2] [1, 1/2, 1/3]) [2, 1] := by decide +kernel
example : returnOf id false (generate 3 1 [1/2, 1/4, 1/2] [1, 1/2, 1/3]) [2, 1] = 5/6 := by decide +kernel
end Props.C08

namespace Props.C09
/-- L1 = L2: on every well-shaped state and every in-range action (valid or not) the transliterated `step`
returns exactly what the published rules (`stepL2`, Env/Knapsack/Model.lean) prescribe — successor state,
reward, step type, discount and observation; any rounding `rnd`, either reward function -/
theorem knapsack_step_eq_spec (rnd : Rat → Rat) (dense : Bool) (s : State) (a : Nat) (hs : WellShaped s)
    (ha : a < s.weights.length) : step rnd dense s a = stepL2 rnd dense s a :=
  Knapsack.step_eq_spec rnd dense s a hs ha

/-- the episode ends exactly when the action is invalid or no item can be added any more -/
theorem knapsack_last_iff (rnd : Rat → Rat) (dense : Bool) (s : State) (a : Nat) (hs : WellShaped s)
    (ha : a < s.weights.length) :
    (step rnd dense s a).2.stepType = .last ↔
      (¬ legal s a ∨ ∀ i, ¬ legal (step rnd dense s a).1 i) := Knapsack.last_iff rnd dense s a hs ha

/-- a legal step, field by field: problem data untouched, the packed set grows by exactly the chosen item,
the remaining budget decreases by its weight -/
theorem knapsack_step_legal_spec (rnd : Rat → Rat) (dense : Bool) (s : State) (a : Nat) (hs : WellShaped s)
    (hl : legal s a) :
    let s' := (step rnd dense s a).1
    s'.weights = s.weights ∧ s'.values = s.values ∧ s'.packed.length = s.packed.length ∧
    (∀ i, s'.packed.getD i true = if i = a then true else s.packed.getD i true) ∧
    s'.remaining = rnd (s.remaining - s.weights.getD a 0) := Knapsack.step_legal_spec rnd dense s a hs hl

example : WellShaped ⟨[1/2, 1/4], [1, 1], [false, true], 1/2⟩ := by decide +kernel
end Props.C09

namespace Props.C10
/-- `RandomGenerator.__call__` transliterated (`generate`, the uniform samples as draw parameters): for every
number of items, every budget and every valid draw the instance passes the certificate -/
theorem knapsack_generate_certificate (n : Nat) (b : Rat) (w v : List Rat) (h : validDraw n w v) :
    instanceOK n b (generate n b w v) = true := Knapsack.generate_instanceOK n b w v h

/-- certificate ⇒ advertised invariants: `n` weights and `n` values, all in [0, 1]; nothing packed; the
remaining budget is the total budget -/
theorem knapsack_certificate_spec (n : Nat) (b : Rat) (s : State) (h : instanceOK n b s = true) :
    s.weights.length = n ∧ s.values.length = n ∧ s.packed = List.replicate n false ∧
    s.remaining = b ∧ UnitItems s := Knapsack.instanceOK_spec n b s h

/-- certificate ⇒ the instance is a feasible starting point with empty bag (packed weight and value 0) -/
theorem knapsack_certificate_feasible (n : Nat) (b : Rat) (s : State) (hb : 0 ≤ b)
    (h : instanceOK n b s = true) : Feasible b s ∧ packedValue s = 0 ∧ packedWeight s = 0 :=
  Knapsack.instanceOK_feasible n b s hb h

example : validDraw 3 [1/2, 1/4, 1/2] [1, 1/2, 1/3] := by decide +kernel
end Props.C10

namespace Props.C12
/-- the observation is the documented function of the successor state -/
theorem knapsack_obs_faithful (rnd : Rat → Rat) (dense : Bool) (s : State) (a : Int) :
    (step rnd dense s a).2.obs = observe (step rnd dense s a).1 := Knapsack.obs_faithful rnd dense s a
end Props.C12

namespace Props.C11
/-- every non-terminal step packs one more item, so an episode lasts at most `num_items` steps -/
theorem knapsack_progress (rnd : Rat → Rat) (dense : Bool) (s : State) (a : Nat)
    (hl : s.packed.length = s.weights.length) (ha : a < s.weights.length)
    (h : (step rnd dense s a).2.stepType ≠ .last) :
    Jx.countTrue (step rnd dense s a).1.packed = Jx.countTrue s.packed + 1 :=
  Knapsack.progress rnd dense s a hl ha h
end Props.C11
