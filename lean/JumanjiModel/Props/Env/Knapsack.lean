/-
Property theorems for Knapsack.  Only statements + proofs of properties (helper lemmas live in
Env/Knapsack/Lemmas.lean).  Sections are named after the property they belong to.
-/
import JumanjiModel.Env.Knapsack.Lemmas
import JumanjiModel.Env.Knapsack.Bounds
import JumanjiModel.Env.Knapsack.Episode
import JumanjiModel.Env.Knapsack.Spec
import JumanjiModel.Prim.FloatLemmas
open Jm Knapsack

namespace Props.C01
/-- `reset` (any budget, any sampled weights/values of the unit interval): every leaf of the observation lies in
the interval `obsBounds` lists for it (weights, values ∈ [0,1]; packed_items, action_mask ∈ {0,1}) -/
theorem knapsack_reset_obs_in_bounds (n : Nat) (budget : Rat) (w v : List Rat) (h : validDraw n w v) :
    Jm.OB.InBounds obsBounds (obsLeaves (reset budget w v).2.obs) := Knapsack.reset_obs_in_bounds n budget w v h

/-- every step (any rounding, either reward function, ANY action, valid or not, terminal step included) from a
state whose weights and values lie in the unit interval -/
theorem knapsack_step_obs_in_bounds (rnd : Rat → Rat) (dense : Bool) (s : State) (a : Int) (h : UnitItems s) :
    Jm.OB.InBounds obsBounds (obsLeaves (step rnd dense s a).2.obs) := Knapsack.step_obs_in_bounds rnd dense s a h

/-- the invariant `UnitItems` is established by `reset` and preserved by every step -/
theorem knapsack_reset_unit (n : Nat) (budget : Rat) (w v : List Rat) (h : validDraw n w v) :
    UnitItems (reset budget w v).1 := Knapsack.reset_unitItems n budget w v h
theorem knapsack_step_unit (rnd : Rat → Rat) (dense : Bool) (s : State) (a : Int) (h : UnitItems s) :
    UnitItems (step rnd dense s a).1 := Knapsack.step_unitItems rnd dense s a h

example : validDraw 2 [1/2, 1/4] [1, 0] := by decide +kernel
example : UnitItems ⟨[1/2, 1/4], [1, 1], [false, true], 1/2⟩ := by decide +kernel

/-! NOTE on what the membership theorems of this section do and do not cover (audits r4 #6, r5 #6, r6 #8): the dtype tag of every leaf
is written by `toNValue` (by construction) — a wrong dtype in the real code cannot falsify `….valid (toNValue …) = true`; dtypes and
field order of the real observations are compared by the `knapsack.state` op (`nvalue`: field order, shape, dtype, data; harness/spec_wave3.py,
wave3_routing.py) and `jax.eval_shape` in the sweeps.  Shapes are READ OFF the value by `toNValue` (widths off the first row): see
`…_obs_valid_only`. -/

/-! #### full spec membership (structure, shapes, dtypes, bounds) — Env/Knapsack/Spec.lean

`obsSpec n` / `actionSpec n` are the declared `observation_spec` / `action_spec` of a `num_items = n` environment as values
of the spec algebra (Spec/Spec.lean); `toNValue o` is the model observation as the four arrays the implementation emits,
every shape read off the value; `Nested.valid` is the transliteration of `validate`. -/

open Sp PzS in
/-- the symbolic specs ARE the specs generated from the real spec objects (Gen/Specs.lean) for the catalogue
configuration `knapsack-8` and the spec-only configuration with 5 items (two sizes), reward and discount specs included -/
theorem knapsack_obsSpec_generated :
    prefixed "observation_spec." (obsSpec 8) = declared "knapsack-8" "observation_spec." ∧
    [("action_spec", actionSpec 8)] = declared "knapsack-8" "action_spec" ∧
    [("reward_spec", rewardSpec)] = declared "knapsack-8" "reward_spec" ∧
    [("discount_spec", discountSpec)] = declared "knapsack-8" "discount_spec" ∧
    prefixed "observation_spec." (obsSpec 5) = declared "spec-only-knapsack-5" "observation_spec." ∧
    [("action_spec", actionSpec 5)] = declared "spec-only-knapsack-5" "action_spec" ∧
    [("reward_spec", rewardSpec)] = declared "spec-only-knapsack-5" "reward_spec" ∧
    [("discount_spec", discountSpec)] = declared "spec-only-knapsack-5" "discount_spec" := by
  refine ⟨by decide +kernel, by decide +kernel, by decide +kernel, by decide +kernel,
    by decide +kernel, by decide +kernel, by decide +kernel, by decide +kernel⟩

/-- the `reset` observation — every number of items, every budget, every valid draw — is accepted by
`observation_spec.validate`: four fields of shape `(n,)`, dtypes float32/float32/bool/bool, all values in [0, 1] -/
theorem knapsack_reset_obs_valid (n : Nat) (budget : Rat) (w v : List Rat) (h : validDraw n w v) :
    (obsSpec n).valid (toNValue (reset budget w v).2.obs) = true := Knapsack.reset_obs_valid n budget w v h

/-- the same for the observation of every `step` (any rounding, either reward function, ANY action value, valid or not,
the terminal step included) from a state satisfying `SpecInv n` … -/
theorem knapsack_step_obs_valid (n : Nat) (rnd : Rat → Rat) (dense : Bool) (s : State) (a : Int) (h : SpecInv n s) :
    (obsSpec n).valid (toNValue (step rnd dense s a).2.obs) = true := Knapsack.step_obs_valid n rnd dense s a h

/-- … an invariant `reset` establishes for every valid draw, every step preserves, and which therefore holds in every
state of every play from `reset` (any action values, stepping on after LAST included) -/
theorem knapsack_reset_specInv (n : Nat) (budget : Rat) (w v : List Rat) (h : validDraw n w v) :
    SpecInv n (reset budget w v).1 := Knapsack.reset_specInv n budget w v h
theorem knapsack_step_specInv (n : Nat) (rnd : Rat → Rat) (dense : Bool) (s : State) (a : Int) (h : SpecInv n s) :
    SpecInv n (step rnd dense s a).1 := Knapsack.step_specInv n rnd dense s a h
theorem knapsack_obs_valid_along (n : Nat) (rnd : Rat → Rat) (dense : Bool) (budget : Rat) (w v : List Rat)
    (h : validDraw n w v) (as : List Int) (a : Int) :
    (obsSpec n).valid (toNValue
      (step rnd dense ((Ep.ofStep (step rnd dense) (fun _ => 0)).run (reset budget w v).1 as) a).2.obs) = true :=
  Knapsack.step_obs_valid n rnd dense _ a
    (Knapsack.specInv_along n rnd dense _ as (Knapsack.reset_specInv n budget w v h))

/-- what membership means (so the theorems above are not hollow): `validate` accepts an observation ONLY IF all four
fields have exactly `n` entries and weights and values lie in [0, 1]  CAVEAT (audits r4 #7, r5 #5, r6 #5): for every field that is a nested list, `toNValue` reads the widths off the FIRST row of the
nested list, so the shape conjuncts here mean "row count, length of the first row, total number of cells" — a ragged value with the right total can be a
member, and nothing is concluded about the later rows.  Rectangularity is part of the invariant (`SpecInv` / `Shaped` / `Rect…`) under which the
forward theorems (`…_reset_obs_valid`, `…_step_obs_valid`, `…_along`) are proved, i.e. it holds of every EMITTED observation. -/
theorem knapsack_obs_valid_only (n : Nat) (o : Obs) (h : (obsSpec n).valid (toNValue o) = true) :
    o.weights.length = n ∧ o.values.length = n ∧ o.packed.length = n ∧ o.mask.length = n ∧
    (∀ x ∈ o.weights, 0 ≤ x ∧ x ≤ 1) ∧ (∀ x ∈ o.values, 0 ≤ x ∧ x ≤ 1) := Knapsack.obs_valid_only n o h

/-- `action_spec.generate_value()` (= item 0) is a member of `action_spec` (every `n ≥ 1`) and is accepted by `step` in
every state of the invariant: the answer is a MID or LAST timestep whose observation is a member of `observation_spec`
(reward and discount: `knapsack_step_reward_discount_in_spec`, Props/C01.lean) -/
theorem knapsack_step_accepts_generate (n : Nat) (hn : 0 < n) (rnd : Rat → Rat) (dense : Bool) (s : State)
    (h : SpecInv n s) :
    (actionSpec n).generate = ⟨[], .int32, [0]⟩ ∧ (actionSpec n).valid (actionSpec n).generate = true ∧
    (obsSpec n).valid (toNValue (step rnd dense s 0).2.obs) = true ∧
    ((step rnd dense s 0).2.stepType = .mid ∨ (step rnd dense s 0).2.stepType = .last) :=
  Knapsack.step_accepts_generate n hn rnd dense s h

example : SpecInv 2 ⟨[1/2, 1/4], [1, 1], [false, true], 1/2⟩ := by decide +kernel
example : (obsSpec 2).valid (toNValue ⟨[1/2, 1/4], [1, 1], [false, true], [true, false]⟩) = true ∧
    (obsSpec 2).valid (toNValue ⟨[1/2, 5/4], [1, 1], [false, true], [true, false]⟩) = false ∧
    (obsSpec 2).valid (toNValue ⟨[1/2, 1/4], [1, 1], [false, true], [true]⟩) = false := by decide +kernel
end Props.C01

namespace Props.C04
/-- the mask bit of item `a` is set exactly when the rules allow packing it -/
theorem knapsack_mask_iff_legal (s : State) (a : Nat) (hl : s.packed.length = s.weights.length) :
    (maskOf s).getD a false = true ↔ legal s a := Knapsack.mask_iff_legal s a hl

/-- the environment's own validity test agrees with the rules (so a masked-in action is never
treated as invalid and every legal action is accepted) -/
theorem knapsack_step_agrees (s : State) (a : Nat) (hl : s.packed.length = s.weights.length)
    (ha : a < s.weights.length) : isValid s a = true ↔ legal s a := Knapsack.isValid_iff_legal s a hl ha

/-- the same stated about `step` itself (audit: `knapsack_step_agrees` speaks of the auxiliary `isValid` only): on a
well-shaped state and an in-range action, a legal action is carried out (the successor is the state with exactly that item
packed, `packL2`), an illegal one changes nothing, ends the episode and pays 0; hence the packed set changes iff the action
was legal — a masked-in action (`knapsack_mask_iff_legal`) is never treated as invalid and no legal action is refused -/
theorem knapsack_step_agrees_step (rnd : Rat → Rat) (dense : Bool) (s : State) (a : Nat) (hs : WellShaped s)
    (ha : a < s.weights.length) :
    (legal s a → (step rnd dense s a).1 = packL2 rnd s a) ∧
    (¬ legal s a → (step rnd dense s a).1 = s ∧ (step rnd dense s a).2.stepType = .last ∧
       (step rnd dense s a).2.reward = [0]) ∧
    (legal s a ↔ (step rnd dense s a).1.packed ≠ s.packed) := Knapsack.step_agrees_step rnd dense s a hs ha

example : legal ⟨[1/2, 1/4], [1, 1], [false, true], 1/2⟩ 0 := by decide +kernel
example : ¬ legal ⟨[1/2, 1/4], [1, 1], [false, true], 1/2⟩ 1 ∧ WellShaped ⟨[1/2, 1/4], [1, 1], [false, true], 1/2⟩ := by
  decide +kernel
end Props.C04

namespace Props.C05
/-- an illegal action ends the episode with reward 0 and leaves the state untouched -/
theorem knapsack_illegal_terminates (rnd : Rat → Rat) (dense : Bool) (s : State) (a : Nat)
    (hl : s.packed.length = s.weights.length) (ha : a < s.weights.length) (h : ¬ legal s a) :
    (step rnd dense s a).1 = s ∧ (step rnd dense s a).2.stepType = .last ∧
    (step rnd dense s a).2.reward = [0] := Knapsack.illegal_step rnd dense s a hl ha h
end Props.C05

namespace Props.C06
/-- legal play keeps the packed weight within the budget (exact arithmetic) -/
theorem knapsack_step_feasible (b : Rat) (dense : Bool) (s : State) (a : Nat)
    (hf : Feasible b s) (hl : legal s a) : Feasible b (step id dense s a).1 :=
  Knapsack.step_feasible b dense s a hf hl

/-- under ANY rounding of the subtraction that is monotone and fixes 0 (float32 is one), the
remaining budget never becomes negative under legal play -/
theorem knapsack_remaining_nonneg (rnd : Rat → Rat) (hmono : ∀ x y, x ≤ y → rnd x ≤ rnd y)
    (h0 : rnd 0 = 0) (dense : Bool) (s : State) (a : Nat) (hr : 0 ≤ s.remaining) (hl : legal s a) :
    0 ≤ (step rnd dense s a).1.remaining := Knapsack.remaining_nonneg rnd hmono h0 dense s a hr hl

/-- in particular for the float32 model: `Jx.roundF32` is monotone and fixes 0 (Prim/FloatLemmas.lean) -/
theorem knapsack_remaining_nonneg_roundF32 (dense : Bool) (s : State) (a : Nat) (hr : 0 ≤ s.remaining)
    (hl : legal s a) : 0 ≤ (step Jx.roundF32 dense s a).1.remaining :=
  Knapsack.remaining_nonneg Jx.roundF32 (fun _ _ h => Jx.roundF32_mono h) Jx.roundF32_zero dense s a hr hl

/-- ALONG WHOLE PLAYS (audit r4 #2), any monotone rounding fixing 0: in every state of a mask-respecting play from a state with a
non-negative budget, the bookkeeping `remaining_budget` is non-negative.  NOTE: this is about the BOOKKEEPING value; "packed weight ≤
budget" (`knapsack_feasible_along`) is proved for exact arithmetic (`rnd = id`) only, and is FALSE for some monotone roundings fixing
0: `knapsack_rounding_overshoot_witness`. -/
theorem knapsack_remaining_nonneg_along (rnd : Rat → Rat) (hmono : ∀ x y, x ≤ y → rnd x ≤ rnd y) (h0 : rnd 0 = 0)
    (dense : Bool) (s : State) (as : List Nat) (hr : 0 ≤ s.remaining) (hp : LegalPlay rnd dense s as) :
    ∀ s' ∈ statesAlong rnd dense s as, 0 ≤ s'.remaining :=
  Knapsack.remaining_nonneg_along rnd hmono h0 dense as s hr hp

/-- … for the float32 model, from `reset` of EVERY valid draw of the generator with a non-negative budget -/
theorem knapsack_remaining_nonneg_along_roundF32 (dense : Bool) (n : Nat) (b : Rat) (w v : List Rat) (hb : 0 ≤ b)
    (as : List Nat) (hp : LegalPlay Jx.roundF32 dense (generate n b w v) as) :
    ∀ s' ∈ statesAlong Jx.roundF32 dense (generate n b w v) as, 0 ≤ s'.remaining :=
  Knapsack.remaining_nonneg_along Jx.roundF32 (fun _ _ h => Jx.roundF32_mono h) Jx.roundF32_zero dense as _
    (by simpa [generate] using hb) hp

/-- "round up to quarters": monotone, fixes 0 -/
def knapsackRoundUpQuarters (x : Rat) : Rat := ((Rat.ceil (4 * x) : Int) : Rat) / 4

theorem knapsackRoundUpQuarters_mono (x y : Rat) (h : x ≤ y) :
    knapsackRoundUpQuarters x ≤ knapsackRoundUpQuarters y := by
  unfold knapsackRoundUpQuarters
  have h4 : 4 * x ≤ 4 * y := Rat.mul_le_mul_of_nonneg_left h (by decide)
  have hc : (4 * x).ceil ≤ (4 * y).ceil := Rat.ceil_le_iff.2 (Rat.le_trans h4 Rat.le_ceil)
  have hc' : ((4 * x).ceil : Rat) ≤ ((4 * y).ceil : Rat) := by exact_mod_cast hc
  rw [Rat.div_def, Rat.div_def]
  exact Rat.mul_le_mul_of_nonneg_right hc' (by decide +kernel)

/-- WITNESS (why `knapsack_feasible_along` is stated for exact arithmetic): under the monotone, 0-fixing rounding "up to quarters",
budget 1 and three items of weight 3/8, the play 0, 1, 2 is mask-respecting, the bookkeeping budget stays non-negative
(1, 3/4, 1/2, 1/4) — and the packed weight ends at 9/8 > 1.  (float32 rounds to nearest with relative error 2⁻²⁴; an
error-budget form `packed ≤ budget + k·ε` is not proved.) -/
theorem knapsack_rounding_overshoot_witness :
    knapsackRoundUpQuarters 0 = 0 ∧
    LegalPlay knapsackRoundUpQuarters true (generate 3 1 [3/8, 3/8, 3/8] [1, 1, 1]) [0, 1, 2] ∧
    (statesAlong knapsackRoundUpQuarters true (generate 3 1 [3/8, 3/8, 3/8] [1, 1, 1]) [0, 1, 2]).map
      (fun s => (s.remaining, packedWeight s)) = [(1, 0), (3/4, 3/8), (1/2, 3/4), (1/4, 9/8)] := by
  refine ⟨by decide +kernel, by decide +kernel, by decide +kernel⟩

example : Feasible 1 ⟨[1/2, 1/4], [1, 1], [false, true], 3/4⟩ := by decide +kernel

/-- `RandomGenerator` (any valid draw of weights and values, any non-negative budget): the reset state is
feasible -/
theorem knapsack_reset_feasible (n : Nat) (b : Rat) (w v : List Rat) (hb : 0 ≤ b) (h : validDraw n w v) :
    Feasible b (generate n b w v) ∧ WithinBudget b (generate n b w v) :=
  ⟨Knapsack.generate_feasible n b w v hb h,
   Knapsack.feasible_withinBudget b _ (Knapsack.generate_feasible n b w v hb h)⟩

/-- the same for ANY state passing the generator certificate `instanceOK` (the predicate the C10 sweep
evaluates on the implementation's reset states) -/
theorem knapsack_instance_feasible (n : Nat) (b : Rat) (s : State) (hb : 0 ≤ b)
    (h : instanceOK n b s = true) : Feasible b s := (Knapsack.instanceOK_feasible n b s hb h).1

/-- every state of a mask-respecting play of any length (exact arithmetic; `statesAlong`, `LegalPlay` in
Env/Knapsack/Episode.lean): the total weight of the packed items, recomputed from `packed_items` and
`weights` only, is within the budget — and the bookkeeping `remaining_budget` agrees with it -/
theorem knapsack_feasible_along (b : Rat) (dense : Bool) (s : State) (as : List Nat) (hf : Feasible b s)
    (hp : LegalPlay id dense s as) :
    ∀ s' ∈ statesAlong id dense s as, WithinBudget b s' ∧ Feasible b s' := fun s' hs' =>
  ⟨Knapsack.feasible_withinBudget b s' (Knapsack.feasible_along b dense s as hf hp s' hs'),
   Knapsack.feasible_along b dense s as hf hp s' hs'⟩

/-- a complete mask-respecting episode ends in a maximal feasible packing: within the budget, and every
unpacked item weighs more than `budget − packed weight` (both recomputed from `packed_items`/`weights`) -/
theorem knapsack_complete_is_solution (b : Rat) (dense : Bool) (s : State) (as : List Nat)
    (hf : Feasible b s) (hep : LegalEpisode id dense s as) :
    WithinBudget b (endState id dense s as) ∧ Maximal b (endState id dense s as) ∧
    ∀ i, ¬ legal (endState id dense s as) i :=
  (Knapsack.complete_is_solution b dense s as hf hep).2

example : validDraw 3 [1/2, 1/4, 1/2] [1, 1/2, 1/3] := by decide +kernel
example : LegalPlay id true (generate 3 1 [1/2, 1/4, 1/2] [1, 1/2, 1/3]) [1] := by decide +kernel
example : LegalEpisode id true (generate 3 1 [1/2, 1/4, 1/2] [1, 1/2, 1/3]) [1, 0] := by decide +kernel
end Props.C06

namespace Props.C08
/-- dense reward telescopes: packed value after a step = packed value before + reward -/
theorem knapsack_dense_telescopes (rnd : Rat → Rat) (s : State) (a : Nat)
    (hf : s.packed.length = s.weights.length ∧ s.values.length = s.weights.length)
    (ha : a < s.weights.length) :
    packedValue (step rnd true s a).1 = packedValue s + (step rnd true s a).2.reward.sum :=
  Knapsack.dense_telescopes rnd s a hf ha

/-- sparse reward: zero before the end, the packed value of the final state at a valid end -/
theorem knapsack_sparse_reward (rnd : Rat → Rat) (s : State) (a : Nat) :
    (step rnd false s a).2.reward =
      [if (step rnd false s a).2.stepType = .last ∧ isValid s a = true
       then packedValue (step rnd false s a).1 else 0] := Knapsack.sparse_reward rnd s a

/-! whole episodes (`returnOf`, `endState`, `LegalEpisode`, `InvalidEnded` in Env/Knapsack/Episode.lean): the
actions are played until the first LAST timestep; `rnd` (the rounding of the budget subtraction) is arbitrary.
`instanceOK n b s` is the generator certificate: `n` items, nothing packed, the whole budget left. -/

/-- ANY sequence of in-range actions from ANY well-shaped state (legal or not, finished or not): the dense
rewards add up to the gain in packed value recomputed from `packed_items` and `values` -/
theorem knapsack_dense_return_from (rnd : Rat → Rat) (s : State) (as : List Nat) (hs : WellShaped s)
    (hr : ∀ a ∈ as, a < s.weights.length) :
    returnOf rnd true s as = packedValue (endState rnd true s as) - packedValue s :=
  Knapsack.dense_return_any rnd s as hs hr

/-- complete episode of legal actions from a fresh instance, dense reward: return = total value of the items
packed in the final state -/
theorem knapsack_dense_return (rnd : Rat → Rat) (n : Nat) (b : Rat) (s : State) (as : List Nat)
    (h0 : instanceOK n b s = true) (hep : LegalEpisode rnd true s as) :
    returnOf rnd true s as = packedValue (endState rnd true s as) :=
  Knapsack.dense_return rnd n b s as h0 hep

/-- the same for the sparse reward (from any well-shaped state: the sparse reward pays the whole bag) -/
theorem knapsack_sparse_return (rnd : Rat → Rat) (s : State) (as : List Nat) (hs : WellShaped s)
    (hep : LegalEpisode rnd false s as) :
    returnOf rnd false s as = packedValue (endState rnd false s as) :=
  Knapsack.sparse_return rnd s as hs hep

/-- same instance, same complete legal episode (legality and the trajectory do not depend on the reward
function): both reward functions return the packed value of the final state, hence the same number -/
theorem knapsack_dense_eq_sparse (rnd : Rat → Rat) (n : Nat) (b : Rat) (s : State) (as : List Nat)
    (dense : Bool) (h0 : instanceOK n b s = true) (hep : LegalEpisode rnd dense s as) :
    returnOf rnd true s as = returnOf rnd false s as ∧
    endState rnd true s as = endState rnd false s as ∧
    returnOf rnd true s as = packedValue (endState rnd dense s as) := by
  have h := Knapsack.dense_eq_sparse rnd n b s as dense h0 hep
  exact ⟨h.1.trans h.2.symm, Knapsack.endState_dense_irrel rnd true false s as, h.1⟩

theorem knapsack_episode_return (rnd : Rat → Rat) (n : Nat) (b : Rat) (s : State) (as : List Nat)
    (dense : Bool) (h0 : instanceOK n b s = true) (hep : LegalEpisode rnd dense s as) :
    returnOf rnd dense s as = packedValue (endState rnd dense s as) :=
  Knapsack.episode_return rnd n b s as dense h0 hep

/-- in particular from every instance `RandomGenerator` can produce -/
theorem knapsack_episode_return_generated (rnd : Rat → Rat) (n : Nat) (b : Rat) (w v : List Rat)
    (as : List Nat) (dense : Bool) (hd : validDraw n w v)
    (hep : LegalEpisode rnd dense (generate n b w v) as) :
    returnOf rnd dense (generate n b w v) as = packedValue (endState rnd dense (generate n b w v) as) :=
  Knapsack.episode_return rnd n b _ as dense (Knapsack.generate_instanceOK n b w v hd) hep

/-- episode ended by an invalid action (legal actions, then an item that is packed already or does not fit):
the invalid step itself pays 0 under both reward functions (`knapsack_illegal_terminates`, C05); the dense
return keeps the values of the items packed before, the sparse return is 0 — as documented
("the reward is 0 if the action is invalid"), so the two returns differ on such episodes -/
theorem knapsack_dense_return_invalid (rnd : Rat → Rat) (n : Nat) (b : Rat) (s : State) (as : List Nat)
    (h0 : instanceOK n b s = true) (hep : InvalidEnded rnd true s as) :
    returnOf rnd true s as = packedValue (endState rnd true s as) :=
  Knapsack.dense_return_invalid rnd n b s as h0 hep

theorem knapsack_sparse_return_invalid (rnd : Rat → Rat) (s : State) (as : List Nat) (hs : WellShaped s)
    (hep : InvalidEnded rnd false s as) : returnOf rnd false s as = 0 :=
  Knapsack.sparse_return_invalid rnd s as hs hep

/-- the trajectory class on which dense and sparse differ: pack item 0, then choose item 0 again -/
theorem knapsack_dense_ne_sparse_invalid_witness :
    InvalidEnded id true (generate 3 1 [1/2, 1/4, 1/2] [1, 1/2, 1/3]) [0, 0] ∧
    returnOf id true (generate 3 1 [1/2, 1/4, 1/2] [1, 1/2, 1/3]) [0, 0] = 1 ∧
    returnOf id false (generate 3 1 [1/2, 1/4, 1/2] [1, 1/2, 1/3]) [0, 0] = 0 := by decide +kernel

example : instanceOK 3 1 (generate 3 1 [1/2, 1/4, 1/2] [1, 1/2, 1/3]) = true := by decide +kernel
example : LegalEpisode id false (generate 3 1 [1/2, 1/4, 1/2] [1, 1/2, 1/3]) [2, 1] := by decide +kernel
example : returnOf id false (generate 3 1 [1/2, 1/4, 1/2] [1, 1/2, 1/3]) [2, 1] = 5/6 := by decide +kernel
end Props.C08

namespace Props.C09
/-- L1 = L2: on every well-shaped state and every in-range action (valid or not) the transliterated `step`
returns exactly what the published rules (`stepL2`, Env/Knapsack/Model.lean) prescribe — successor state,
reward, step type, discount and observation; any rounding `rnd`, either reward function -/
theorem knapsack_step_eq_spec (rnd : Rat → Rat) (dense : Bool) (s : State) (a : Nat) (hs : WellShaped s)
    (ha : a < s.weights.length) : step rnd dense s a = stepL2 rnd dense s a :=
  Knapsack.step_eq_spec rnd dense s a hs ha

/-- the episode ends exactly when the action is invalid or no item can be added any more -/
theorem knapsack_last_iff (rnd : Rat → Rat) (dense : Bool) (s : State) (a : Nat) (hs : WellShaped s)
    (ha : a < s.weights.length) :
    (step rnd dense s a).2.stepType = .last ↔
      (¬ legal s a ∨ ∀ i, ¬ legal (step rnd dense s a).1 i) := Knapsack.last_iff rnd dense s a hs ha

/-- a legal step, field by field: problem data untouched, the packed set grows by exactly the chosen item,
the remaining budget decreases by its weight -/
theorem knapsack_step_legal_spec (rnd : Rat → Rat) (dense : Bool) (s : State) (a : Nat) (hs : WellShaped s)
    (hl : legal s a) :
    let s' := (step rnd dense s a).1
    s'.weights = s.weights ∧ s'.values = s.values ∧ s'.packed.length = s.packed.length ∧
    (∀ i, s'.packed.getD i true = if i = a then true else s.packed.getD i true) ∧
    s'.remaining = rnd (s.remaining - s.weights.getD a 0) := Knapsack.step_legal_spec rnd dense s a hs hl

example : WellShaped ⟨[1/2, 1/4], [1, 1], [false, true], 1/2⟩ := by decide +kernel
end Props.C09

namespace Props.C10
/-- `RandomGenerator.__call__` transliterated (`generate`, the uniform samples as draw parameters): for every
number of items, every budget and every valid draw the instance passes the certificate -/
theorem knapsack_generate_certificate (n : Nat) (b : Rat) (w v : List Rat) (h : validDraw n w v) :
    instanceOK n b (generate n b w v) = true := Knapsack.generate_instanceOK n b w v h

/-- certificate ⇒ advertised invariants: `n` weights and `n` values, all in [0, 1]; nothing packed; the
remaining budget is the total budget -/
theorem knapsack_certificate_spec (n : Nat) (b : Rat) (s : State) (h : instanceOK n b s = true) :
    s.weights.length = n ∧ s.values.length = n ∧ s.packed = List.replicate n false ∧
    s.remaining = b ∧ UnitItems s := Knapsack.instanceOK_spec n b s h

/-- certificate ⇒ the instance is a feasible starting point with empty bag (packed weight and value 0) -/
theorem knapsack_certificate_feasible (n : Nat) (b : Rat) (s : State) (hb : 0 ≤ b)
    (h : instanceOK n b s = true) : Feasible b s ∧ packedValue s = 0 ∧ packedWeight s = 0 :=
  Knapsack.instanceOK_feasible n b s hb h

example : validDraw 3 [1/2, 1/4, 1/2] [1, 1/2, 1/3] := by decide +kernel
end Props.C10

namespace Props.C12
/-- the observation is the documented function of the successor state -/
theorem knapsack_obs_faithful (rnd : Rat → Rat) (dense : Bool) (s : State) (a : Int) :
    (step rnd dense s a).2.obs = observe (step rnd dense s a).1 := Knapsack.obs_faithful rnd dense s a

/-- … and `observe` (the L1 `_state_to_observation` with its vectorised mask expression) IS the documented observation
`observeL2` (problem data, packed flags, mask = "which items can be packed" by the rules `legal`): for the observation
of every `step` (any action value, terminal step included) from a state with one flag per item … -/
theorem knapsack_obs_documented (rnd : Rat → Rat) (dense : Bool) (s : State) (a : Int)
    (hl : s.packed.length = s.weights.length) :
    (step rnd dense s a).2.obs = observeL2 (step rnd dense s a).1 := Knapsack.step_obs_documented rnd dense s a hl

/-- … and for the observation of `reset` (any budget, any sampled weights and values), which is a FIRST timestep -/
theorem knapsack_reset_obs_faithful (budget : Rat) (w v : List Rat) :
    (reset budget w v).2.obs = observeL2 (reset budget w v).1 ∧ (reset budget w v).2.stepType = .first :=
  Knapsack.reset_obs_documented budget w v
end Props.C12

namespace Props.C11
/-- every non-terminal step packs one more item, so an episode lasts at most `num_items` steps -/
theorem knapsack_progress (rnd : Rat → Rat) (dense : Bool) (s : State) (a : Nat)
    (hl : s.packed.length = s.weights.length) (ha : a < s.weights.length)
    (h : (step rnd dense s a).2.stepType ≠ .last) :
    Jx.countTrue (step rnd dense s a).1.packed = Jx.countTrue s.packed + 1 :=
  Knapsack.progress rnd dense s a hl ha h

/-- whole episodes (audit: `knapsack_progress` is a single step): from EVERY reset state (any budget, any valid draw of
`n ≥ 1` items), EVERY list of at least `n` actions of the action spec `0 ≤ a < n` — legal or not — contains a LAST
timestep, and the first one has (1-based) index ≤ `n`: no episode outlasts the structural horizon `num_items`.
`Ep.rollout` iterates the L1 `step`, `Ep.firstLastTS` is what harness/props/c11.py measures (Core/Episode.lean). -/
theorem knapsack_ends_within_horizon (n : Nat) (hn : 0 < n) (rnd : Rat → Rat) (dense : Bool) (budget : Rat)
    (w v : List Rat) (h : validDraw n w v) (as : List Int) (hok : ∀ a ∈ as, inSpec n a) (hlen : n ≤ as.length) :
    ∃ k, Ep.firstLastTS ((Ep.rollout (step rnd dense) (reset budget w v).1 as).map (·.2)) = some k ∧ 0 < k ∧ k ≤ n :=
  Knapsack.ends_within_horizon n hn rnd dense budget w v h as hok hlen

/-- the horizon is attained: three items that all fit are packed in three steps, LAST only at the third -/
example : Ep.firstLastTS ((Ep.rollout (step id true) (reset 2 [1/2, 1/4, 1/2] [1, 1/2, 1/3]).1 [0, 1, 2]).map (·.2)) =
    some 3 := by decide +kernel
end Props.C11
