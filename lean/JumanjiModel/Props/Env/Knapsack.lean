/-
Property theorems for Knapsack.  Only statements + proofs of properties (helper lemmas live in
Env/Knapsack/Lemmas.lean).  Sections are named after the property they belong to.
-/
import JumanjiModel.Env.Knapsack.Lemmas
import JumanjiModel.Env.Knapsack.Bounds
import JumanjiModel.Prim.FloatLemmas
open Jm Knapsack

namespace Props.C01
/-- `reset` (any budget, any sampled weights/values of the unit interval): every leaf of the observation lies in
the interval `obsBounds` lists for it (weights, values ∈ [0,1]; packed_items, action_mask ∈ {0,1}) -/
theorem knapsack_reset_obs_in_bounds (n : Nat) (budget : Rat) (w v : List Rat) (h : validDraw n w v) :
    Jm.OB.InBounds obsBounds (obsLeaves (reset budget w v).2.obs) := Knapsack.reset_obs_in_bounds n budget w v h

/-- every step (any rounding, either reward function, ANY action, valid or not, terminal step included) from a
state whose weights and values lie in the unit interval -/
theorem knapsack_step_obs_in_bounds (rnd : Rat → Rat) (dense : Bool) (s : State) (a : Int) (h : UnitItems s) :
    Jm.OB.InBounds obsBounds (obsLeaves (step rnd dense s a).2.obs) := Knapsack.step_obs_in_bounds rnd dense s a h

/-- the invariant `UnitItems` is established by `reset` and preserved by every step -/
theorem knapsack_reset_unit (n : Nat) (budget : Rat) (w v : List Rat) (h : validDraw n w v) :
    UnitItems (reset budget w v).1 := Knapsack.reset_unitItems n budget w v h
theorem knapsack_step_unit (rnd : Rat → Rat) (dense : Bool) (s : State) (a : Int) (h : UnitItems s) :
    UnitItems (step rnd dense s a).1 := Knapsack.step_unitItems rnd dense s a h

example : validDraw 2 [1/2, 1/4] [1, 0] := by decide +kernel
example : UnitItems ⟨[1/2, 1/4], [1, 1], [false, true], 1/2⟩ := by decide +kernel
end Props.C01

namespace Props.C04
/-- the mask bit of item `a` is set exactly when the rules allow packing it -/
theorem knapsack_mask_iff_legal (s : State) (a : Nat) (hl : s.packed.length = s.weights.length) :
    (maskOf s).getD a false = true ↔ legal s a := Knapsack.mask_iff_legal s a hl

/-- the environment's own validity test agrees with the rules (so a masked-in action is never
treated as invalid and every legal action is accepted) -/
theorem knapsack_step_agrees (s : State) (a : Nat) (hl : s.packed.length = s.weights.length)
    (ha : a < s.weights.length) : isValid s a = true ↔ legal s a := Knapsack.isValid_iff_legal s a hl ha

example : legal ⟨[1/2, 1/4], [1, 1], [false, true], 1/2⟩ 0 := by decide +kernel
end Props.C04

namespace Props.C05
/-- an illegal action ends the episode with reward 0 and leaves the state untouched -/
theorem knapsack_illegal_terminates (rnd : Rat → Rat) (dense : Bool) (s : State) (a : Nat)
    (hl : s.packed.length = s.weights.length) (ha : a < s.weights.length) (h : ¬ legal s a) :
    (step rnd dense s a).1 = s ∧ (step rnd dense s a).2.stepType = .last ∧
    (step rnd dense s a).2.reward = [0] := Knapsack.illegal_step rnd dense s a hl ha h
end Props.C05

namespace Props.C06
/-- legal play keeps the packed weight within the budget (exact arithmetic) -/
theorem knapsack_step_feasible (b : Rat) (dense : Bool) (s : State) (a : Nat)
    (hf : Feasible b s) (hl : legal s a) : Feasible b (step id dense s a).1 :=
  Knapsack.step_feasible b dense s a hf hl

/-- under ANY rounding of the subtraction that is monotone and fixes 0 (float32 is one), the
remaining budget never becomes negative under legal play -/
theorem knapsack_remaining_nonneg (rnd : Rat → Rat) (hmono : ∀ x y, x ≤ y → rnd x ≤ rnd y)
    (h0 : rnd 0 = 0) (dense : Bool) (s : State) (a : Nat) (hr : 0 ≤ s.remaining) (hl : legal s a) :
    0 ≤ (step rnd dense s a).1.remaining := Knapsack.remaining_nonneg rnd hmono h0 dense s a hr hl

/-- in particular for the float32 model: `Jx.roundF32` is monotone and fixes 0 (Prim/FloatLemmas.lean) -/
theorem knapsack_remaining_nonneg_roundF32 (dense : Bool) (s : State) (a : Nat) (hr : 0 ≤ s.remaining)
    (hl : legal s a) : 0 ≤ (step Jx.roundF32 dense s a).1.remaining :=
  Knapsack.remaining_nonneg Jx.roundF32 (fun _ _ h => Jx.roundF32_mono h) Jx.roundF32_zero dense s a hr hl

example : Feasible 1 ⟨[1/2, 1/4], [1, 1], [false, true], 3/4⟩ := by decide +kernel
end Props.C06

namespace Props.C08
/-- dense reward telescopes: packed value after a step = packed value before + reward -/
theorem knapsack_dense_telescopes (rnd : Rat → Rat) (s : State) (a : Nat)
    (hf : s.packed.length = s.weights.length ∧ s.values.length = s.weights.length)
    (ha : a < s.weights.length) :
    packedValue (step rnd true s a).1 = packedValue s + (step rnd true s a).2.reward.sum :=
  Knapsack.dense_telescopes rnd s a hf ha

/-- sparse reward: zero before the end, the packed value of the final state at a valid end -/
theorem knapsack_sparse_reward (rnd : Rat → Rat) (s : State) (a : Nat) :
    (step rnd false s a).2.reward =
      [if (step rnd false s a).2.stepType = .last ∧ isValid s a = true
       then packedValue (step rnd false s a).1 else 0] := Knapsack.sparse_reward rnd s a
end Props.C08

namespace Props.C12
/-- the observation is the documented function of the successor state -/
theorem knapsack_obs_faithful (rnd : Rat → Rat) (dense : Bool) (s : State) (a : Int) :
    (step rnd dense s a).2.obs = observe (step rnd dense s a).1 := Knapsack.obs_faithful rnd dense s a
end Props.C12

namespace Props.C11
/-- every non-terminal step packs one more item, so an episode lasts at most `num_items` steps -/
theorem knapsack_progress (rnd : Rat → Rat) (dense : Bool) (s : State) (a : Nat)
    (hl : s.packed.length = s.weights.length) (ha : a < s.weights.length)
    (h : (step rnd dense s a).2.stepType ≠ .last) :
    Jx.countTrue (step rnd dense s a).1.packed = Jx.countTrue s.packed + 1 :=
  Knapsack.progress rnd dense s a hl ha h
end Props.C11
