/-
Property theorems for JobShop.  Only statements (proofs live in Env/JobShop/Lemmas.lean).

`Inv cfg s` = shapes ∧ every op names a machine of the shop ∧ `Feasible` (the hard constraints,
recomputed from `scheduled_times`/`ops_durations`/`ops_machine_ids`) ∧ `Bookkeeping` (`ops_mask`,
`machines_remaining_times`, `machines_job_ids` agree with the schedule).  It holds after `reset`
(`jobshop_reset_feasible`) and is preserved by every legal action (`jobshop_step_feasible`), so it
holds on every state of mask-respecting play; `s.amask = maskOf cfg s` (the cached mask is fresh)
holds after `reset` and after every `step` (`jobshop_cached_mask_*`).
-/
import JumanjiModel.Env.JobShop.Lemmas
import JumanjiModel.Env.JobShop.Bounds
import JumanjiModel.Env.JobShop.CompletionLemmas
open Jm JobShop

/-- a concrete mid-episode state (2 jobs, 2 machines, 2 ops; job 0's first op runs on machine 0
since time 0 for 2 steps, the clock shows 1) used to show that the hypotheses are satisfiable -/
def JobShop.exCfg : Cfg := ⟨2, 2, 2, 2⟩
def JobShop.exState : State :=
  { mid := [[0, 1], [0, -1]], dur := [[2, 1], [1, -1]], opsMask := [[false, true], [true, false]],
    mjob := [0, 2], mrem := [1, 0], amask := [[false, false, true], [false, false, true]],
    stepCount := 1, sched := [[0, -1], [-1, -1]] }

namespace Props.C01
/-- `reset` (either generator; ANY instance arrays of shape `J × O` with machine ids in `[-1, M-1]` and durations
in `[-1, D]`): every leaf of the observation lies in the interval `obsBounds cfg` lists for it
(ops_machine_ids ∈ [-1, M-1], ops_durations ∈ [-1, D], machines_job_ids ∈ [0, J],
machines_remaining_times ∈ [0, D-1] (`[0, 0]` when `D = 0`), ops_mask, action_mask ∈ {0, 1}) -/
theorem jobshop_reset_obs_in_bounds (cfg : Cfg) (mid dur : List (List Int)) (h : validDraw cfg mid dur) :
    Jm.OB.InBounds (obsBounds cfg) (obsLeaves (reset cfg mid dur).2.obs) :=
  JobShop.reset_obs_in_bounds cfg mid dur h

/-- every step — all sizes, ANY state satisfying the bounds invariant (no shape or feasibility assumption), any
action whose entries for the machines are job ids or the no-op (`0 ≤ a[m] ≤ J`, i.e. every action of the action
spec), valid or not, terminal step included -/
theorem jobshop_step_obs_in_bounds (cfg : Cfg) (s : State) (a : List Int) (h : BInv cfg s) (ha : ActIn cfg a) :
    Jm.OB.InBounds (obsBounds cfg) (obsLeaves (step cfg s a).2.obs) :=
  JobShop.step_obs_in_bounds cfg s a h ha

/-- the invariant `BInv` (instance arrays, `machines_job_ids`, `machines_remaining_times` inside their intervals)
is established by `reset` and preserved by every such step, so the bounds hold along every episode -/
theorem jobshop_reset_binv (cfg : Cfg) (mid dur : List (List Int)) (h : validDraw cfg mid dur) :
    BInv cfg (reset cfg mid dur).1 := JobShop.reset_binv cfg mid dur h
theorem jobshop_step_binv (cfg : Cfg) (s : State) (a : List Int) (h : BInv cfg s) (ha : ActIn cfg a) :
    BInv cfg (step cfg s a).1 := JobShop.step_binv cfg s a h ha

/-- every action of the action spec satisfies the action hypothesis -/
theorem jobshop_inspec_actin (cfg : Cfg) (a : List Int) (h : InSpec cfg a) : ActIn cfg a :=
  JobShop.actIn_of_inSpec cfg a h

example : validDraw exCfg exState.mid exState.dur := by decide
example : BInv exCfg exState := by decide
example : ActIn exCfg [1, 2] := by decide
end Props.C01

namespace Props.C04
/-- on every state satisfying the invariant, the mask entry (machine `m`, choice `c`) is set exactly
when the rules — stated from the schedule alone — allow machine `m` to take choice `c` -/
theorem jobshop_mask_iff_legal (cfg : Cfg) (s : State) (hI : Inv cfg s) {m c : Nat} (hm : m < cfg.M)
    (hc : c ≤ cfg.J) : at2 (maskOf cfg s) false m c = true ↔ legal cfg s m c :=
  JobShop.mask_iff_legal cfg s hI hm hc

/-- the mask cached in the state (the one `step` tests the action against and the observation shows)
is the mask of the current state: after `reset` and after every `step` -/
theorem jobshop_cached_mask_step (cfg : Cfg) (s : State) (a : List Int) :
    (step cfg s a).1.amask = maskOf cfg (step cfg s a).1 := JobShop.cached_mask_step cfg s a
theorem jobshop_cached_mask_reset (cfg : Cfg) (mid dur : List (List Int)) :
    (initState cfg mid dur).amask = maskOf cfg (initState cfg mid dur) :=
  JobShop.cached_mask_init cfg mid dur

/-- the environment's own validity test accepts exactly the legal joint actions -/
theorem jobshop_step_agrees (cfg : Cfg) (s : State) (a : List Int) (hI : Inv cfg s)
    (hC : s.amask = maskOf cfg s) (hA : InSpec cfg a) : invalid cfg s a = false ↔ legalAction cfg s a :=
  JobShop.invalid_iff cfg s a hI hC hA

example : Inv exCfg exState ∧ exState.amask = maskOf exCfg exState := by decide +kernel
example : legalAction exCfg exState [2, 2] ∧ ¬ legalAction exCfg exState [1, 2] ∧
    legal exCfg ⟨[[1, 0], [0, -1]], [[2, 1], [1, -1]], [[true, true], [true, false]], [2, 2], [0, 0],
      [[false, true, true], [true, false, true]], 0, [[-1, -1], [-1, -1]]⟩ 1 0 := by decide +kernel
end Props.C04

namespace Props.C05
/-- an in-spec action that the rules forbid ends the episode at once (LAST, discount 0) with the
documented penalty −num_jobs·max_num_ops·max_op_duration -/
theorem jobshop_illegal_terminates (cfg : Cfg) (s : State) (a : List Int) (hI : Inv cfg s)
    (hC : s.amask = maskOf cfg s) (hA : InSpec cfg a) (h : ¬ legalAction cfg s a) :
    (step cfg s a).2.stepType = .last ∧ (step cfg s a).2.reward = [penalty cfg] ∧
    (step cfg s a).2.discount = [0] := JobShop.illegal_terminates cfg s a hI hC hA h

/-- the other documented penalty: all machines idle after the step -/
theorem jobshop_idle_terminates (cfg : Cfg) (s : State) (a : List Int)
    (hidle : allIdle cfg (next cfg s a) = true) :
    (step cfg s a).2.stepType = .last ∧ (step cfg s a).2.reward = [penalty cfg] :=
  JobShop.idle_terminates cfg s a hidle
end Props.C05

namespace Props.C06
/-- the state built by `reset` satisfies the invariant for every instance of the configured shape
whose ops name machines of the shop -/
theorem jobshop_reset_feasible (cfg : Cfg) (mid dur : List (List Int))
    (hmid : mid.length = cfg.J ∧ ∀ j, j < cfg.J → (mid.getD j []).length = cfg.O)
    (hdur : dur.length = cfg.J ∧ ∀ j, j < cfg.J → (dur.getD j []).length = cfg.O)
    (hM : MachinesOK cfg (initState cfg mid dur)) : Inv cfg (initState cfg mid dur) :=
  JobShop.init_inv cfg mid dur hmid hdur hM

/-- a legal action keeps the schedule feasible (start times in the past, job order respected, no
overlap within a job or on a machine) and the machine/op bookkeeping consistent with it -/
theorem jobshop_step_feasible (cfg : Cfg) (s : State) (a : List Int) (hI : Inv cfg s)
    (hL : legalAction cfg s a) : Inv cfg (step cfg s a).1 := JobShop.inv_next cfg s a hI hL

/-- when legal play reaches a finished schedule, the state is a complete feasible solution: every
op is scheduled and has run to completion -/
theorem jobshop_complete_is_solution (cfg : Cfg) (s : State) (a : List Int) (hI : Inv cfg s)
    (hL : legalAction cfg s a) (hD : DurationsOK cfg s) (hnf : finished cfg s = false)
    (hf : finished cfg (step cfg s a).1 = true) : IsSolution cfg (step cfg s a).1 :=
  (JobShop.completion_at_makespan cfg s a hI hL hD hnf hf).2

example : Inv exCfg exState ∧ legalAction exCfg exState [2, 2] := by decide +kernel
end Props.C06

namespace Props.C08
/-- a valid step that does not leave all machines idle has reward −1, advances the clock by one,
and is LAST exactly when the schedule is finished -/
theorem jobshop_valid_step_reward (cfg : Cfg) (s : State) (a : List Int) (hv : invalid cfg s a = false)
    (hidle : allIdle cfg (next cfg s a) = false) :
    (step cfg s a).2.reward = [-1] ∧ (step cfg s a).1.stepCount = s.stepCount + 1 ∧
    ((step cfg s a).2.stepType = .last ↔ finished cfg (next cfg s a) = true) :=
  JobShop.valid_step_reward cfg s a hv hidle

/-- completion is detected at the makespan: the first finished state of legal play has
clock = max (scheduled_time + duration) -/
theorem jobshop_completion_at_makespan (cfg : Cfg) (s : State) (a : List Int) (hI : Inv cfg s)
    (hL : legalAction cfg s a) (hD : DurationsOK cfg s) (hnf : finished cfg s = false)
    (hf : finished cfg (next cfg s a) = true) :
    makespan cfg (next cfg s a) = (next cfg s a).stepCount :=
  (JobShop.completion_at_makespan cfg s a hI hL hD hnf hf).1

/-- whole episodes: from a fresh instance (clock 0), a legal episode that ends by completion
(never all machines idle) has return = −makespan of the final schedule -/
theorem jobshop_return_eq_neg_makespan (cfg : Cfg) (s : State) (as : List (List Int)) (hI : Inv cfg s)
    (hC : s.amask = maskOf cfg s) (hD : DurationsOK cfg s) (h0 : s.stepCount = 0)
    (hcb : CompletesBy cfg s as) : (play cfg s as).2 = objective cfg (play cfg s as).1 :=
  JobShop.return_eq_objective cfg s as hI hC hD h0 hcb

/-- a 1-job instance played to completion: CompletesBy is satisfiable, the return is −2 -/
example : CompletesBy ⟨1, 1, 1, 2⟩ (initState ⟨1, 1, 1, 2⟩ [[0]] [[2]]) [[0], [1]] ∧
    (play ⟨1, 1, 1, 2⟩ (initState ⟨1, 1, 1, 2⟩ [[0]] [[2]]) [[0], [1]]).2 = -2 := by
  refine ⟨?_, ?_⟩
  · simp only [CompletesBy]; decide +kernel
  · decide +kernel

/-- the interaction of the two end conditions: under a legal action from an unfinished state, a finished
successor never has all machines idle (the machine that ran the last op keeps its job id), so the completing
step is rewarded −1, never the idle penalty, and is LAST.  No assumption on durations. -/
theorem jobshop_finished_not_idle (cfg : Cfg) (s : State) (a : List Int) (hI : Inv cfg s)
    (hL : legalAction cfg s a) (hnf : finished cfg s = false) (hf : finished cfg (next cfg s a) = true) :
    allIdle cfg (next cfg s a) = false := JobShop.finished_not_idle cfg s a hI hL hnf hf

theorem jobshop_completing_step (cfg : Cfg) (s : State) (a : List Int) (hI : Inv cfg s)
    (hC : s.amask = maskOf cfg s) (hL : legalAction cfg s a) (hnf : finished cfg s = false)
    (hf : finished cfg (next cfg s a) = true) :
    (step cfg s a).2.reward = [-1] ∧ (step cfg s a).2.stepType = .last :=
  JobShop.completing_step cfg s a hI hC hL hnf hf

/-- `CompletesBy` (which ASSUMES "not all machines idle" also at the completing step) follows from the episode as
the environment sees it: `EndsByCompletion` = every action legal, every timestep before the last is not LAST,
the schedule is finished after the last action -/
theorem jobshop_completesBy_of_ends (cfg : Cfg) (s : State) (as : List (List Int)) (hI : Inv cfg s)
    (hnf : finished cfg s = false) (he : EndsByCompletion cfg s as) : CompletesBy cfg s as :=
  JobShop.completesBy_of_ends cfg as s hI hnf he

/-- whole episodes, leftover hypothesis discharged: from a fresh unfinished instance (clock 0) a legal episode that
runs (no LAST before its end) until the schedule is finished has return = −makespan of the final schedule, and the
final state is a complete feasible solution.  (`finished cfg s = false` is needed: on an instance without any op
the first step leaves all machines idle and is penalised.) -/
theorem jobshop_return_eq_neg_makespan' (cfg : Cfg) (s : State) (as : List (List Int)) (hI : Inv cfg s)
    (hC : s.amask = maskOf cfg s) (hD : DurationsOK cfg s) (h0 : s.stepCount = 0)
    (hnf : finished cfg s = false) (he : EndsByCompletion cfg s as) :
    (play cfg s as).2 = objective cfg (play cfg s as).1 ∧ IsSolution cfg (play cfg s as).1 :=
  JobShop.return_eq_objective' cfg s as hI hC hD h0 hnf he

/-- the hypotheses are satisfiable: the 1-job instance above, played to completion -/
example : Inv ⟨1, 1, 1, 2⟩ (initState ⟨1, 1, 1, 2⟩ [[0]] [[2]]) ∧
    finished ⟨1, 1, 1, 2⟩ (initState ⟨1, 1, 1, 2⟩ [[0]] [[2]]) = false ∧
    DurationsOK ⟨1, 1, 1, 2⟩ (initState ⟨1, 1, 1, 2⟩ [[0]] [[2]]) ∧
    EndsByCompletion ⟨1, 1, 1, 2⟩ (initState ⟨1, 1, 1, 2⟩ [[0]] [[2]]) [[0], [1]] := by
  refine ⟨by decide +kernel, by decide +kernel, by decide +kernel, ?_⟩
  simp only [EndsByCompletion]; decide +kernel

/-- the empty instance shows why `finished cfg s = false` is assumed: all machines idle after the first step,
penalty instead of −makespan = 0 -/
example : (step ⟨1, 1, 1, 2⟩ (initState ⟨1, 1, 1, 2⟩ [[-1]] [[-1]]) [1]).2.reward = [penalty ⟨1, 1, 1, 2⟩] ∧
    finished ⟨1, 1, 1, 2⟩ (initState ⟨1, 1, 1, 2⟩ [[-1]] [[-1]]) = true := by decide +kernel
end Props.C08

namespace Props.C09
/-- the clock: every step advances `step_count` by one and leaves the instance untouched -/
theorem jobshop_clock (cfg : Cfg) (s : State) (a : List Int) :
    (step cfg s a).1.stepCount = s.stepCount + 1 ∧ (step cfg s a).1.mid = s.mid ∧
    (step cfg s a).1.dur = s.dur := ⟨rfl, rfl, rfl⟩

/-- L1 = L2 on the schedule: under a legal action the ops that get a start time are exactly the next
ops of the chosen jobs (`Hit`), they start now, and all other start times are unchanged -/
theorem jobshop_schedule_eq (cfg : Cfg) (s : State) (a : List Int) (hI : Inv cfg s)
    (hL : legalAction cfg s a) {j k : Nat} (hj : j < cfg.J) (hk : k < cfg.O) :
    (step cfg s a).1.schedAt j k = if Hit cfg s a j k then s.stepCount else s.schedAt j k :=
  JobShop.schedAt_next cfg s a hI hL hj hk

/-- L1 = L2 on the machines: after a legal action `machines_remaining_times` is again the time until
the machine's last op completes and `ops_mask` again marks the real unscheduled ops -/
theorem jobshop_clock_eq (cfg : Cfg) (s : State) (a : List Int) (hI : Inv cfg s)
    (hL : legalAction cfg s a) : Bookkeeping cfg (step cfg s a).1 :=
  (JobShop.inv_next cfg s a hI hL).2.2.2
end Props.C09

namespace Props.C11
/-- progress: a legal step that does not leave all machines idle (i.e. is not penalised) consumes at
least one unit of the operation time still to be spent (`timeLeft` = durations of the unscheduled
ops + remaining parts of the running ones) -/
theorem jobshop_progress (cfg : Cfg) (s : State) (a : List Int) (hI : Inv cfg s)
    (hL : legalAction cfg s a) (hD : DurationsOK cfg s) (hidle : allIdle cfg (next cfg s a) = false) :
    timeLeft cfg (step cfg s a).1 + 1 ≤ timeLeft cfg s :=
  JobShop.timeLeft_decreases cfg s a hI hL hD hidle

/-- horizon: legal, never-penalised play lasts at most `timeLeft` steps; an illegal action or all
machines idle ends the episode at once (C05), so an episode has at most `timeLeft s₀ + 1` steps -/
theorem jobshop_horizon (cfg : Cfg) (s : State) (as : List (List Int)) (hI : Inv cfg s)
    (hD : DurationsOK cfg s) (h : Survives cfg s as) : (as.length : Int) ≤ timeLeft cfg s :=
  JobShop.horizon cfg as s hI hD h

/-- at the start (nothing scheduled) `timeLeft ≤ J·O·D`, hence episodes last ≤ J·O·D + 1 steps -/
theorem jobshop_horizon_bound (cfg : Cfg) (s : State) (hD : DurationsOK cfg s)
    (hns : ∀ j, j < cfg.J → ∀ k, k < cfg.O → ¬ isSched s j k) :
    timeLeft cfg s ≤ ((cfg.J * cfg.O * cfg.D : Nat) : Int) := JobShop.timeLeft_init_le cfg s hD hns

example : Survives exCfg exState [[2, 2]] ∧ DurationsOK exCfg exState ∧ timeLeft exCfg exState = 3 := by
  refine ⟨?_, ?_, ?_⟩
  · simp only [Survives]; decide +kernel
  · decide +kernel
  · decide +kernel
end Props.C11

namespace Props.C12
/-- the observation is the documented function of the successor state (six copied fields, the mask
being the mask of the successor's own machine/op status) -/
theorem jobshop_obs_faithful (cfg : Cfg) (s : State) (a : List Int) :
    (step cfg s a).2.obs = observe cfg (step cfg s a).1 := JobShop.obs_faithful cfg s a
end Props.C12

